#!/usr/bin/env python3
"""Regenerate /verif/MANIFEST.json from the property modules that exist."""
import importlib
import json
import os
import sys

ROOT = os.path.dirname(os.path.dirname(os.path.abspath(__file__)))
sys.path.insert(0, ROOT)
props = [json.loads(l) for l in open(os.path.join(ROOT, "properties.jsonl"))]
checks, na = [], []
for p in props:
    pid = p["id"]
    path = os.path.join(ROOT, "rv", "props", f"{pid}.py")
    ready = open(os.path.join(ROOT, "rv", "props", "READY")).read().split()
    if not os.path.exists(path) or pid not in ready:
        na.append({"property_id": pid, "reason": "monitor designed (DESIGN.md section 4) but not built yet - work in progress, not a limit of the technique"})
        continue
    src = open(path).read()
    ns = {}
    # read the static metadata without importing the library
    meta = {}
    for key in ("LEVEL", "LEVEL_TEXT", "LEVEL_NOTE", "TECHNIQUE"):
        import re
        m = re.search(rf"^{key} = (\(.*?\)|\".*?\")$", src, re.S | re.M)
        if m:
            meta[key] = eval(m.group(1))
    level = meta.get("LEVEL", "exploration")
    checks.append({
        "property_id": pid,
        "quick_cmd": f"/venv/bin/python -m rv.run {pid} --tier quick",
        "thorough_cmd": f"/venv/bin/python -m rv.run {pid} --tier thorough",
        "evidence_file": f"/verif/evidence/{pid}.json",
        "replay_cmd_template": f"/venv/bin/python -m rv.run {pid} --replay {{path}}",
        "engine": "rv",
        "level_claimed": {
            "category": level,
            "text": meta.get("LEVEL_TEXT", "Runtime monitoring: the real library functions are executed on seeded hostile workloads while post-condition monitors hooked onto them compare every observed call with an independent reference model; the property held on the executions listed in the evidence, nothing is claimed beyond them."),
            "design_ref": f"DESIGN.md section 4, {pid}",
        },
        "level_note": meta.get("LEVEL_NOTE", "trusted: the reference models in rv/ref (independent of the library), numpy/scipy, the per-property tolerances stated in DESIGN.md 3.1; bounded widths/depths as stated in the evidence"),
        "technique": meta.get("TECHNIQUE", "runtime monitoring: post-condition oracles on hooked library functions + reference-model comparison over seeded workloads"),
    })
manifest = {
    "version": 1,
    "setup_cmd": "/venv/bin/python -m rv.setup_check",
    "hooks": {
        "guard": "ORQUESTRA_QUANTUM_VERIF",
        "enable": "no source hooks are needed: monitors wrap the library's functions from /verif at run time (rv/monitor.py); the guard variable is reserved and unused",
        "baseline_off_cmd": "cd /repo && /venv/bin/python -m pytest -ra -q -p no:cacheprovider --timeout=900 --continue-on-collection-errors",
        "source_commits": [],
        "add_only": True,
    },
    "engines": [{
        "name": "rv", "path": "/verif/rv", "serves_properties": [c["property_id"] for c in checks],
        "kind_free_text": "pure-Python runtime-monitoring framework: function/property hooks with re-entrancy guard, sys.monitoring reach counters, independent reference models, seeded sharded workloads, three-valued verdicts",
    }],
    "checks": checks,
    "not_applicable": na,
    "notes": "All checks import orquestra.quantum from /repo/src (the working tree) at run time; nothing is built or cached. exit 0 held / 1 VIOLATION / 2 INCONCLUSIVE. Known findings: /verif/known_findings.json. VERIF_SEED selects the workload seed.",
}
json.dump(manifest, open(os.path.join(ROOT, "MANIFEST.json"), "w"), indent=1)
print(f"checks={len(checks)} not_applicable={len(na)}")
