#!/usr/bin/env python3
"""Which library lines does no property workload execute?  (authoring aid, not a registered check)

  tools/linecov.py [C01 C07 ...] [--tier quick] [--budget 60]

Runs one shard of each property's workload under coverage.py (source = /repo/src/orquestra/quantum),
combines the data and prints the lines never executed, per file.  Unexecuted lines inside a property's
scope are places where a change could not be observed by any monitor.
"""
import argparse
import os
import shutil
import subprocess
import sys
import tempfile

ROOT = os.path.dirname(os.path.dirname(os.path.abspath(__file__)))
PY = "/venv/bin/python"


def main():
    ap = argparse.ArgumentParser()
    ap.add_argument("props", nargs="*")
    ap.add_argument("--tier", default="quick")
    ap.add_argument("--budget", type=float, default=60)
    ap.add_argument("--each", action="store_true", help="report per property instead of combined")
    a = ap.parse_args()
    props = a.props or [f"C{i:02d}" for i in range(1, 21)]
    tmp = tempfile.mkdtemp(prefix="rv-cov-")
    try:
        procs = []
        for p in props:
            env = dict(os.environ, PYTHONHASHSEED="0", PYTHONPATH=ROOT, COVERAGE_FILE=os.path.join(tmp, f".coverage.{p}"))
            cmd = [PY, "-m", "coverage", "run", "--source=/repo/src/orquestra/quantum", "-m", "rv.worker", p, "--tier",
                   a.tier, "--seed", "0", "--shard", "0", "--nshards", "1", "--budget", str(a.budget), "--max-cases",
                   "1000000", "--out", os.path.join(tmp, f"{p}.json")]
            procs.append((p, subprocess.Popen(cmd, env=env, cwd=ROOT, stdout=subprocess.DEVNULL, stderr=subprocess.DEVNULL)))
        for p, pr in procs:
            pr.wait()
        omit = "*/testing/*,*_contracts.py,*estimator_contract.py,*/_testing.py"
        if a.each:
            for p in props:
                print("=" * 20, p)
                env = dict(os.environ, COVERAGE_FILE=os.path.join(tmp, f".coverage.{p}"))
                subprocess.run([PY, "-m", "coverage", "report", "-m", f"--omit={omit}"], env=env, cwd=tmp)
        else:
            env = dict(os.environ, COVERAGE_FILE=os.path.join(tmp, ".coverage"))
            subprocess.run([PY, "-m", "coverage", "combine"] + [os.path.join(tmp, f".coverage.{p}") for p in props], env=env, cwd=tmp,
                           stdout=subprocess.DEVNULL)
            subprocess.run([PY, "-m", "coverage", "report", "-m", f"--omit={omit}"], env=env, cwd=tmp)
    finally:
        shutil.rmtree(tmp, ignore_errors=True)


if __name__ == "__main__":
    sys.exit(main())
