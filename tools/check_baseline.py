#!/usr/bin/env python3
"""Run the repository's pinned test suite (hooks/guard off - there are none)
and compare with /root/.vp/BASELINE.json: every stable-pass test must still pass.
Restores files the suite deletes from /repo (list.json)."""
import json
import os
import subprocess
import sys
import tempfile
import xml.etree.ElementTree as ET

base = json.load(open("/root/.vp/BASELINE.json"))
stable = set(base["stable_pass"])
fd, path = tempfile.mkstemp(suffix=".xml")
os.close(fd)
cmd = base["cmd"].replace("<file>", path)
p = subprocess.run(cmd, shell=True, capture_output=True, text=True)
subprocess.run("git -C /repo checkout -- list.json", shell=True)
passed = set()
failed = set()
for tc in ET.parse(path).getroot().iter("testcase"):
    name = f"{tc.get('classname')}::{tc.get('name')}"
    bad = any(ch.tag in ("failure", "error", "skipped") for ch in tc)
    (failed if bad else passed).add(name)
os.remove(path)
missing = sorted(stable - passed)
print(f"passed={len(passed)} failed={len(failed)} stable={len(stable)} stable_missing={len(missing)} newly_passing={len(passed - stable)}")
for m in missing[:40]:
    print("  NOT PASSING:", m)
st = subprocess.run("git -C /repo status --short", shell=True, capture_output=True, text=True).stdout
if st.strip():
    print("repo status:\n" + st)
sys.exit(1 if missing else 0)
