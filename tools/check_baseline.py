#!/usr/bin/env python3
"""Run the repository's pinned test suite (hooks/guard off - there are none)
and compare with /root/.vp/BASELINE.json: every stable-pass test must still pass.

  tools/check_baseline.py              suite in /repo (restores list.json afterwards)
  tools/check_baseline.py --repo DIR   suite in a scratch copy/worktree DIR (its own src/ and tests/)
"""
import argparse
import json
import os
import subprocess
import sys
import tempfile
import xml.etree.ElementTree as ET


def run(repo="/repo", quiet=False):
    base = json.load(open("/root/.vp/BASELINE.json"))
    stable = set(base["stable_pass"])
    fd, path = tempfile.mkstemp(suffix=".xml")
    os.close(fd)
    cmd = base["cmd"].replace("<file>", path).replace("cd /repo", f"cd {repo}")
    env = dict(os.environ)
    env["PYTHONPATH"] = os.path.join(repo, "src")
    env.pop("VERIF_REPO_SRC", None)
    subprocess.run(cmd, shell=True, capture_output=True, text=True, env=env)
    if os.path.abspath(repo) == "/repo":
        subprocess.run("git -C /repo checkout -- list.json", shell=True)
    passed, failed = set(), set()
    try:
        for tc in ET.parse(path).getroot().iter("testcase"):
            name = f"{tc.get('classname')}::{tc.get('name')}"
            bad = any(ch.tag in ("failure", "error", "skipped") for ch in tc)
            (failed if bad else passed).add(name)
    except ET.ParseError:
        pass
    os.remove(path)
    missing = sorted(stable - passed)
    if not quiet:
        print(f"passed={len(passed)} failed={len(failed)} stable={len(stable)} "
              f"stable_missing={len(missing)} newly_passing={len(passed - stable)}")
        for m in missing[:40]:
            print("  NOT PASSING:", m)
        if os.path.abspath(repo) == "/repo":
            st = subprocess.run("git -C /repo status --short", shell=True, capture_output=True, text=True).stdout
            if st.strip():
                print("repo status:\n" + st)
    return missing


if __name__ == "__main__":
    ap = argparse.ArgumentParser()
    ap.add_argument("--repo", default="/repo")
    a = ap.parse_args()
    sys.exit(1 if run(a.repo) else 0)
