#!/usr/bin/env python3
"""Validate a property-PRESERVING change written by an independent sub-agent and file it under /verif/harmless/.

  tools/equivcheck.py C07 /tmp/seedR/C07/out/1 [--name C07-R1] [--tier quick] [--also C08 ...]

Steps (scratch copies of /repo's working tree; /repo is never touched):
  1. the patch applies; 2. the agent's equiv_test.py passes WITHOUT and WITH the patch; 3. the repository's own suite
  still has stable_missing=0 with the patch; 4. the property's check (and those given with --also) is run against the
  patched copy and must report HELD (exit 0): a VIOLATION there is a false alarm, INCONCLUSIVE means the check is brittle.
Writes /verif/harmless/<name>/{patch.diff, equiv_test.py, notes.md, meta.json}.
"""
import argparse
import json
import os
import shutil
import subprocess
import sys

ROOT = os.path.dirname(os.path.dirname(os.path.abspath(__file__)))
sys.path.insert(0, os.path.join(ROOT, "tools"))
import check_baseline  # noqa: E402
import selftest  # noqa: E402
from seedcheck import run_demo  # noqa: E402


def main():
    ap = argparse.ArgumentParser()
    ap.add_argument("prop")
    ap.add_argument("dir")
    ap.add_argument("--name", default=None)
    ap.add_argument("--tier", default="quick")
    ap.add_argument("--also", nargs="*", default=[])
    ap.add_argument("--skip-validate", action="store_true")
    ap.add_argument("--seed", type=int, default=0)
    a = ap.parse_args()
    src_dir = os.path.abspath(a.dir)
    patch = os.path.join(src_dir, "patch.diff")
    demo = os.path.join(src_dir, "equiv_test.py")
    name = a.name or f"{a.prop}-R{os.path.basename(src_dir)}"
    dest = os.path.join(ROOT, "harmless", name)
    meta = {"property": a.prop, "name": name,
            "source": "independent sub-agent asked for a realistic change that PRESERVES the property (given only the property text and a scratch worktree)"}
    mp = os.path.join(dest, "meta.json")
    if os.path.exists(mp):
        meta.update(json.load(open(mp)))
    if not a.skip_validate:
        clean, mutant = selftest.scratch_copy(), selftest.scratch_copy()
        try:
            p = subprocess.run(["git", "apply", "--whitespace=nowarn", patch], cwd=mutant, capture_output=True, text=True)
            meta["patch_applies"] = p.returncode == 0
            if p.returncode != 0:
                print("PATCH DOES NOT APPLY:", p.stderr[-300:])
                return 2
            if os.path.exists(demo):
                tmpdemo = os.path.join(mutant, "_demo")
                os.makedirs(tmpdemo)
                shutil.copy(demo, tmpdemo)
                dpath = os.path.join(tmpdemo, "equiv_test.py")
                rc_clean, _ = run_demo(dpath, os.path.join(clean, "src"))
                rc_mut, out_mut = run_demo(dpath, os.path.join(mutant, "src"))
                meta["equiv_test_passes_without"] = rc_clean == 0
                meta["equiv_test_passes_with"] = rc_mut == 0
                shutil.rmtree(tmpdemo)
            missing = check_baseline.run(mutant, quiet=True)
            meta["suite_stable_missing_with_change"] = len(missing)
        finally:
            shutil.rmtree(clean, ignore_errors=True)
            shutil.rmtree(mutant, ignore_errors=True)
    checks = dict(meta.get("checks", {}))
    for prop in [a.prop] + list(a.also):
        r = selftest.run_one(prop, patch, a.tier, a.seed, False)
        verdict = {"MISSED": "held (as it should)", "caught": "FALSE-ALARM", "INCONCLUSIVE": "INCONCLUSIVE (brittle)"}.get(r["status"], r["status"])
        checks[prop] = {"tier": a.tier, "seed": a.seed, "verdict": verdict, "kinds": r.get("kinds"), "summary": r.get("summary")}
        print(f"{name}: check {prop} ({a.tier}) -> {verdict} {r.get('kinds') or ''}")
        if r["status"] != "MISSED":
            print("    ", r.get("summary"))
    meta["checks"] = checks
    os.makedirs(dest, exist_ok=True)
    for f in ("patch.diff", "equiv_test.py", "notes.md"):
        s = os.path.join(src_dir, f)
        if os.path.exists(s) and os.path.abspath(s) != os.path.abspath(os.path.join(dest, f)):
            shutil.copy(s, dest)
    json.dump(meta, open(mp, "w"), indent=1)
    return 0


if __name__ == "__main__":
    sys.exit(main())
