#!/usr/bin/env python3
"""Create /verif/mutants/<name>.patch from a textual replacement, without touching /repo.

  tools/mkmutant.py C01-no-reversed src/orquestra/quantum/circuits/_circuit.py 'old text' 'new text' [count]

The old text must occur exactly once in the file (or give the 1-based occurrence
index as `count`). Several (file, old, new) triples may be given by repeating
them. The patch is a unified diff that `git apply` accepts.
"""
import difflib
import os
import sys

ROOT = os.path.dirname(os.path.dirname(os.path.abspath(__file__)))


def main(argv):
    name = argv[0]
    rest = argv[1:]
    out = []
    while rest:
        path, old, new = rest[:3]
        rest = rest[3:]
        occ = None
        if rest and rest[0].isdigit():
            occ = int(rest[0])
            rest = rest[1:]
        src = open(os.path.join("/repo", path)).read()
        n = src.count(old)
        if n == 0:
            sys.exit(f"old text not found in {path}")
        if n > 1 and occ is None:
            sys.exit(f"old text occurs {n} times in {path}; give an occurrence index")
        if occ is None:
            dst = src.replace(old, new)
        else:
            parts = src.split(old)
            dst = old.join(parts[:occ]) + new + old.join(parts[occ:])
        diff = difflib.unified_diff(src.splitlines(True), dst.splitlines(True), f"a/{path}", f"b/{path}")
        out.append(f"diff --git a/{path} b/{path}\n" + "".join(diff))
    dest = os.path.join(ROOT, "mutants", name + ".patch")
    os.makedirs(os.path.dirname(dest), exist_ok=True)
    with open(dest, "w") as f:
        f.write("".join(out))
    print(dest)


if __name__ == "__main__":
    main(sys.argv[1:])
