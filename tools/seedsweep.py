#!/usr/bin/env python3
"""Re-run the registered checks against every stored seeded change (or harmless change) and record the outcome.

  tools/seedsweep.py [--only C07 C08-9 ...] [--jobs 8] [--tier quick] [--seed 0] [--harmless] [--missed]

For every /verif/seeded/<name>/patch.diff (with --harmless: /verif/harmless/<name>/patch.diff) the patch is applied to
a scratch copy of /repo's working tree and the property's check is run against it (tools/selftest.run_one). The
result is appended to the change's meta.json history with the /verif commit it was obtained at, so that
"which check catches which change" always refers to the checks as committed. --missed re-runs only the changes whose
latest recorded status is not the expected one.
"""
import argparse
import glob
import json
import os
import subprocess
import sys
from concurrent.futures import ThreadPoolExecutor

ROOT = os.path.dirname(os.path.dirname(os.path.abspath(__file__)))
sys.path.insert(0, os.path.join(ROOT, "tools"))
import selftest  # noqa: E402


def latest(meta):
    h = meta.get("history") or []
    return h[-1]["status"] if h else None


def main():
    ap = argparse.ArgumentParser()
    ap.add_argument("--only", nargs="*", default=[])
    ap.add_argument("--jobs", type=int, default=8)
    ap.add_argument("--tier", default="quick")
    ap.add_argument("--seed", type=int, default=0)
    ap.add_argument("--harmless", action="store_true")
    ap.add_argument("--missed", action="store_true")
    a = ap.parse_args()
    kind = "harmless" if a.harmless else "seeded"
    want = "MISSED" if a.harmless else "caught"
    head = subprocess.run(["git", "-C", ROOT, "rev-parse", "--short", "HEAD"], capture_output=True, text=True).stdout.strip()
    dirty = subprocess.run(["git", "-C", ROOT, "status", "--short", "rv"], capture_output=True, text=True).stdout.strip()
    if dirty:
        head += "+dirty"
    jobs = []
    for d in sorted(glob.glob(os.path.join(ROOT, kind, "C*-*"))):
        name = os.path.basename(d)
        if a.only and not any(name == o or name.startswith(o + "-") for o in a.only):
            continue
        mp = os.path.join(d, "meta.json")
        meta = json.load(open(mp)) if os.path.exists(mp) else {"name": name, "property": name[:3]}
        if meta.get("out_of_scope"):
            continue
        if a.missed and latest(meta) == want:
            continue
        jobs.append((name, d, meta))
    print(f"{len(jobs)} changes, checks at {head}", flush=True)

    def one(job):
        name, d, meta = job
        prop = meta.get("property", name[:3])
        r = selftest.run_one(prop, os.path.join(d, "patch.diff"), a.tier, a.seed, False)
        entry = {"verif_commit_before_run": head, "check": prop, "tier": a.tier, "seed": a.seed,
                 "status": r["status"], "kinds": r.get("kinds")}
        mp = os.path.join(d, "meta.json")
        meta = json.load(open(mp)) if os.path.exists(mp) else meta
        meta.setdefault("history", []).append(entry)
        if a.harmless:
            verdict = {"MISSED": "held (as it should)", "caught": "FALSE-ALARM",
                       "INCONCLUSIVE": "INCONCLUSIVE (brittle)"}.get(r["status"], r["status"])
            meta.setdefault("checks", {})[prop] = {"tier": a.tier, "seed": a.seed, "verdict": verdict,
                                                   "kinds": r.get("kinds"), "summary": r.get("summary")}
        else:
            meta.setdefault("checks", {})[prop] = {"tier": a.tier, "seed": a.seed, "status": r["status"],
                                                   "kinds": r.get("kinds"), "summary": r.get("summary")}
        json.dump(meta, open(mp, "w"), indent=1)
        flag = "" if r["status"] == want else "   <<<<<<"
        print(f"{name:<10} {r['status']:<22} {r.get('kinds')}{flag}", flush=True)
        if flag:
            print("      ", r.get("summary") or r.get("detail"), flush=True)
        return name, r["status"]

    with ThreadPoolExecutor(max_workers=a.jobs) as ex:
        res = list(ex.map(one, jobs))
    bad = [n for n, s in res if s != want]
    print(f"{len(res) - len(bad)}/{len(res)} as expected ({want}); not as expected: {bad}")
    return 0


if __name__ == "__main__":
    sys.exit(main())
