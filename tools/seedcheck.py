#!/usr/bin/env python3
"""Validate a seeded change produced by an independent sub-agent and file it under /verif/seeded/.

  tools/seedcheck.py C07 /tmp/seed/C07/out/1 [--name C07-1] [--tier quick] [--also C08 ...] [--no-store]

Steps (all on scratch copies of /repo's working tree; /repo is never touched):
  1. the patch applies; 2. the demonstration passes WITHOUT and fails WITH the patch;
  3. the repository's own suite still has stable_missing=0 with the patch;
  4. the property's check (and the checks given with --also) is run against the patched copy.
Writes /verif/seeded/<name>/{patch.diff, demo_test.py, notes.md, meta.json}.
"""
import argparse
import json
import os
import shutil
import subprocess
import sys

ROOT = os.path.dirname(os.path.dirname(os.path.abspath(__file__)))
sys.path.insert(0, os.path.join(ROOT, "tools"))
import check_baseline  # noqa: E402
import selftest  # noqa: E402

PY = "/venv/bin/python"


def run_demo(demo, src):
    env = dict(os.environ)
    env["PYTHONPATH"] = src
    d = os.path.dirname(demo)
    if demo.endswith(".py") and "def test" in open(demo).read():
        cmd = [PY, "-m", "pytest", "-q", "-p", "no:cacheprovider", "-x", "--timeout=600", "--rootdir", d, demo]
    else:
        cmd = [PY, demo]
    p = subprocess.run(cmd, env=env, cwd=d, capture_output=True, text=True, timeout=1800)
    return p.returncode, (p.stdout + p.stderr)[-600:]


def main():
    ap = argparse.ArgumentParser()
    ap.add_argument("prop")
    ap.add_argument("dir")
    ap.add_argument("--name", default=None)
    ap.add_argument("--tier", default="quick")
    ap.add_argument("--also", nargs="*", default=[])
    ap.add_argument("--no-store", action="store_true")
    ap.add_argument("--skip-validate", action="store_true", help="only re-run the checks (already validated)")
    ap.add_argument("--seed", type=int, default=0)
    a = ap.parse_args()
    src_dir = os.path.abspath(a.dir)
    patch = os.path.join(src_dir, "patch.diff")
    demo = next((os.path.join(src_dir, f) for f in ("demo_test.py", "demo.py") if os.path.exists(os.path.join(src_dir, f))), None)
    base = os.path.basename(src_dir)
    name = a.name or (base if base.startswith(a.prop + "-") else f"{a.prop}-{base}")
    meta = {"property": a.prop, "name": name, "source": "independent sub-agent given only the property text and a scratch worktree"}
    ok = True
    if not a.skip_validate:
        clean = selftest.scratch_copy()
        mutant = selftest.scratch_copy()
        try:
            p = subprocess.run(["git", "apply", "--whitespace=nowarn", patch], cwd=mutant, capture_output=True, text=True)
            meta["patch_applies"] = p.returncode == 0
            if p.returncode != 0:
                print("PATCH DOES NOT APPLY:", p.stderr[-400:])
                return 2
            # the demo lives in its own dir; run against both trees
            tmpdemo = os.path.join(mutant, "_demo")
            os.makedirs(tmpdemo)
            shutil.copy(demo, tmpdemo)
            dpath = os.path.join(tmpdemo, os.path.basename(demo))
            rc_clean, out_clean = run_demo(dpath, os.path.join(clean, "src"))
            rc_mut, out_mut = run_demo(dpath, os.path.join(mutant, "src"))
            meta["demo_passes_without"] = rc_clean == 0
            meta["demo_fails_with"] = rc_mut != 0
            shutil.rmtree(tmpdemo)
            missing = check_baseline.run(mutant, quiet=True)
            meta["suite_stable_missing_with_change"] = len(missing)
            ok = meta["demo_passes_without"] and meta["demo_fails_with"] and not missing
            if not ok:
                print("VALIDATION FAILED", json.dumps(meta), out_clean[-300:], out_mut[-300:], missing[:3])
        finally:
            shutil.rmtree(clean, ignore_errors=True)
            shutil.rmtree(mutant, ignore_errors=True)
    results = {}
    for prop in [a.prop] + list(a.also):
        r = selftest.run_one(prop, patch, a.tier, a.seed, False)
        results[prop] = {"tier": a.tier, "seed": a.seed, "status": r["status"], "kinds": r.get("kinds"), "summary": r.get("summary")}
        print(f"{name}: check {prop} ({a.tier}) -> {r['status']} {r.get('kinds')}")
        if r["status"] != "caught":
            print("    ", r.get("summary"))
    meta["checks"] = results
    meta["ran"] = (f"tools/seedcheck.py {a.prop} <dir> --tier {a.tier}: patch applied to a scratch copy of /repo's working tree "
                   f"(src/, tests/), demonstration run against clean and patched copies, repository suite run against the "
                   f"patched copy, then `python -m rv.run <prop> --tier {a.tier}` with VERIF_REPO_SRC pointing at the patched copy")
    if not a.no_store and ok:
        dest = os.path.join(ROOT, "seeded", name)
        os.makedirs(dest, exist_ok=True)
        def cp(src, dst):
            if os.path.abspath(src) != os.path.abspath(dst):
                shutil.copy(src, dst)

        cp(patch, os.path.join(dest, "patch.diff"))
        if demo:
            cp(demo, os.path.join(dest, os.path.basename(demo)))
        notes = os.path.join(src_dir, "notes.md")
        if os.path.exists(notes):
            cp(notes, os.path.join(dest, "notes.md"))
        head = subprocess.run(["git", "-C", ROOT, "rev-parse", "--short", "HEAD"], capture_output=True, text=True).stdout.strip()
        old = {}
        mp = os.path.join(dest, "meta.json")
        if os.path.exists(mp):
            old = json.load(open(mp))
        history = list(old.get("history", []))
        if not history:
            # runs recorded before the history existed
            for prop, r in old.get("checks", {}).items():
                history.append({"verif_commit_before_run": "(first run)", "check": prop, "tier": r.get("tier"),
                                "seed": r.get("seed"), "status": r.get("status"), "kinds": r.get("kinds")})
        for prop, r in results.items():
            history.append({"verif_commit_before_run": head, "check": prop, "tier": r["tier"], "seed": r["seed"],
                            "status": r["status"], "kinds": r["kinds"]})
        checks = dict(old.get("checks", {}))
        checks.update(results)
        meta["checks"] = checks
        meta["history"] = history
        for k in ("patch_applies", "demo_passes_without", "demo_fails_with", "suite_stable_missing_with_change", "needs"):
            if k in old and k not in meta:
                meta[k] = old[k]
        json.dump(meta, open(mp, "w"), indent=1)
    return 0 if ok else 1


if __name__ == "__main__":
    sys.exit(main())
