#!/usr/bin/env python3
"""Validate the monitors against deliberately broken copies of the library.

  tools/selftest.py C07                     every /verif/mutants/C07-*.patch
  tools/selftest.py C07 path/to/x.patch ... the given patches
  tools/selftest.py C07 --suite             additionally run the repository's own test suite
                                            against each mutant (is the mutant test-green?)
  tools/selftest.py --all [--suite]         every mutant of every property
  options: --tier quick|thorough  --seed N  --keep (keep the scratch copy)  --jobs N

Each patch (paths relative to the repository root, `git apply` format) is applied
to a scratch copy of /repo's working tree (src/, tests/) under $TMPDIR, the
property's check is run with VERIF_REPO_SRC pointing at the copy (evidence and
replays redirected into the scratch dir), and the copy is removed.  Expected
result: exit 1 (VIOLATION).  /repo itself is never touched.
"""
import argparse
import glob
import json
import os
import shutil
import subprocess
import sys
import tempfile
from concurrent.futures import ThreadPoolExecutor

ROOT = os.path.dirname(os.path.dirname(os.path.abspath(__file__)))
sys.path.insert(0, os.path.join(ROOT, "tools"))


def scratch_copy():
    d = tempfile.mkdtemp(prefix="rv-mutant-")
    for sub in ("src", "tests"):
        shutil.copytree(os.path.join("/repo", sub), os.path.join(d, sub),
                        ignore=shutil.ignore_patterns("__pycache__", "*.pyc"))
    for f in ("setup.cfg", "pyproject.toml", "list.json"):
        if os.path.exists(os.path.join("/repo", f)):
            shutil.copy(os.path.join("/repo", f), d)
    return d


def run_one(prop, patch, tier, seed, suite, keep=False):
    d = scratch_copy()
    out = {"prop": prop, "patch": os.path.relpath(patch, ROOT) if patch.startswith(ROOT) else patch}
    try:
        p = subprocess.run(["git", "apply", "--whitespace=nowarn", os.path.abspath(patch)], cwd=d,
                           capture_output=True, text=True)
        if p.returncode != 0:
            out["status"] = "PATCH-DOES-NOT-APPLY"
            out["detail"] = p.stderr[-500:]
            return out
        env = dict(os.environ)
        env.update(VERIF_REPO_SRC=os.path.join(d, "src"), VERIF_EVIDENCE_DIR=os.path.join(d, "ev"),
                   VERIF_REPLAY_DIR=os.path.join(d, "rp"), VERIF_SEED=str(seed))
        p = subprocess.run([sys.executable if sys.executable.startswith("/venv") else "/venv/bin/python",
                            "-m", "rv.run", prop, "--tier", tier], cwd=ROOT, env=env,
                           capture_output=True, text=True, timeout=3600)
        out["exit"] = p.returncode
        lines = p.stdout.strip().splitlines()
        out["kinds"] = sorted({l.split("kind=")[1].split(" case=")[0] for l in lines if l.startswith("  kind=")})[:8]
        out["summary"] = lines[-1] if lines else p.stderr[-300:]
        out["status"] = {0: "MISSED", 1: "caught", 2: "INCONCLUSIVE"}.get(p.returncode, f"exit{p.returncode}")
        if suite:
            import check_baseline

            missing = check_baseline.run(d, quiet=True)
            out["suite"] = "green" if not missing else f"killed-by-suite({len(missing)}: {missing[0]})"
    finally:
        if not keep:
            shutil.rmtree(d, ignore_errors=True)
        else:
            out["scratch"] = d
    return out


def main():
    ap = argparse.ArgumentParser()
    ap.add_argument("prop", nargs="?")
    ap.add_argument("patches", nargs="*")
    ap.add_argument("--all", action="store_true")
    ap.add_argument("--suite", action="store_true")
    ap.add_argument("--tier", default="quick")
    ap.add_argument("--seed", type=int, default=0)
    ap.add_argument("--keep", action="store_true")
    ap.add_argument("--jobs", type=int, default=3)
    ap.add_argument("--json", default=None, help="write the result table here")
    a = ap.parse_args()
    jobs = []
    if a.all:
        for p in sorted(glob.glob(os.path.join(ROOT, "mutants", "C*-*.patch"))):
            jobs.append((os.path.basename(p)[:3], p))
    else:
        patches = a.patches or sorted(glob.glob(os.path.join(ROOT, "mutants", f"{a.prop}-*.patch")))
        jobs = [(a.prop, p) for p in patches]
    if not jobs:
        print("no mutants")
        return 0
    with ThreadPoolExecutor(max_workers=a.jobs) as ex:
        results = list(ex.map(lambda j: run_one(j[0], j[1], a.tier, a.seed, a.suite, a.keep), jobs))
    bad = 0
    for r in results:
        print(f"{r['status']:<14} {r['prop']} {r['patch']}  suite={r.get('suite', '-')}  {r.get('kinds', '')}")
        if r["status"] != "caught":
            bad += 1
            print("     ", r.get("summary") or r.get("detail"))
    if a.json:
        json.dump(results, open(a.json, "w"), indent=1)
    print(f"{len(results) - bad}/{len(results)} mutants caught")
    return 1 if bad else 0


if __name__ == "__main__":
    sys.exit(main())
