"""Generators and an independent reference simulator for the estimation property (C15).

Everything here is plain data + numpy; library objects are only built in the
``build_*`` functions.

    opspec  = {"form": term|sum1|sum|unsimplified|empty, "terms": [(ops, coeff), ...]}
              ops = tuple of (qubit, letter) with letter in X Y Z  (() = constant term)
    circspec = {"n": register size, "ops": [(name, qubits, params), ...]}
    taskspec = {"kind": measured|constant|zeroshot, "op": opspec, "circ": circspec, "shots": int}
"""
import cmath
import math

import numpy as np

from ..ref import linalg as L

KINDS = ("measured", "constant", "zeroshot")

# ------------------------------------------------------------------ textbook gate table (reference)
_I2 = np.eye(2, dtype=complex)
_X = np.array([[0, 1], [1, 0]], dtype=complex)
_Y = np.array([[0, -1j], [1j, 0]], dtype=complex)
_Z = np.array([[1, 0], [0, -1]], dtype=complex)


def _rot(P, theta):
    """exp(-i theta/2 P) for an involutory P"""
    return math.cos(theta / 2) * np.eye(P.shape[0], dtype=complex) - 1j * math.sin(theta / 2) * P


REF_GATES = {
    "I": (1, lambda: _I2),
    "X": (1, lambda: _X),
    "Y": (1, lambda: _Y),
    "Z": (1, lambda: _Z),
    "H": (1, lambda: (_X + _Z) / math.sqrt(2)),
    "S": (1, lambda: np.diag([1, 1j]).astype(complex)),
    "T": (1, lambda: np.diag([1, cmath.exp(1j * math.pi / 4)]).astype(complex)),
    "RX": (1, lambda t: _rot(_X, t)),
    "RY": (1, lambda t: _rot(_Y, t)),
    "RZ": (1, lambda t: _rot(_Z, t)),
    "PHASE": (1, lambda t: np.diag([1, cmath.exp(1j * t)]).astype(complex)),
    "CNOT": (2, lambda: np.array([[1, 0, 0, 0], [0, 1, 0, 0], [0, 0, 0, 1], [0, 0, 1, 0]], dtype=complex)),
    "CZ": (2, lambda: np.diag([1, 1, 1, -1]).astype(complex)),
    "SWAP": (2, lambda: np.array([[1, 0, 0, 0], [0, 0, 1, 0], [0, 1, 0, 0], [0, 0, 0, 1]], dtype=complex)),
    "CPHASE": (2, lambda t: np.diag([1, 1, 1, cmath.exp(1j * t)]).astype(complex)),
    "XX": (2, lambda t: _rot(np.kron(_X, _X), t)),
    "YY": (2, lambda t: _rot(np.kron(_Y, _Y), t)),
    "ZZ": (2, lambda t: _rot(np.kron(_Z, _Z), t)),
}
FIXED_1Q = ["I", "X", "Y", "Z", "H", "S", "T"]
PARAM_1Q = ["RX", "RY", "RZ", "PHASE"]
FIXED_2Q = ["CNOT", "CZ", "SWAP"]
PARAM_2Q = ["CPHASE", "XX", "YY", "ZZ"]


def ref_state(n, ops):
    """state vector of |0..0> after ops = [(name, qubits, params)], qubit 0 = most
    significant bit (rv.ref.linalg convention)"""
    psi = np.zeros(2**n, dtype=complex)
    psi[0] = 1
    for name, qs, params in ops:
        _nq, f = REF_GATES[name]
        U = f(*[float(p) for p in params])
        psi = L.embed(U, tuple(qs), n) @ psi
    return psi


def ref_pauli_apply(ops, psi, n):
    """P|psi> for a Pauli string ops = ((q, letter), ...) by index arithmetic"""
    out = np.zeros_like(psi)
    for b in range(2**n):
        a = psi[b]
        if a == 0:
            continue
        tgt = b
        ph = 1 + 0j
        for q, o in ops:
            bit = (b >> (n - 1 - q)) & 1
            if o == "X":
                tgt ^= 1 << (n - 1 - q)
            elif o == "Y":
                tgt ^= 1 << (n - 1 - q)
                ph *= 1j if bit == 0 else -1j
            elif o == "Z":
                if bit:
                    ph = -ph
        out[tgt] += ph * a
    return out


def ref_expectation(terms, psi, n):
    """<psi| sum_k c_k P_k |psi>"""
    tot = 0j
    for ops, c in terms:
        tot += complex(c) * np.vdot(psi, ref_pauli_apply(ops, psi, n))
    return tot


# ------------------------------------------------------------------ coefficients
def coeff_for(task_index, term_index, scale, sign):
    """distinct for every (task, term): a misplaced result is visible.  Dyadic, so that
    sums and products with +-1 are exact."""
    return sign * scale * ((task_index + 1) + (term_index + 1) / 32.0)


# ------------------------------------------------------------------ operators
def rand_zterms(rng, width, i, scale, nterms=None, with_constant=None, duplicates=False):
    """Ising terms on qubits < width with distinct coefficients; constants mixed in"""
    nterms = nterms or rng.randint(1, 4)
    terms = []
    seen = set()
    for j in range(nterms):
        k = rng.randint(1, min(3, width))
        qs = tuple(sorted(rng.sample(range(width), k)))
        if qs in seen and not duplicates:
            continue
        seen.add(qs)
        terms.append((tuple((q, "Z") for q in qs), coeff_for(i, j, scale, rng.choice([1, -1]))))
    if not terms:
        terms.append((((0, "Z"),), coeff_for(i, 0, scale, 1)))
    if with_constant is None:
        with_constant = rng.random() < 0.4
    if with_constant:
        pos = rng.randint(0, len(terms))
        terms.insert(pos, ((), coeff_for(i, 20 + pos, scale, rng.choice([1, -1]))))
    return terms


def rand_constant_op(rng, i, scale, form=None):
    form = form or rng.choice(["term", "sum1", "unsimplified", "unsimplified", "empty", "zero"])
    if form == "empty":
        return {"form": "empty", "terms": []}
    if form == "zero":
        return {"form": "term", "terms": [((), 0.0)]}
    if form in ("term", "sum1"):
        return {"form": form, "terms": [((), coeff_for(i, 0, scale, rng.choice([1, -1])))]}
    k = rng.randint(2, 4)
    return {"form": "unsimplified", "terms": [((), coeff_for(i, j, scale, rng.choice([1, -1]))) for j in range(k)]}


def rand_ising_op(rng, width, i, scale):
    terms = rand_zterms(rng, width, i, scale, duplicates=rng.random() < 0.1)
    form = "term" if len(terms) == 1 and rng.random() < 0.5 else "sum"
    return {"form": form, "terms": terms}


def rand_pauli_op(rng, width, i, scale):
    """general (X/Y/Z) operator with real coefficients, constants mixed in"""
    terms = []
    for j in range(rng.randint(1, 5)):
        k = rng.randint(1, min(3, width))
        qs = sorted(rng.sample(range(width), k))
        terms.append((tuple((q, rng.choice("XYZ")) for q in qs), coeff_for(i, j, scale, rng.choice([1, -1]))))
    if rng.random() < 0.4:
        terms.insert(rng.randint(0, len(terms)), ((), coeff_for(i, 25, scale, rng.choice([1, -1]))))
    form = "term" if len(terms) == 1 and rng.random() < 0.5 else "sum"
    return {"form": form, "terms": terms}


def op_width(opspec):
    w = 0
    for ops, _c in opspec["terms"]:
        for q, _o in ops:
            w = max(w, q + 1)
    return w


def op_str(opspec):
    def t(ops, c):
        return f"{c:g}*" + ("".join(f"{o}{q}" for q, o in ops) if ops else "I")
    return f"{opspec['form']}<" + " + ".join(t(o, c) for o, c in opspec["terms"]) + ">"


def build_op(opspec):
    from orquestra.quantum.operators import PauliSum, PauliTerm

    def term(ops, c):
        return PauliTerm({q: o for q, o in ops}, c)

    form = opspec["form"]
    if form == "empty":
        return PauliSum()
    if form == "term":
        (ops, c), = opspec["terms"]
        return term(ops, c)
    return PauliSum([term(ops, c) for ops, c in opspec["terms"]])  # never simplified


# ------------------------------------------------------------------ circuits
def rand_basis_circ(rng, min_width):
    """X / I pattern circuit preparing a computational basis state"""
    n = max(1, min_width) + rng.choice([0, 0, 1, 2])
    ops = []
    for q in range(n):
        r = rng.random()
        if r < 0.45:
            ops.append(("X", (q,), ()))
        elif r < 0.6:
            ops.append(("I", (q,), ()))
        elif r < 0.7:
            ops += [("X", (q,), ()), ("X", (q,), ())]
        elif r < 0.78:
            ops += [("X", (q,), ()), ("I", (q,), ()), ("X", (q,), ()), ("X", (q,), ())]
    rng.shuffle(ops)
    return {"n": n, "ops": ops}


def basis_bits(circspec):
    bits = [0] * circspec["n"]
    for name, qs, _p in circspec["ops"]:
        if name == "X":
            bits[qs[0]] ^= 1
        elif name != "I":
            return None
    return tuple(bits)


def rand_circ(rng, min_width, max_ops=8, two_qubit=True):
    """random numeric circuit from the reference gate table"""
    n = max(1, min_width) + rng.choice([0, 0, 1])
    n = min(n, 5)
    ops = []
    for _ in range(rng.randint(1, max_ops)):
        r = rng.random()
        if n >= 2 and two_qubit and r < 0.35:
            name = rng.choice(FIXED_2Q + PARAM_2Q)
            qs = tuple(rng.sample(range(n), 2))
        else:
            name = rng.choice(FIXED_1Q + PARAM_1Q * 2)
            qs = (rng.randrange(n),)
        params = (round(rng.uniform(-3.1, 3.1), 4),) if name in PARAM_1Q + PARAM_2Q else ()
        ops.append((name, qs, params))
    return {"n": n, "ops": ops}


def circ_str(circspec):
    def g(name, qs, ps):
        return name + (f"({','.join(f'{p:g}' if not isinstance(p, str) else p for p in ps)})" if ps else "") + "".join(map(str, qs))
    return f"[{circspec['n']}q:" + " ".join(g(*o) for o in circspec["ops"]) + "]"


def build_circ(circspec, symbols=None):
    """``symbols``: name -> sympy.Symbol for string parameters (expressions are
    written 'a*sym+b' as tuples ('lin', a, name, b))"""
    from orquestra.quantum import circuits as C

    ops = []
    for name, qs, params in circspec["ops"]:
        g = getattr(C, name)
        if params:
            ps = []
            for p in params:
                if isinstance(p, tuple):
                    _tag, a, sname, b = p
                    ps.append(a * symbols[sname] + b)
                else:
                    ps.append(float(p))
            g = g(*ps)
        ops.append(g(*qs))
    return C.Circuit(ops, n_qubits=circspec["n"])


# ------------------------------------------------------------------ tasks
def make_task(rng, kind, i, scale, basis=True, const_form=None):
    if kind == "constant":
        op = rand_constant_op(rng, i, scale, const_form)
        circ = rand_basis_circ(rng, rng.randint(1, 3))
        shots = rng.choice([0, 1, 7, rng.randint(1, 50), rng.choice([49, 98, 103, 107, 161, 187, 196, 197])])
    else:
        width = rng.randint(1, 4)
        op = rand_ising_op(rng, width, i, scale)
        w = op_width(op)
        circ = rand_basis_circ(rng, w) if basis else rand_circ(rng, w)
        shots = 0 if kind == "zeroshot" else rng.choice([1, 1, 2, rng.randint(1, 50), rng.choice([49, 98, 103, 107, 161, 187, 196, 197, rng.randint(51, 300)])])
    return {"kind": kind, "op": op, "circ": circ, "shots": shots}


def share_str(t):
    """'@c3' = the circuit OBJECT of task 3, '@o3' its operator object, '@t3' the task object
    itself, '~t3' an equal but separately built copy of task 3"""
    sh = t.get("share") or {}
    return "".join({"circ": "@c", "op": "@o", "task": "@t", "copy": "~t"}[k] + str(sh[k]) for k in ("circ", "op", "task", "copy") if k in sh)


def task_str(t):
    return f"{t['kind'][0].upper()}({op_str(t['op'])},{circ_str(t['circ'])},{t['shots']}){share_str(t)}"


def build_task(t, symbols=None):
    from orquestra.quantum.api.estimation import EstimationTask

    return EstimationTask(build_op(t["op"]), build_circ(t["circ"], symbols), t["shots"])


# ------------------------------------------------------------------ aliasing between the tasks of one list
ALIAS_MODES = ("circ", "op", "task", "copy", "mixed")


def _groups(rng, pool, max_groups):
    """disjoint groups (>= 2 members each, ascending) drawn from the indices in ``pool``"""
    pool = list(pool)
    rng.shuffle(pool)
    groups = []
    if len(pool) >= 2 and rng.random() < 0.25:
        return [sorted(pool)]  # one object for the whole list (parameter scan / one ansatz, many operators)
    for _ in range(rng.randint(1, max_groups)):
        if len(pool) < 2:
            break
        k = rng.randint(2, min(5, len(pool)))
        groups.append(sorted(pool[:k]))
        pool = pool[k:]
    return groups


def alias_specs(rng, specs, mode=None):
    """Make tasks of one list share pieces, the way real task lists do (one ansatz circuit in
    many tasks, one Hamiltonian on many circuits, ``[task] * k``, a task entered twice):

        circ : the members of a group hold the SAME circuit object (that of the widest member)
        op   : ... the same operator object (that of the narrowest member; constant and
               non-constant operators are never merged, so the task kinds stay what they are)
        task : ... are one and the same EstimationTask object
        copy : ... are equal tasks built separately (equal, not identical)
        mixed: circ and op groups drawn independently (they may overlap), then task / copy groups
               among the tasks left untouched

    Specs are changed in place (``t['share']`` says where each shared piece comes from;
    ``t['circ']`` / ``t['op']`` / ... are replaced by the donor's) and must then be built with
    ``build_tasks``.  Every operator stays no wider than its circuit.  Returns the mode."""
    mode = mode or rng.choice(ALIAS_MODES)
    n = len(specs)
    if n < 2:
        return "none"
    touched = set()
    mg = max(1, n // 3)

    def share_circ():
        for g in _groups(rng, range(n), mg):
            donor = max(g, key=lambda i: (specs[i]["circ"]["n"], -i))
            for i in g:
                if i != donor:
                    specs[i]["circ"] = specs[donor]["circ"]
                    specs[i].setdefault("share", {})["circ"] = donor
            touched.update(g)

    def share_op():
        for g in _groups(rng, range(n), mg):
            const = specs[g[0]]["kind"] == "constant"
            g = [i for i in g if (specs[i]["kind"] == "constant") == const]
            if len(g) < 2:
                continue
            donor = min(g, key=lambda i: (op_width(specs[i]["op"]), i))
            for i in g:
                if i != donor:
                    specs[i]["op"] = specs[donor]["op"]
                    specs[i].setdefault("share", {})["op"] = donor
            touched.update(g)

    def share_task(key):
        for g in _groups(rng, [i for i in range(n) if i not in touched], mg):
            donor = g[0]
            for i in g[1:]:
                for f in ("kind", "op", "circ", "shots"):
                    specs[i][f] = specs[donor][f]
                specs[i]["share"] = {key: donor}
            touched.update(g)

    if mode in ("circ", "mixed"):
        share_circ()
    if mode in ("op", "mixed"):
        share_op()
    if mode == "mixed":
        share_task(rng.choice(["task", "copy"]))
    elif mode in ("task", "copy"):
        share_task(mode)
    return mode


def build_tasks(specs, symbols=None):
    """library tasks for a spec list, honouring the sharing that ``alias_specs`` wrote down"""
    from orquestra.quantum.api.estimation import EstimationTask

    n = len(specs)
    shares = [t.get("share") or {} for t in specs]
    circs = [None if ("circ" in sh or "task" in sh) else build_circ(t["circ"], symbols) for t, sh in zip(specs, shares)]
    ops = [None if ("op" in sh or "task" in sh) else build_op(t["op"]) for t, sh in zip(specs, shares)]
    tasks = [None] * n
    for i, (t, sh) in enumerate(zip(specs, shares)):
        if "task" not in sh:
            tasks[i] = EstimationTask(ops[sh.get("op", i)], circs[sh.get("circ", i)], t["shots"])
    for i, sh in enumerate(shares):
        if "task" in sh:
            tasks[i] = tasks[sh["task"]]
    return tasks


# ------------------------------------------------------------------ a recording runner (protocol only)
class RecordingRunner:
    """CircuitRunner-protocol object that forwards batches to an inner runner (asking for
    ``extra`` more shots than requested) and records what it was asked and what it delivered"""

    def __init__(self, inner, extra=0):
        self.inner = inner
        self.extra = extra
        self.batches = []

    def run_batch_and_measure(self, circuits_batch, n_samples):
        circuits = list(circuits_batch)
        ns = [n_samples] * len(circuits) if isinstance(n_samples, int) else list(n_samples)
        res = self.inner.run_batch_and_measure(circuits, [n + self.extra for n in ns])
        self.batches.append({"circuits": circuits, "shots": ns, "results": list(res)})
        return res

    def run_and_measure(self, circuit, n_samples):
        return self.run_batch_and_measure([circuit], [n_samples])[0]

    def get_exact_expectation_values(self, circuit, operator):
        return self.inner.get_exact_expectation_values(circuit, operator)

    @property
    def n_circuits_executed(self):
        return self.inner.n_circuits_executed

    @property
    def n_jobs_executed(self):
        return self.inner.n_jobs_executed
