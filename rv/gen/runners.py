"""Harness runners and circuit specs for the runner-history property (C14).

Circuit *specs* are plain data (no library objects) so that the oracle can
reason about them without the library:

    spec = {"n": register size, "ops": [(name, qubits, param-or-None), ...]}

``MP`` is a MultiPhaseOperation (the one non-gate operation that can be
simulated); every other name is a built-in gate.

The runner classes subclass the library's base classes and therefore are built
lazily (``classes()``), after rv.boot pinned the source tree.
"""
import math

CLASSICAL_1Q = ["X", "Y", "Z", "I", "S", "T"]
CLASSICAL_2Q = ["CNOT", "CZ", "SWAP"]
DIAG_PARAM = ["RZ", "PHASE"]
QUANTUM_1Q = ["H", "RX", "RY"]
ALL_NAMES = CLASSICAL_1Q + CLASSICAL_2Q + DIAG_PARAM + QUANTUM_1Q + ["MP"]

NATIVE_SETS = {
    "none": frozenset(),
    "x-cnot": frozenset({"X", "CNOT"}),
    "rot": frozenset({"H", "RX", "RY", "RZ", "PHASE"}),
    "1q": frozenset(CLASSICAL_1Q + DIAG_PARAM + QUANTUM_1Q),
    "no-x": frozenset(n for n in ALL_NAMES if n != "X"),
    "all": frozenset(ALL_NAMES),
}


# ------------------------------------------------------------------ specs
def rand_spec(rng, n=None, allow_mp=True, classical=None, max_ops=7, min_ops=1):
    """random circuit spec on n (1..4) qubits; ``classical`` True = deterministic
    measurement outcome (only bit-flip / permutation / diagonal operations)"""
    n = rng.randint(1, 4) if n is None else n
    if classical is None:
        classical = rng.random() < 0.6
    names = list(CLASSICAL_1Q) * 2 + DIAG_PARAM + ["X", "X"]
    if n >= 2:
        names += CLASSICAL_2Q * 2
    if allow_mp:
        names += ["MP"]
    if not classical:
        names += QUANTUM_1Q * 3
    ops = []
    for _ in range(rng.randint(min_ops, max_ops)):
        name = rng.choice(names)
        if name == "MP":
            ops.append(("MP", tuple(range(n)), tuple(round(rng.uniform(-3, 3), 3) for _ in range(2**n))))
        elif name in CLASSICAL_2Q:
            a, b = rng.sample(range(n), 2)
            ops.append((name, (a, b), None))
        elif name in DIAG_PARAM or name in ("RX", "RY"):
            ops.append((name, (rng.randrange(n),), round(rng.uniform(-3, 3), 3)))
        else:
            ops.append((name, (rng.randrange(n),), None))
    return {"n": n, "ops": ops}


def structured_spec(rng, native, n=None, allow_mp=True):
    """spec whose native/non-native runs are controlled: between 1 and 5 runs of
    1-3 operations each, alternating (or not) - exercises the segment counting"""
    n = rng.randint(2, 4) if n is None else n
    pool = [x for x in ALL_NAMES if (allow_mp or x != "MP") and x not in ("H", "RX", "RY")]
    nat = [x for x in pool if x in native]
    non = [x for x in pool if x not in native]
    ops = []
    flag = rng.random() < 0.5
    for _ in range(rng.randint(1, 5)):
        src = nat if flag else non
        if not src:
            src = non if flag else nat
        for _ in range(rng.randint(1, 3)):
            name = rng.choice(src)
            if name == "MP":
                ops.append(("MP", tuple(range(n)), tuple(round(rng.uniform(-3, 3), 3) for _ in range(2**n))))
            elif name in CLASSICAL_2Q:
                a, b = rng.sample(range(n), 2)
                ops.append((name, (a, b), None))
            elif name in DIAG_PARAM:
                ops.append((name, (rng.randrange(n),), round(rng.uniform(-3, 3), 3)))
            else:
                ops.append((name, (rng.randrange(n),), None))
        flag = not flag
    return {"n": n, "ops": ops}


def spec_str(spec):
    parts = []
    for name, qs, p in spec["ops"]:
        if name == "MP":
            parts.append("MP")
        elif p is None:
            parts.append(f"{name}{''.join(map(str, qs))}")
        else:
            parts.append(f"{name}({p}){''.join(map(str, qs))}")
    return f"[{spec['n']}q:{' '.join(parts)}]"


def used_width(spec):
    w = 0
    for _name, qs, _p in spec["ops"]:
        w = max(w, max(qs) + 1)
    return w


def is_classical(spec):
    return all(name in CLASSICAL_1Q or name in CLASSICAL_2Q or name in DIAG_PARAM or name == "MP"
               for name, _q, _p in spec["ops"])


def classical_outcome(spec):
    """the one bit tuple a measurement of |0..0> through a classical spec gives
    (plain bit manipulation), or None if the spec is not classical"""
    if not is_classical(spec):
        return None
    bits = [0] * spec["n"]
    for name, qs, _p in spec["ops"]:
        if name in ("X", "Y"):
            bits[qs[0]] ^= 1
        elif name == "CNOT":
            bits[qs[1]] ^= bits[qs[0]]
        elif name == "SWAP":
            bits[qs[0]], bits[qs[1]] = bits[qs[1]], bits[qs[0]]
    return tuple(bits)


def echo_pattern(spec):
    """what EchoRunner answers: bit q = parity of the number of gate operations touching q"""
    bits = [0] * spec["n"]
    for name, qs, _p in spec["ops"]:
        if name == "MP":
            continue
        for q in qs:
            bits[q] ^= 1
    return tuple(bits)


def native_flags(spec, native):
    """``native`` = set of names, or 'default' (every gate operation, not MP), or 'all'"""
    if native == "all":
        return [True] * len(spec["ops"])
    if native == "default":
        return [name != "MP" for name, _q, _p in spec["ops"]]
    return [name in native for name, _q, _p in spec["ops"]]


def build_circuit(spec):
    from orquestra.quantum import circuits as C

    ops = []
    for name, qs, p in spec["ops"]:
        if name == "MP":
            ops.append(C.MultiPhaseOperation(tuple(float(x) for x in p)))
        elif p is None:
            ops.append(getattr(C, name)(*qs))
        else:
            ops.append(getattr(C, name)(float(p))(*qs))
    return C.Circuit(ops, n_qubits=spec["n"])


def op_name(op):
    g = getattr(op, "gate", None)
    if g is not None:
        return g.name
    return "MP" if type(op).__name__ == "MultiPhaseOperation" else type(op).__name__


# ------------------------------------------------------------------ runners
_CLASSES = None


class DeviceFailure(RuntimeError):
    """raised by a harness runner that was told to fail (valid request, broken device)"""


def _log(runner):
    log = getattr(runner, "_rv_log", None)
    if log is None:
        log = []
        runner._rv_log = log
    return log


def classes():
    """(EchoRunner, PartialNativeSim, DefaultPredicateSim) - built once per process"""
    global _CLASSES
    if _CLASSES is not None:
        return _CLASSES
    from orquestra.quantum.api.circuit_runner import BaseCircuitRunner
    from orquestra.quantum.api.wavefunction_simulator import BaseWavefunctionSimulator
    from orquestra.quantum.measurements import Measurements

    class EchoRunner(BaseCircuitRunner):
        """minimal runner on the base class: answers n + extra deterministic shots
        (bit q = parity of the operations touching q) and logs every execution"""

        def __init__(self, extra=0):
            super().__init__()
            self.extra = extra
            self.fail_in = None  # fail at the k-th execution from now (1-based)

        def _run_and_measure(self, circuit, n_samples):
            log = _log(self)
            seen = (self.n_circuits_executed, self.n_jobs_executed)
            if self.fail_in is not None:
                self.fail_in -= 1
                if self.fail_in == 0:
                    self.fail_in = None
                    log.append({"kind": "failed", "circuit": circuit, "n": n_samples, "seen": seen})
                    raise DeviceFailure("device failure (requested by the harness)")
            bits = [0] * circuit.n_qubits
            for op in circuit.operations:
                if type(op).__name__ == "MultiPhaseOperation":
                    continue
                for q in op.qubit_indices:
                    bits[q] ^= 1
            result = Measurements([tuple(bits)] * (n_samples + self.extra))
            log.append({"kind": "run", "circuit": circuit, "n": n_samples, "seen": seen, "result": result})
            return result

    class PartialNativeSim(BaseWavefunctionSimulator):
        """simulator whose native set is a set of gate names"""

        def __init__(self, native, seed=None):
            super().__init__(seed=seed)
            self.native = frozenset(native)

        def is_natively_supported(self, operation):
            return op_name(operation) in self.native

        def _get_wavefunction_from_native_circuit(self, circuit, initial_state):
            _log(self).append({"kind": "native", "circuit": circuit,
                               "names": [op_name(o) for o in circuit.operations]})
            state = initial_state
            for operation in circuit.operations:
                state = operation.apply(state)
            return state

    class DefaultPredicateSim(BaseWavefunctionSimulator):
        """simulator that keeps the base class's predicate (gate operations are native)"""

        def _get_wavefunction_from_native_circuit(self, circuit, initial_state):
            _log(self).append({"kind": "native", "circuit": circuit,
                               "names": [op_name(o) for o in circuit.operations]})
            state = initial_state
            for operation in circuit.operations:
                state = operation.apply(state)
            return state

    _CLASSES = (EchoRunner, PartialNativeSim, DefaultPredicateSim)
    return _CLASSES


def native_of(runner):
    """the native-flag rule of a runner under test, as data for the model:
    None (not a simulator) | 'all' | 'default' | frozenset of names"""
    name = type(runner).__name__
    if name == "SymbolicSimulator":
        return "all"
    if name == "PartialNativeSim":
        return runner.native
    if name == "DefaultPredicateSim":
        return "default"
    return None


def flags_of_circuit(circuit, native):
    names = [op_name(o) for o in circuit.operations]
    if native == "all":
        return [True] * len(names)
    if native == "default":
        return [type(o).__name__ == "GateOperation" for o in circuit.operations]
    return [nm in native for nm in names]
