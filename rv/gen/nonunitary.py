"""Gates whose matrices are NOT unitary.

The library accepts any 2^n x 2^n matrix as a gate (CustomGateDefinition, MatrixFactoryGate with any factory),
and the modifier properties are stated for any gate.  Every built-in gate and every custom gate of
rv.gen.circuits is unitary, so an implementation that silently uses an identity valid only for unitary /
normal / diagonalisable / invertible matrices (adjoint = inverse, eigen-decomposition with V^dagger instead of
V^-1, roots through a spectral decomposition, normalisation by the determinant ...) is right on all of them.
This module supplies the missing input class, flavour by flavour:

  jordan       defective: Jordan blocks lambda*I + N (not diagonalisable), lambda any small Gaussian rational
  triangular   upper / lower triangular, not normal, invertible
  diag         diagonal, entries off the unit circle (normal, not unitary)
  scaled_perm  c * phase-permutation, |c| != 1 (also |c| = 1 +- 1 %): U^dagger U = |c|^2 I
  scaled_rot   c * real rotation(s), float entries, |c| != 1
  posdef       hermitian positive definite (self-adjoint, not an involution)
  hermitian    hermitian indefinite, not an involution
  dense        random complex, singular values in [0.5, 2] (float entries)
  singular     projector / nilpotent / rank one / zero row: no inverse exists

and route by route (how the gate object is made): numeric CustomGateDefinition; CustomGateDefinition whose
matrix has symbols, bound at call time to int / float / complex parameters; a bare MatrixFactoryGate with its own
factory (flagged is_hermitian only when its matrix is hermitian).
Entries are small exact Gaussian rationals wherever possible: the pinned sympy stays fast and exact on them.
"""
import numpy as np
import sympy

FLAVORS = ["jordan", "triangular", "diag", "scaled_perm", "scaled_rot", "posdef", "hermitian", "dense", "singular"]
# flavours on which the pinned sympy affords a Jordan-form operation followed by an inverse (see C07._may_append)
CHEAP = {"jordan", "triangular", "diag", "singular"}
DENSE = {"scaled_rot", "posdef", "hermitian", "dense"}
ROUTES = ["custom", "custom_param", "factory"]
PARAM_SYMBOLS = ("nu_a", "nu_b")


def _rat(rng, nonzero=True):
    nums = [-3, -2, -1, 1, 2, 3] if nonzero else [-2, -1, 0, 0, 1, 2]
    return sympy.Rational(rng.choice(nums), rng.choice([1, 1, 1, 2, 3]))


def nice_number(rng, nonzero=True):
    """small Gaussian rational (exact sympy number); real, imaginary or complex"""
    r = rng.random()
    if r < 0.4:
        return _rat(rng, nonzero)
    if r < 0.6:
        return _rat(rng, nonzero) * sympy.I
    return _rat(rng, nonzero) + _rat(rng, nonzero) * sympy.I


def _perm(rng, d):
    p = list(range(d))
    rng.shuffle(p)
    return p


def _matrix(rng, nprng, d, flavor):
    """sympy matrix of the flavour (exact entries unless the flavour is a float one)"""
    Z = sympy.zeros(d, d)
    if flavor == "jordan":
        # block sizes: one block, or two, each with its own eigenvalue
        sizes = [d] if rng.random() < 0.5 else ([d // 2, d - d // 2] if d > 2 else [2])
        if d == 4 and rng.random() < 0.3:
            sizes = [3, 1]
        M = Z.copy()
        at = 0
        for s in sizes:
            lam = nice_number(rng)
            off = rng.choice([1, 1, 2, sympy.Rational(1, 2), sympy.I])
            for i in range(s):
                M[at + i, at + i] = lam
                if i + 1 < s:
                    M[at + i, at + i + 1] = off
            at += s
        return M.T if rng.random() < 0.5 else M
    if flavor == "triangular":
        M = Z.copy()
        for i in range(d):
            M[i, i] = nice_number(rng)
            for j in range(i + 1, d):
                M[i, j] = 0 if (d > 2 and rng.random() < 0.4) else nice_number(rng, nonzero=False)
        if all(M[i, j] == 0 for i in range(d) for j in range(i + 1, d)):
            M[0, d - 1] = 1
        return M.T if rng.random() < 0.5 else M
    if flavor == "diag":
        M = Z.copy()
        for i in range(d):
            M[i, i] = nice_number(rng)
        if all(abs(complex(M[i, i])) == 1 for i in range(d)):
            M[d - 1, d - 1] = 2 * M[d - 1, d - 1]
        return M
    if flavor == "scaled_perm":
        c = rng.choice([2, sympy.Rational(1, 2), 1 + sympy.I, sympy.Rational(3, 2) * sympy.I, -3,
                        sympy.Rational(101, 100), sympy.Rational(99, 100) * sympy.I])
        M = Z.copy()
        for i, j in enumerate(_perm(rng, d)):
            M[i, j] = c * rng.choice([1, -1, sympy.I, -sympy.I])
        return M
    if flavor == "scaled_rot":
        c = complex(rng.choice([0.5, 2.0, 1.5, 1.01, 0.99]), 0) * np.exp(1j * rng.choice([0.0, 0.0, rng.uniform(-3, 3)]))
        U = np.eye(1)
        while U.shape[0] < d:
            t = rng.uniform(-3, 3)
            U = np.kron(U, np.array([[np.cos(t), -np.sin(t)], [np.sin(t), np.cos(t)]]))
        return _float_matrix(c * U)
    if flavor in ("posdef", "hermitian"):
        for _ in range(20):
            A = sympy.Matrix(d, d, lambda i, j: rng.choice([-1, 0, 1]) + rng.choice([-1, 0, 0, 1]) * sympy.I)
            M = A * A.H + sympy.eye(d) if flavor == "posdef" else A + A.H + sympy.diag(*[rng.choice([-1, 0, 1, 2]) for _ in range(d)])
            N = np.array(M.tolist(), dtype=complex)
            if abs(np.linalg.det(N)) > 0.5 and np.abs(N @ N.conj().T - np.eye(d)).max() > 0.1:
                return M
        return sympy.Matrix(d, d, lambda i, j: (2 + i) if i == j else (1 if abs(i - j) == 1 else 0))
    if flavor == "dense":
        X = nprng.normal(size=(d, d)) + 1j * nprng.normal(size=(d, d))
        U, _, Vh = np.linalg.svd(X)
        s = nprng.uniform(0.5, 2.0, size=d)
        s[0], s[-1] = 2.0, 0.5
        return _float_matrix(U @ np.diag(s) @ Vh)
    if flavor == "singular":
        kind = rng.choice(["projector", "nilpotent", "rank1", "zerorow"])
        M = Z.copy()
        if kind == "projector":
            k = rng.randint(1, d - 1)
            for i in rng.sample(range(d), k):
                M[i, i] = rng.choice([1, 1, 2, sympy.I])
        elif kind == "nilpotent":
            for i in range(d - 1):
                M[i, i + 1] = rng.choice([1, 2, sympy.I])
        elif kind == "rank1":
            u = [nice_number(rng) for _ in range(d)]
            v = [nice_number(rng) for _ in range(d)]
            M = sympy.Matrix(d, d, lambda i, j: sympy.expand(u[i] * v[j]))
        else:
            M = _matrix(rng, nprng, d, "triangular")
            r = rng.randrange(d)
            for j in range(d):
                M[r, j] = 0
        return M
    raise ValueError(flavor)


def _float_matrix(N):
    d = N.shape[0]
    return sympy.Matrix([[complex(round(N[i, j].real, 12), round(N[i, j].imag, 12)) for j in range(d)] for i in range(d)])


def _py_number(e):
    """exact sympy number -> Python int / float / complex (never a numpy scalar)"""
    e = sympy.sympify(e)
    if e.is_Integer:
        return int(e)
    if e.is_real:
        return float(e)
    c = complex(e)
    return c


class _Factory:
    """matrix factory of a bare MatrixFactoryGate: the matrix with the listed entries taken from the parameters"""

    def __init__(self, M, slots):
        self.M = M
        self.slots = tuple(slots)

    def __call__(self, *params):
        M = self.M.copy()
        for (i, j), p in zip(self.slots, params):
            M[i, j] = p
        return M

    def __eq__(self, other):
        return type(other) is _Factory and self.slots == other.slots and self.M == other.M

    def __hash__(self):
        return hash((self.slots, self.M.shape))


def nonunitary_gate(rng, nprng, nq, name, flavor=None, route=None):
    """-> (gate, description, info) with info = {flavor, route, cheap, dense, hermitian, invertible}"""
    from orquestra.quantum.circuits import CustomGateDefinition, MatrixFactoryGate

    d = 2**nq
    flavor = flavor or rng.choice(FLAVORS)
    M = _matrix(rng, nprng, d, flavor)
    hermitian = bool(M == M.H)
    # a hermitian matrix is the only way to reach the "flagged hermitian: dagger is the gate itself" branch
    route = route or rng.choice(ROUTES + (["factory", "factory"] if hermitian else []))
    exact = flavor not in ("scaled_rot", "dense")
    # entries that become parameters (exact flavours only: a parameter is an int / float / complex)
    slots = []
    if route in ("custom_param", "factory") and exact:
        nz = [(i, j) for i in range(d) for j in range(d) if M[i, j] != 0]
        if hermitian:
            nz = [(i, j) for (i, j) in nz if i == j]  # keeps the matrix hermitian for every real parameter
        rng.shuffle(nz)
        slots = sorted(nz[: rng.randint(1, 2)])
    if route == "custom_param" and not slots:
        route = "custom"
    params = tuple(_py_number(M[i, j]) for (i, j) in slots)
    if route == "custom":
        gate = CustomGateDefinition(gate_name=name, matrix=M, params_ordering=())()
    elif route == "custom_param":
        syms = tuple(sympy.Symbol(s) for s in PARAM_SYMBOLS[: len(slots)])
        Ms = M.copy()
        for s, (i, j) in zip(syms, slots):
            Ms[i, j] = s
        gate = CustomGateDefinition(gate_name=name, matrix=Ms, params_ordering=syms)(*params)
    else:
        flag = hermitian and rng.random() < 0.7
        gate = MatrixFactoryGate(name, _Factory(M, slots), params, nq, flag)
        route = "factory_hermitian" if flag else "factory"
    entries = ",".join(str(e) for e in M) if exact else ",".join(f"{complex(e):.4g}" for e in M)
    desc = f"nonunitary-{flavor}{nq}q/{route}[{entries}]" + (f"params{params}" if params else "")
    info = {"flavor": flavor, "route": route, "cheap": flavor in CHEAP, "dense": flavor in DENSE,
            "hermitian": hermitian, "invertible": flavor != "singular"}
    return gate, desc, info
