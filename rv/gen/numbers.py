"""Seeded generators of complex-valued gate parameters (serialisation workload C05).

The text format writes a parameter with ``str()``: a Python ``complex`` is the one
Python number whose text is not a plain literal (``(0.7071067811865476-1e-09j)``,
``1.5j``, ``(-0+2j)``), and a sympy complex number is a sum ``a + b*I``.  Real and
imaginary parts come from every float family that a printer can get wrong: short
decimals, 17-digit values, decimal exponents of both signs, integers stored as floats,
zero and negative zero.  Python numbers and sympy objects only (no numpy scalars:
environment, DESIGN.md section 2).
"""
import math

import sympy

COMPLEX_KINDS = ["full", "full", "unit", "imag", "short", "scaled", "one_long", "sympy_float", "sympy_exact"]


def rand_part(rng, kind=None):
    """one real float: kind long (needs 16-17 digits) / short / scaled (decimal exponent) / whole / zero"""
    kind = kind or rng.choice(["long", "long", "long", "short", "scaled", "whole", "zero"])
    if kind == "long":
        return rng.uniform(-3, 3)
    if kind == "short":
        return round(rng.uniform(-3, 3), rng.choice([1, 2, 3, 6]))
    if kind == "scaled":  # exponent notation on both sides of the switch-over of repr (1e-5, 1e16)
        return rng.uniform(-1, 1) * 10.0 ** rng.choice([-9, -7, -5, -4, 3, 5])
    if kind == "whole":
        return float(rng.randint(-9, 9))
    return rng.choice([0.0, -0.0])


def rand_complex(rng, kind=None):
    """a complex gate parameter: Python ``complex`` (most kinds) or a symbol-free sympy complex number.
    Magnitudes stay below 1e6 (larger angles leave nothing to compare numerically)."""
    kind = kind or rng.choice(COMPLEX_KINDS)
    if kind == "full":
        return complex(rng.uniform(-3, 3), rng.uniform(-3, 3))
    if kind == "unit":  # e^{it}: what a user computes with cmath / numpy and converts
        t = rng.choice([math.pi / 4, math.pi / 3, rng.uniform(-math.pi, math.pi)])
        return complex(math.cos(t), math.sin(t))
    if kind == "imag":  # printed without parentheses
        return complex(0.0, rand_part(rng, rng.choice(["long", "short", "scaled"])))
    if kind == "short":
        return complex(rng.choice([-2, -1, 0, 1, 2, 0.5, -0.25]), rng.choice([-3, -1, 1, 2, 3, 0.5, -0.25]))
    if kind == "scaled":
        return complex(rand_part(rng, rng.choice(["scaled", "long"])), rand_part(rng, "scaled"))
    if kind == "one_long":
        a, b = rand_part(rng, rng.choice(["short", "whole", "zero"])), rand_part(rng, "long")
        return complex(a, b) if rng.random() < 0.5 else complex(b, a if a != 0 else 1.0)
    if kind == "sympy_float":
        re = sympy.Float(rng.uniform(-3, 3)) if rng.random() < 0.5 else sympy.Float(round(rng.uniform(-3, 3), 3))
        im = sympy.Float(rng.uniform(-3, 3)) if rng.random() < 0.5 else sympy.Float(round(rng.uniform(-3, 3), 2))
        return re + im * sympy.I
    if kind == "sympy_exact":
        return rng.choice([
            sympy.Rational(rng.randint(-5, 5), rng.choice([2, 3, 7])) + sympy.Rational(rng.randint(1, 5), rng.choice([1, 2, 3])) * sympy.I,
            sympy.exp(sympy.I * sympy.pi / rng.choice([3, 4, 5, 7])),
            sympy.I * rng.choice([1, -1, 2, sympy.Rational(1, 2)]),
            (1 + sympy.I) / sympy.sqrt(2),
            sympy.pi / rng.choice([2, 3]) + sympy.I,
        ])
    raise ValueError(kind)


def rand_complex_expr(rng, symbols):
    """a symbolic parameter with a complex coefficient (Python complex or sympy I), e.g. (-1+2j)*theta*gamma"""
    s = rng.choice(symbols)
    z = rand_complex(rng, rng.choice(["full", "short", "short", "one_long", "sympy_exact"]))
    r = rng.random()
    if r < 0.4:
        return z * s
    if r < 0.6:
        return z * s * rng.choice(symbols)
    if r < 0.8:
        return s + z
    return sympy.I * s + rng.choice([0, 1, sympy.Rational(1, 2), 0.5])
