"""Seeded generators for C13: LONG inputs and DEGENERATE remainders.

Two things the short generators of ``sampling.py`` never produce:

 * lists of 100 ... 5000 weights / circuits / requests / copies / outcomes (lengths around powers of two and
   round numbers: 127/128/129, 255/256/257, 511/512/513, 999/1000/1001, 1023/1024/1025, 2047/2048/2049,
   4095/4096/4097, 5000) - an implementation may switch algorithm by size (partial sort, vectorised path,
   chunked reduction), so every function has to be asked on both sides of such a switch;
 * inputs whose arithmetic leaves NOTHING over, exactly one unit over, or all but one: every proportional share
   already an integer, every request an exact multiple of the maximum, the number of circuits an exact multiple
   of the batch size (and one more / one less), all remainders tied.

Content is structured (uniform, short cycles of small integers, two levels, ramps) so that the intended answer
is known by construction and a case stays cheap; a share of random content is mixed in.  Every generator returns
``(tag, ...)`` where ``tag`` is a short canonical description of HOW the input was built (long lists are not
spelled out in case descriptions).  Pure Python; nothing from the library is imported.
"""
import zlib

BOUNDARY_LENGTHS = [100, 127, 128, 129, 255, 256, 257, 500, 511, 512, 513, 999, 1000, 1001, 1023, 1024, 1025,
                    2000, 2047, 2048, 2049, 4095, 4096, 4097, 5000]
MEDIUM_LENGTHS = [2, 3, 4, 7, 8, 9, 10, 15, 16, 17, 20, 31, 32, 33, 50, 63, 64, 65, 99]


def long_length(rng, cap=5000):
    """100 ... cap: nearly half of the time a boundary length, otherwise random (biased towards the cheap end)"""
    r = rng.random()
    if r < 0.45:
        pool = [x for x in BOUNDARY_LENGTHS if x <= cap]
        return rng.choice(pool + 2 * [x for x in pool if x <= 1025])   # the cheaper ones three times as often
    if r < 0.9:
        return rng.randint(100, min(cap, 700))
    return rng.randint(100, cap)


VERY_LONG = [8191, 8192, 8193, 9999, 10000, 10001, 16383, 16384, 16385, 20000]


def very_long_length(rng):
    """8191 ... 20000 (thorough tier, cheap kinds only)"""
    return rng.choice(VERY_LONG + [rng.randint(5001, 20000)])


def medium_length(rng):
    """1 ... 99, mostly around powers of two"""
    return rng.choice(MEDIUM_LENGTHS + [1, rng.randint(1, 12), rng.randint(1, 99)])


def digest(seq):
    return format(zlib.crc32(repr(seq).encode()), "08x")


def brief(seq, head=8, tail=3):
    """long sequences abbreviated for messages"""
    seq = list(seq)
    if len(seq) <= 40:
        return repr(seq)
    return f"<{len(seq)} items {seq[:head]!r}..{seq[-tail:]!r} crc={digest(seq)}>"


# ----------------------------------------------------------------------------- integer multiples m_1..m_L
def multiples(rng, L):
    """-> (tag, [m_1..m_L]) positive small integers with structure"""
    style = rng.choice(["uniform", "uniform", "cycle", "cycle", "two-level", "ramp", "random", "one-heavy"])
    if style == "uniform":
        a = rng.choice([1, 1, 1, 2, 3, 5])
        return f"uniform({a})", [a] * L
    if style == "cycle":
        p = [rng.randint(1, 9) for _ in range(rng.randint(2, 5))]
        return f"cycle{p}", [p[i % len(p)] for i in range(L)]
    if style == "two-level":
        a, b = rng.sample([1, 2, 3, 4, 5, 7, 10], 2)
        j = rng.choice([1, 1, 2, max(1, L // 2), max(1, L - 1)])
        j = min(j, L)
        at = rng.choice(["head", "tail", "spread"])
        ms = [a] * L
        idx = range(j) if at == "head" else range(L - j, L) if at == "tail" else rng.sample(range(L), j)
        for i in idx:
            ms[i] = b
        return f"two-level({a},{b}x{j}@{at}:{digest(ms)})", ms
    if style == "ramp":
        up = rng.random() < 0.5
        ms = list(range(1, L + 1))
        return f"ramp({'up' if up else 'down'})", ms if up else ms[::-1]
    if style == "one-heavy":
        ms = [1] * L
        i = rng.choice([0, L - 1, rng.randrange(L)])
        ms[i] = rng.choice([L, 2 * L + 1, 1000])
        return f"one-heavy({ms[i]}@{i})", ms
    ms = [rng.randint(1, 50) for _ in range(L)]
    return f"random:{digest(ms)}", ms


# ----------------------------------------------------------------------------- scale_and_discretize
UNITS = [(1, "1"), (1, "1"), (1.0, "1.0"), (0.5, "0.5"), (0.25, "0.25"), (4.0, "4.0"), (0.1, "0.1"), (1 / 3, "1/3"), (0.7, "0.7")]


def weights_total(rng, L):
    """-> (tag, weights, total, exact) - weights = unit * m_i; ``exact`` tells that weights are integers or dyadic
    fractions (the arithmetic on them is exact in floating point), total <= ~1e9."""
    r = rng.random()
    if r < 0.15:
        ws = [rng.random() + 1e-3 for _ in range(L)]
        total = rng.choice([1, L - 1 or 1, L, L + 1, rng.randint(1, 10 * L), rng.randint(1, 10 ** 6), rng.randint(1, 10 ** 9)])
        return f"floats:{digest(ws)} total={total}", ws, total, False
    mtag, ms = multiples(rng, L)
    unit, utag = rng.choice(UNITS)
    ws = [m if unit == 1 and isinstance(unit, int) else unit * m for m in ms]
    S = sum(ms)
    c = min(rng.choice([0, 1, 1, 2, 3, 5, 10, 1000, rng.randint(1, 10 ** 5)]), 10 ** 9 // S)  # total <= ~1e9
    rel = rng.choice(["exact", "exact", "exact", "one-over", "all-but-one", "two-over", "half", "random", "small"])
    if rel == "exact":
        c = max(c, 1)
        total = c * S
    elif rel == "one-over":
        total = c * S + 1
    elif rel == "all-but-one":
        total = c * S + max(S - 1, 1)
    elif rel == "two-over":
        total = c * S + 2
    elif rel == "half":
        total = c * S + max(S // 2, 1)
    elif rel == "small":
        total = rng.choice([1, 2, max(1, L - 1), L, L + 1, max(1, L // 2)])
    else:
        total = c * S + rng.randint(0, S)
    total = max(1, total)
    exact = utag in ("1", "1.0", "0.5", "0.25", "4.0")
    return f"{utag}*{mtag} {rel} c={c} total={total}", ws, total, exact


# ----------------------------------------------------------------------------- expand_sample_sizes
def requests(rng, L, deep=False, maxima=None):
    """-> (tag, max, [n_1..n_L]).  ``deep``: few circuits (L is then the number of COPIES the first one needs)."""
    mx = rng.choice(maxima or [1, 1, 2, 3, 7, 10, 16, 100, 1000, 8192, rng.randint(1, 50)])
    if deep:
        k = rng.randint(1, 3)
        ns = []
        for j in range(k):
            copies = L if j == 0 else rng.choice([1, 2, L, rng.randint(1, L)])
            rel = rng.choice(["multiple", "multiple", "multiple+1", "multiple-1", "random"])
            n = copies * mx + (0 if rel == "multiple" else 1 if rel == "multiple+1" else -1 if rel == "multiple-1"
                               else -rng.randint(0, mx - 1))
            ns.append(max(1, n))
        if rng.random() < 0.5:
            rng.shuffle(ns)
        return f"deep max={mx} requests={ns}", mx, ns
    rel = rng.choice(["all-multiples", "all-multiples", "all-max", "all-one", "all-multiple+1", "all-multiple-1",
                      "one-odd", "cycle", "random"])
    ks = [rng.randint(1, 3) for _ in range(L)] if rng.random() < 0.5 else [rng.choice([1, 2, 3])] * L
    if rel == "all-multiples":
        ns = [k * mx for k in ks]
    elif rel == "all-max":
        ns = [mx] * L
    elif rel == "all-one":
        ns = [1] * L
    elif rel == "all-multiple+1":
        ns = [k * mx + 1 for k in ks]
    elif rel == "all-multiple-1":
        ns = [max(1, k * mx - 1) for k in ks]
    elif rel == "one-odd":
        ns = [k * mx for k in ks]
        i = rng.choice([0, L - 1, rng.randrange(L)])
        ns[i] = max(1, ns[i] + rng.choice([1, -1]))
    elif rel == "cycle":
        p = [max(1, rng.choice([mx, 2 * mx, mx + 1, mx - 1, 1, 3 * mx, rng.randint(1, 3 * mx)])) for _ in range(rng.randint(2, 4))]
        ns = [p[i % len(p)] for i in range(L)]
    else:
        ns = [rng.randint(1, 3 * mx) for _ in range(L)]
    return f"{rel} max={mx} L={L} requests:{digest(ns)}", mx, ns


LONG_SHOT_LISTS = [1000, 1023, 1024, 1025, 2048, 4095, 4096, 4097, 8192, 10000]


def wide_requests(rng):
    """-> (tag, max, [n_1..n_k]): 1-3 circuits whose copies each deliver a LONG list of shots (maximum 1000 ... 10000)"""
    mx = rng.choice(LONG_SHOT_LISTS + [rng.randint(1000, 10000)])
    ns = []
    for _ in range(rng.randint(1, 3)):
        k = rng.choice([1, 1, 2])
        ns.append(max(1, k * mx + rng.choice([0, 0, 1, -1, 2, -rng.randint(0, mx - 1), -(mx // 2)])))
    return f"wide max={mx} requests={ns}", mx, ns


def tokens(rng, L):
    """L stand-ins for circuits; now and then one object occurs twice"""
    toks = [f"c{i}" for i in range(L)]
    if L >= 2 and rng.random() < 0.3:
        i, j = rng.sample(range(L), 2)
        toks[j] = toks[i]
    return toks


# ----------------------------------------------------------------------------- split_into_batches
def batch_request(rng, L):
    """-> (tag, [n_1..n_L], max_batch_size) with the batch size placed relative to L"""
    divs = [d for d in range(2, min(L, 600)) if L % d == 0]
    rel = rng.choice(["one", "two", "L", "L-1", "L+1", "half", "half+1", "half-1", "divisor", "divisor+1", "divisor-1",
                      "pow2", "pow2+1", "pow2-1", "huge", "2L", "random"])
    d = rng.choice(divs) if divs else max(1, L // 3)
    p2 = 2 ** rng.randint(1, 12)
    mb = {"one": 1, "two": 2, "L": L, "L-1": L - 1, "L+1": L + 1, "half": L // 2, "half+1": L // 2 + 1, "half-1": L // 2 - 1,
          "divisor": d, "divisor+1": d + 1, "divisor-1": d - 1, "pow2": p2, "pow2+1": p2 + 1, "pow2-1": p2 - 1,
          "huge": 10 ** 6, "2L": 2 * L, "random": rng.randint(1, L + 2)}[rel]
    mb = max(1, mb)
    style = rng.choice(["equal", "ones", "cycle", "peak-first", "peak-last", "peak-batch-end", "peak-batch-start", "ramp-up",
                        "ramp-down", "random"])
    if style == "equal":
        ns = [rng.randint(1, 100)] * L
    elif style == "ones":
        ns = [1] * L
    elif style == "cycle":
        p = [rng.randint(1, 1000) for _ in range(rng.randint(2, 7))]
        ns = [p[i % len(p)] for i in range(L)]
    elif style.startswith("peak"):
        ns = [rng.randint(1, 10)] * L
        i = {"peak-first": 0, "peak-last": L - 1, "peak-batch-end": min(L - 1, mb * rng.randint(1, max(1, L // mb)) - 1),
             "peak-batch-start": min(L - 1, mb * rng.randint(0, max(0, (L - 1) // mb)))}[style]
        ns[i] = rng.choice([11, 1000, 2 ** 53 + 1])
    elif style == "ramp-up":
        ns = list(range(1, L + 1))
    elif style == "ramp-down":
        ns = list(range(L, 0, -1))
    else:
        ns = [rng.randint(1, 1000) for _ in range(L)]
    return f"L={L} max_batch={mb}({rel}) requests[{style}]:{digest(ns)}", ns, mb


# ----------------------------------------------------------------------------- representing measurements
def wide_distribution(rng, K):
    """-> (tag, {bitstring: p}, shots): K outcomes, probabilities m_i / S; the shot number is placed so that the
    shares are all integers / one shot is missing / one is too many / several have to be corrected.  For K > 300
    at most two shots are ever corrected (the correction step of the library costs K per corrected shot)."""
    w = max(1, (K - 1).bit_length()) + rng.choice([0, 0, 1])
    keys = list(range(K)) if rng.random() < 0.5 else rng.sample(range(2 ** w), K)
    if rng.random() < 0.6:
        mtag, ms = "uniform(1)", [1] * K
    else:
        p = [rng.randint(1, 4) for _ in range(rng.randint(2, 4))]
        mtag, ms = f"cycle{p}", [p[i % len(p)] for i in range(K)]
    S = sum(ms)
    c = rng.choice([1, 1, 2, 3])
    rels = ["exact", "exact", "one-missing", "one-too-many", "two-missing"]
    if K <= 300:
        rels += ["some-missing", "some-too-many"]
    if K <= 200:
        rels += ["fewer-shots-than-outcomes"]
    rel = rng.choice(rels)
    if rel == "exact":
        n = c * S
    elif rel == "one-missing":       # shares c*m + m/S: every one rounds down (S > 2 max m), one shot to add
        n = c * S + 1
    elif rel == "two-missing":
        n = c * S + 2
    elif rel == "one-too-many":      # shares (c+1)*m - m/S: every one rounds up, one shot to eliminate
        n = (c + 1) * S - 1
    elif rel == "some-missing":
        n = c * S + rng.randint(2, max(2, min(S // 3, 12)))
    elif rel == "some-too-many":
        n = (c + 1) * S - rng.randint(2, max(2, min(S // 3, 12)))
    else:
        n = rng.randint(max(1, K // 2), K)
    d = {format(x, f"0{w}b"): m / S for x, m in zip(keys, ms)}
    return f"K={K} w={w} {mtag} {rel} n={n} keys:{digest(keys)}", d, max(1, n)


MANY_SHOTS = [9999, 10000, 10001, 16383, 16384, 16385, 32768, 65535, 65536, 65537, 99999, 100000, 100001]
VERY_MANY_SHOTS = [262143, 262144, 262145, 10 ** 6 - 1, 10 ** 6, 10 ** 6 + 1, 2 ** 20 - 1, 2 ** 20, 2 ** 20 + 1]


def many_shots(rng):
    """a shot number of 10^4 ... 10^5, one time in twenty up to 2^20 + 1 (few outcomes are used with it)"""
    if rng.random() < 0.05:
        return rng.choice(VERY_MANY_SHOTS)
    return rng.choice(MANY_SHOTS + [rng.randint(10 ** 4, 10 ** 5), rng.randint(10 ** 4, 3 * 10 ** 4)])
