"""Seeded generators of the *large* and *complex* input classes of C10: registers
wider than any plausible packing threshold (bytes, 16 / 32 / 64 / 128 / 256 bit words),
terms that act on the qubits next to those thresholds, shot numbers and histogram
entries above 8 / 16 / 32 bit counters, operators with many terms, many distinct
outcomes, and coefficients with an imaginary part.  Pure Python: nothing from the
library is imported here.
"""
from .shots import rand_coeff

# one below / at / one above the word sizes a packed representation could use, and a few in between
WIDTHS = [9, 12, 15, 16, 17, 24, 31, 32, 33, 48, 62, 63, 64, 65, 66, 70, 96, 100,
          127, 128, 129, 130, 200, 255, 256, 257]
# numbers of shots / multiplicities next to counter sizes (the list stays affordable up to ~7e4)
SHOT_NUMBERS = [127, 128, 129, 255, 256, 257, 300, 511, 512, 1000, 1023, 1024, 1025, 4095, 4096, 4097]
BIG_SHOT_NUMBERS = [32767, 32768, 32769, 65535, 65536, 65537, 70000]
# histogram entries handed directly to the frequency helper (no shot list is built)
HUGE_COUNTS = [2 ** 15, 2 ** 16, 2 ** 16 + 1, 2 ** 31 - 1, 2 ** 31, 2 ** 31 + 1, 2 ** 32 - 1, 2 ** 32, 2 ** 32 + 1,
               3 * 10 ** 9, 10 ** 12, 2 ** 40 + 1, 2 ** 52 - 1]
TERM_NUMBERS = [9, 9, 12, 15, 16, 17, 17, 24, 33, 40]

WIDE_SHOT_STYLES = ["pool", "pool", "high_only", "extremes", "near", "uniform"]
WIDE_TERM_STYLES = ["high_single", "cross", "cross", "full", "block", "edges", "random", "random"]


def rand_bits(rng, width):
    """uniform outcome; one call of the generator per outcome (qubit k <- bit k)"""
    v = rng.getrandbits(width)
    return tuple([(v >> k) & 1 for k in range(width)])


def rand_width(rng):
    return rng.choice(WIDTHS)


def edge_qubits(width):
    """qubits next to byte / word boundaries and at both ends of the register"""
    cand = {0, 1, width - 2, width - 1}
    for b in (8, 16, 32, 64, 128, 256):
        cand.update((b - 2, b - 1, b, b + 1))
    return sorted(q for q in cand if 0 <= q < width)


def high_qubits(width):
    """the qubits above the highest word boundary below the width (all of them have an
    index a narrower representation cannot hold), or the top quarter"""
    for b in (256, 128, 64, 32, 16, 8):
        if width > b:
            return list(range(b, width))
    return list(range(max(0, width - 2), width))


def _distinct_pool(rng, width, k):
    pool = []
    while len(pool) < k:
        s = rand_bits(rng, width)
        if s not in pool:
            pool.append(s)
    return pool


def rand_wide_shots(rng, width, style=None, max_shots=60):
    """-> (style, shots) on a wide register; every style makes the HIGH qubits vary between
    the outcomes (a result computed from the low qubits alone is wrong)"""
    style = style or rng.choice(WIDE_SHOT_STYLES)
    n = rng.choice([1, 2, rng.randint(2, 12), rng.randint(2, max_shots), max_shots])
    hi = high_qubits(width)
    if style == "pool":
        pool = _distinct_pool(rng, width, rng.randint(2, 6))
    elif style == "high_only":
        # outcomes that agree on every low qubit and differ on the high ones only
        base = list(rand_bits(rng, width))
        pool = []
        for _ in range(rng.randint(2, 5)):
            s = list(base)
            for q in hi:
                s[q] = rng.randint(0, 1)
            if tuple(s) not in pool:
                pool.append(tuple(s))
        if len(pool) < 2:
            s = list(pool[0])
            s[hi[-1]] = 1 - s[hi[-1]]
            pool.append(tuple(s))
    elif style == "extremes":
        # all ones / all zeros / one block of ones: the sums over many marked qubits get large
        pool = [(1,) * width, (0,) * width]
        cut = rng.randint(1, width - 1)
        pool.append((1,) * cut + (0,) * (width - cut))
        pool.append((0,) * cut + (1,) * (width - cut))
        rng.shuffle(pool)
        pool = pool[:rng.randint(2, 4)]
    elif style == "near":
        # outcomes that differ from one another in a single edge qubit
        base = list(rand_bits(rng, width))
        pool = [tuple(base)]
        for q in rng.sample(edge_qubits(width), min(len(edge_qubits(width)), rng.randint(1, 4))):
            s = list(base)
            s[q] = 1 - s[q]
            pool.append(tuple(s))
    elif style == "uniform":
        # every shot its own outcome (many distinct outcomes; up to 300 of them now and then)
        n = rng.choice([n, n, rng.randint(257, 300)])
        return style, [rand_bits(rng, width) for _ in range(n)]
    else:
        raise ValueError(style)
    weights = [rng.choice([1, 1, 2, 5, 20]) for _ in pool]
    return style, rng.choices(pool, weights=weights, k=n)


def rand_complex_coeff(rng):
    """coefficients with an imaginary part: units, purely imaginary, Gaussian integers,
    dyadic and generic complex numbers, 1e-6..1e6 in magnitude"""
    kind = rng.choice(["unit", "imag", "imag", "gauss", "dyadic", "generic", "generic", "scale"])
    if kind == "unit":
        return rng.choice([1j, -1j])
    if kind == "imag":
        return complex(0.0, rng.choice([rng.uniform(-5, 5), rng.randint(1, 20), -rng.randint(1, 20)]))
    if kind == "gauss":
        return complex(rng.randint(-9, 9), rng.choice([-3, -2, -1, 1, 2, 3]))
    if kind == "dyadic":
        return complex(rng.randint(-64, 64) / 16, rng.choice([-1, 1]) * rng.randint(1, 64) / 16)
    if kind == "generic":
        return complex(rng.uniform(-5, 5), rng.uniform(-5, 5))
    m = 10 ** rng.uniform(-6, 6)
    return complex(rng.choice([-1, 1]) * m * rng.random(), rng.choice([-1, 1]) * m)


def complexify(rng, terms, share=None):
    """the same supports; some (share: 'all' / 'some' / 'one') coefficients get an imaginary part"""
    share = share or rng.choice(["all", "some", "some", "one"])
    if not terms:
        return share, terms
    if share == "all":
        pick = set(range(len(terms)))
    elif share == "one":
        pick = {rng.randrange(len(terms))}
    else:
        pick = {i for i in range(len(terms)) if rng.random() < 0.5} or {rng.randrange(len(terms))}
    return share, [(qs, rand_complex_coeff(rng) if i in pick else c) for i, (qs, c) in enumerate(terms)]


def _small_support(rng, width, pool=None, kmax=3):
    pool = pool or range(width)
    k = rng.randint(1, min(kmax, len(pool)))
    return tuple(sorted(rng.sample(list(pool), k)))


def rand_wide_terms(rng, width, style=None):
    """-> (style, terms) whose supports reach the qubits next to and above the word boundaries"""
    style = style or rng.choice(WIDE_TERM_STYLES)
    hi = high_qubits(width)
    lo = [q for q in range(width) if q not in set(hi)] or list(range(width))
    edges = edge_qubits(width)
    terms = []
    if style == "high_single":
        terms = [((rng.choice(hi),), rand_coeff(rng))]
        if rng.random() < 0.5:
            terms.append(((rng.choice(hi),), rand_coeff(rng)))
    elif style == "cross":
        # pairs made of one low and one high qubit that overlap pairwise: the product of two of
        # them acts on the symmetric difference
        h, l = rng.choice(hi), rng.choice(lo)
        terms.append((tuple(sorted({h, l})), rand_coeff(rng)))
        terms.append((tuple(sorted({h, rng.choice(lo)} | {rng.choice(hi)})), rand_coeff(rng)))
        terms.append((tuple(sorted({l, rng.choice(hi)})), rand_coeff(rng)))
        if rng.random() < 0.5:
            terms.append(((), rand_coeff(rng)))
        terms = terms[:rng.randint(2, len(terms))]
    elif style == "full":
        terms = [(tuple(range(width)), rand_coeff(rng))]
        drop = rng.choice(edges)
        terms.append((tuple(q for q in range(width) if q != drop), rand_coeff(rng)))
        if rng.random() < 0.5:
            terms.append((_small_support(rng, width, edges), rand_coeff(rng)))
    elif style == "block":
        # contiguous blocks across a boundary
        for _ in range(rng.randint(1, 3)):
            mid = rng.choice(edges)
            a = max(0, mid - rng.randint(0, 9))
            b = min(width, mid + rng.randint(1, 9))
            terms.append((tuple(range(a, b)), rand_coeff(rng)))
    elif style == "edges":
        for _ in range(rng.randint(2, 5)):
            terms.append((_small_support(rng, width, edges), rand_coeff(rng)))
    else:
        for _ in range(rng.randint(2, 5)):
            terms.append((_small_support(rng, width) if rng.random() < 0.85 else (), rand_coeff(rng)))
    rng.shuffle(terms)
    return style, terms


def rand_many_terms(rng, width):
    """operators with 9-40 terms on small supports (repeated supports and constants included)"""
    k = rng.choice(TERM_NUMBERS)
    terms = []
    for _ in range(k):
        r = rng.random()
        if r < 0.06:
            terms.append(((), rand_coeff(rng)))
        elif r < 0.15 and terms:
            terms.append((rng.choice(terms)[0], rand_coeff(rng)))
        else:
            terms.append((_small_support(rng, width, kmax=min(3, width)), rand_coeff(rng)))
    return terms


def rand_many_shots(rng, width, big=False):
    """-> (multiset as a list of (outcome, multiplicity), total): 2-4 outcomes, the total - and
    usually the multiplicity of one outcome - next to a counter size"""
    total = rng.choice(BIG_SHOT_NUMBERS if big else SHOT_NUMBERS)
    pool = _distinct_pool(rng, width, rng.randint(2, min(2 ** width, 4)))
    rest = total
    out = []
    for s in pool[:-1]:
        m = rng.choice([1, 1, 2, 3, rng.randint(1, 40)])
        m = min(m, rest - 1)
        if m > 0:
            out.append((s, m))
            rest -= m
    out.append((pool[-1], rest))
    rng.shuffle(out)
    return out, total


def rand_huge_counts(rng, width):
    """histogram with 2-5 outcomes of which one or two occur more often than a 16 / 31 / 32 bit
    counter can hold; the others have comparable or small multiplicities"""
    k = rng.randint(2, min(2 ** width, 5))
    keys = []
    while len(keys) < k:
        key = "".join(rng.choice("01") for _ in range(width))
        if key not in keys:
            keys.append(key)
    big = rng.choice(HUGE_COUNTS)
    out = {}
    for i, key in enumerate(keys):
        r = rng.random()
        if i == 0:
            out[key] = big
        elif r < 0.4:
            out[key] = rng.choice(HUGE_COUNTS)
        elif r < 0.7:
            out[key] = max(1, big - rng.randint(0, 5))
        else:
            out[key] = rng.randint(1, 40)
    return out


def hex_of(shot):
    """compact canonical spelling of a wide outcome: qubit k <-> bit k of the integer"""
    v = 0
    for k, b in enumerate(shot):
        if b:
            v |= 1 << k
    return f"{v:x}"
