"""Seeded generators for the shot-accounting functions (C13): sample-size
requests around divisibility boundaries, huge counts with small multiplicity,
per-copy results, batch requests, distributions x shot numbers, weights x totals.
Pure Python; nothing from the library is imported.
"""

BIG = 2 ** 53


def rand_max(rng):
    return rng.choice([1, 1, 2, 3, 7, 10, 16, 100, 1000, 8192, rng.randint(1, 50), rng.randint(1, 10 ** 6)])


def rand_request(rng, mx, kmax=40):
    """one positive sample count placed relative to the maximum ``mx``; at most
    ``kmax`` + 1 copies are needed"""
    kind = rng.choice(["multiple", "multiple+1", "multiple-1", "one", "below", "max", "max+1", "max-1", "random", "random"])
    k = rng.randint(1, kmax)
    if kind == "multiple":
        n = k * mx
    elif kind == "multiple+1":
        n = k * mx + 1
    elif kind == "multiple-1":
        n = k * mx - 1
    elif kind == "one":
        n = 1
    elif kind == "below":
        n = rng.randint(1, mx)
    elif kind == "max":
        n = mx
    elif kind == "max+1":
        n = mx + 1
    elif kind == "max-1":
        n = mx - 1
    else:
        n = rng.randint(1, kmax * mx)
    return max(1, n)


def rand_requests(rng, ncirc=None, kmax=40, mx=None):
    """-> (max_sample_size, [n_1..n_k]) with 0-8 circuits"""
    mx = mx or rand_max(rng)
    k = rng.randint(0, 8) if ncirc is None else ncirc
    return mx, [rand_request(rng, mx, kmax) for _ in range(k)]


def rand_big_requests(rng):
    """counts around 2**53 / 2**63 / 10**17 with at most ~8 copies each"""
    base = rng.choice([2 ** 52, 2 ** 53, 2 ** 53, 2 ** 54, 2 ** 62, 2 ** 63, 2 ** 64, 10 ** 16, 10 ** 17, 3 * 2 ** 51,
                       rng.randint(2 ** 52, 2 ** 56)])
    mx = base + rng.choice([0, 0, 1, -1, 2, rng.randint(-1000, 1000)])
    k = rng.randint(0, 5)
    out = []
    for _ in range(k):
        kk = rng.randint(1, 7)
        r = rng.choice([0, 1, 1, -1, 2, mx - 1, mx // 2, rng.randint(0, mx - 1), rng.randint(0, 1000)])
        out.append(max(1, kk * mx + r))
    if rng.random() < 0.3 and out:
        out[rng.randrange(len(out))] = rng.randint(1, 1000)  # a small request among huge ones
    return mx, out


def rand_circuits(rng, k):
    """k stand-ins for circuits: distinct tokens, with an occasional repeated
    (identical) object so that grouping by identity instead of position shows"""
    toks = [f"circ{i}" for i in range(k)]
    if k >= 2 and rng.random() < 0.3:
        i, j = rng.sample(range(k), 2)
        toks[j] = toks[i]
    return toks


def rand_pool(rng):
    w = rng.randint(1, 4)
    k = rng.randint(1, min(2 ** w, 5))
    return ["".join(rng.choice("01") for _ in range(w)) for _ in range(k)]


def rand_counts_total(rng, pool, total):
    """histogram over ``pool`` with exactly ``total`` shots (total may be huge)"""
    keys = list(dict.fromkeys(rng.sample(pool, rng.randint(1, len(pool)))))
    out = {}
    left = total
    for key in keys[:-1]:
        if left <= 0:
            break
        c = rng.choice([0, 1, left // 2, rng.randint(0, min(left, 50)), rng.randint(0, left)])
        if c:
            out[key] = out.get(key, 0) + c
            left -= c
    if left > 0:
        out[keys[-1]] = out.get(keys[-1], 0) + left
    return out


def rand_multiplicities(rng):
    k = rng.randint(0, 6)
    return [rng.choice([1, 1, 2, 3, rng.randint(1, 6)]) for _ in range(k)]


def rand_batch_request(rng):
    """-> (n_circuits, samples per circuit, max batch size)"""
    k = rng.randint(0, 12)
    style = rng.choice(["random", "equal", "increasing", "decreasing", "big", "ones"])
    if style == "random":
        ns = [rng.randint(1, 1000) for _ in range(k)]
    elif style == "equal":
        ns = [rng.randint(1, 100)] * k
    elif style == "increasing":
        ns = sorted(rng.randint(1, 1000) for _ in range(k))
    elif style == "decreasing":
        ns = sorted((rng.randint(1, 1000) for _ in range(k)), reverse=True)
    elif style == "big":
        ns = [rng.choice([2 ** 53, 2 ** 53 + 1, 2 ** 63, 2 ** 63 - 1, 10 ** 18 + rng.randint(0, 9)]) for _ in range(k)]
    else:
        ns = [1] * k
    mb = rng.choice([1, 1, 2, 3, max(1, k - 1), max(1, k), k + 1, k + 5, rng.randint(1, 6), 10 ** 6])
    return k, ns, mb


def rand_distribution(rng, style=None):
    """-> (style, {bitstring: probability}) normalised, 1-12 outcomes, widths 1-5"""
    w = rng.randint(1, 5)
    k = rng.randint(1, min(2 ** w, 12))
    keys = rng.sample(range(2 ** w), k)
    style = style or rng.choice(["float", "smallint", "int", "skew", "equal", "thirds", "zeros"])
    if style == "float":
        ws = [rng.random() + 1e-3 for _ in keys]
    elif style == "smallint":
        ws = [rng.choice([1, 2, 3]) for _ in keys]
    elif style == "int":
        ws = [rng.randint(1, 50) for _ in keys]
    elif style == "skew":
        ws = [10 ** rng.uniform(-6, 0) for _ in keys]
    elif style == "equal":
        ws = [1] * k
    elif style == "thirds":
        ws = [rng.choice([1, 2]) / 3 for _ in keys]
    else:
        ws = [rng.random() if rng.random() < 0.6 else 0.0 for _ in keys]
        if sum(ws) == 0:
            ws[0] = 1.0
    t = sum(ws)
    return style, {format(x, f"0{w}b"): v / t for x, v in zip(keys, ws)}


def rand_shot_number(rng, k):
    return rng.choice([1, 2, 3, k, k + 1, 2 * k + 1, rng.randint(1, 20), rng.randint(1, 200), rng.randint(1, 5000), 5000])


def forced_distribution(rng, branch):
    """equal-probability outcomes and a shot number whose per-outcome share has a
    fractional part below (add) / above (eliminate) one half"""
    w = rng.randint(3, 5)
    k = rng.randint(4, min(2 ** w, 9))
    keys = rng.sample(range(2 ** w), k)
    q = rng.randint(0, 30)
    if branch == "add":
        r = rng.randint(1, (k - 1) // 2)  # r/k < 1/2 -> every share rounds down
    elif branch == "eliminate":
        r = rng.randint(k // 2 + 1, k - 1)  # r/k > 1/2 -> every share rounds up
    else:
        # eliminate_phantom: one extra outcome with share 0.4 (no copy after rounding, but a
        # large elimination weight) beside k-1 outcomes whose shares all round up, so the
        # elimination regularly asks for a shot that does not exist and has to re-draw
        k -= 1
        n = q * k + k - 1
        p0 = 0.4 / n
        d = {format(x, f"0{w}b"): (1 - p0) / k for x in keys[1:]}
        d[format(keys[0], f"0{w}b")] = p0
        return d, n
    n = q * k + r
    return {format(x, f"0{w}b"): 1 / k for x in keys}, n


def rand_weights_total(rng):
    """-> (style, weights, total) with weights x total <= 1e15"""
    k = rng.randint(1, 10)
    style = rng.choice(["float", "int", "equal", "skew", "dyadic", "tenths", "int_exact_big"])
    if style == "int_exact_big":
        # large INTEGER weights whose proportional shares are exact integers (total = c * sum): the products
        # weight * total exceed 2**63 although every share stays far below 2**53, so the answer is exactly c * w_i
        vs = [rng.randint(10 ** 9, 10 ** 10) for _ in range(max(2, k))]
        c = rng.choice([1, 1, 2, 3])
        return style, vs, c * sum(vs)
    if style == "float":
        vs = [rng.random() + 1e-3 for _ in range(k)]
    elif style == "int":
        vs = [rng.randint(1, 50) for _ in range(k)]
    elif style == "equal":
        vs = [rng.choice([1, 0.1, 3.0, 1 / 3])] * k
    elif style == "skew":
        vs = [10 ** rng.uniform(-6, 3) for _ in range(k)]
    elif style == "dyadic":
        vs = [rng.randint(1, 64) / 16 for _ in range(k)]
    else:
        vs = [rng.randint(1, 30) / 10 for _ in range(k)]
    total = rng.choice([1, 2, k, max(1, k - 1), k + 1, rng.randint(1, 100), rng.randint(1, 10 ** 6),
                        rng.randint(1, 10 ** 12), max(1, int(sum(vs)))])
    return style, vs, total
