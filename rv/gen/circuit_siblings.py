"""Circuits of *sibling* gates for the circuit-level constructions (inverse, controlled, builders).

A construction that walks over the operations of a circuit and derives something per gate
(its dagger, its controlled version, a gate built from a parameter row) can go wrong by
*identifying* two different gates: a memo table, a de-duplication or a lookup whose key is
coarser than the gate.  Keys that look airtight and are not:

* ``(name, params)`` - every controlled gate is named "Control", every exponential
  "Exponential", wrappers report the parameters of the gate they wrap (c-X / c-Z / cc-X,
  c-RX(a) / c-RY(a), exp(X) / exp(Z) share a key);
* ``name`` alone or ``type`` alone (RX(a) / RX(b)); parameters after rounding, ``abs``, modulo
  a period, sorted or summed (RX(a) / RX(a+1e-4) / RX(-a) / RX(a+2pi); G(a, b) / G(b, a));
* the wrapped gate without the wrapper's own data (X.power(2) / X.power(3); S / S.dagger;
  one control / two controls);
* the gate without the qubits it sits on, or with the qubits as a set (CNOT(0,1) / CNOT(1,0)).

A workload of independently drawn gates almost never contains such a pair.  Here every
operation of a circuit is a random combination out of three SMALL per-circuit pools (innermost
gates x parameter values x wrapper shapes), so each kind of collision occurs with high
probability within 3-6 operations.  Numeric parameters only (Python numbers / sympy numbers),
unitary gates only unless ``unitary_only=False`` (then exponentials of safe one-qubit gates
occur).  The library is imported lazily.
"""
import math
from fractions import Fraction

import sympy

from . import circuits as GC
from . import siblings as SB


def _def_width(d):
    """qubits of a custom gate definition, from its public matrix"""
    return int(d.matrix.shape[0]).bit_length() - 1


FIXED_1Q = ["X", "Y", "Z", "H", "S", "T", "SX", "I"]
PARAM_1Q = ["RX", "RY", "RZ", "PHASE", "RH", "GPi", "GPi2"]
FIXED_2Q = ["CNOT", "CZ", "SWAP", "ISWAP"]
PARAM_2Q = ["CPHASE", "XX", "YY", "ZZ", "XY"]

# one-qubit gates whose matrix exponential sympy 1.9 returns quickly (exp of PHASE(float) / T / RZ never returns, RH
# takes ~0.4 s per evaluation)
EXP_FAST_1Q = ["X", "Y", "Z", "H", "I", "S", "RX", "RY", "GPi", "GPi2"]

# wrapper shapes beyond rv.gen.siblings.WRAPPERS: (number of extra qubits, needs a plain safe 1-qubit base)
_MORE = {"pow2": (0, False), "pow3": (0, False), "pow-1": (0, False), "pow0": (0, False), "pow2.c1": (1, False),
         "c1.pow3": (1, False), "pow2.dagger": (0, False), "exp": (0, True), "exp.c1": (1, True),
         "exp.dagger": (0, True)}
WRAPPERS = list(SB.WRAPPERS) + list(_MORE)


def extra_qubits(w):
    return SB._EXTRA[w] if w in SB._EXTRA else _MORE[w][0]


def apply_wrapper(gate, w):
    if w in SB._EXTRA:
        return SB.apply_wrapper(gate, w)
    g = gate
    for step in w.split("."):
        if step.startswith("pow"):
            g = g.power(int(step[3:]))
        elif step == "exp":
            g = g.exp
        elif step == "c1":
            g = g.controlled(1)
        elif step == "dagger":
            g = g.dagger
        else:
            raise ValueError(w)
    return g


def param_siblings(rng, a):
    """values that a coarse key (rounding, abs, period, type, text) confuses with ``a``"""
    out = []
    kinds = rng.sample(["near", "near_rel", "neg", "period", "twin", "other", "digits"], 3)
    for k in kinds:
        if k == "near":
            out.append(a + rng.choice([1e-3, -1e-4, 1e-5, 1e-6]))
        elif k == "near_rel":
            out.append(a * (1 + rng.choice([1e-4, -1e-6])) if a else 1e-5)
        elif k == "neg":
            out.append(-a)
        elif k == "period":
            out.append(a + rng.choice([2, -2]) * math.pi)  # rotations differ by a global sign: visible under a control
        elif k == "twin":
            out.append(SB.twin_param(rng, a))
        elif k == "digits":
            out.append(round(a, 1) if round(a, 1) != a else a + 0.05)
        else:
            out.append(round(rng.uniform(-3, 3), 4))
    return out


def two_param_def(name):
    """custom one-qubit gate with two parameters whose order matters (unitary for real arguments)"""
    from orquestra.quantum.circuits import CustomGateDefinition

    a, b = sympy.symbols("a b")
    M = sympy.Matrix([[sympy.cos(a), -sympy.sin(a) * sympy.exp(sympy.I * b)],
                      [sympy.sin(a) * sympy.exp(-sympy.I * b), sympy.cos(a)]])
    return CustomGateDefinition(name, M, (a, b))


CONST_NAME = ["c1", "c2", "C1", "c1.dagger", "dagger.c1", "c1.c1", "D.C1", "pow2.c1", "c1.pow3", "exp", "exp.c1"]


def draw_pools(rng, nprng, max_arity, *, unitary_only=True, custom_defs=None, params=None, focus=None):
    """(bases, params, wrappers): the small per-circuit pools.

    focus: which pool is the varied one - "inner" (several innermost gates under wrappers whose name is a
    constant - Control / Exponential -, one parameter value), "params" (one gate, sibling parameter values),
    "wrapper" (one gate, one value, several wrapper shapes) or "mixed" (a little of everything)."""
    focus = focus or rng.choice(["inner", "inner", "params", "wrapper", "mixed", "mixed"])
    avail = [w for w in WRAPPERS if extra_qubits(w) < max_arity or extra_qubits(w) == 0]
    if unitary_only:
        avail = [w for w in avail if "exp" not in w]
    if params is None:
        a = GC.rand_angle(rng, 0.2) if rng.random() < 0.7 else rng.choice([1, 2, -1, 0.5, 0.25])
        sib = param_siblings(rng, a)
        params = [a] + {"inner": sib[: rng.choice([0, 0, 1])], "wrapper": [], "params": sib[: rng.randint(2, 3)]}.get(
            focus, sib[: rng.randint(1, 2)])
    bases = []
    if focus in ("params", "wrapper"):
        r = rng.random()
        if r < 0.55 or (focus == "wrapper" and r < 0.8):
            bases.append(("p1", rng.choice(PARAM_1Q)) if focus == "params" or rng.random() < 0.6
                         else ("fixed", rng.choice(FIXED_1Q)))
        elif r < 0.8 and max_arity >= 2:
            bases.append(("p1", rng.choice(PARAM_2Q)))
        else:
            bases.append(("custom2", two_param_def("Sib2_%d" % rng.randint(0, 999))))
        if rng.random() < 0.04:
            bases = [("u3", "U3")]
    else:
        one_q = [("p1", n) for n in rng.sample(PARAM_1Q, rng.randint(2 if focus == "inner" else 1, 3))]
        if rng.random() < 0.6:
            one_q += [("fixed", n) for n in rng.sample(FIXED_1Q, rng.randint(2, 3))]
            if rng.random() < 0.4:  # only parameter-less gates: every parameter tuple is ()
                one_q = [b for b in one_q if b[0] == "fixed"]
        bases += one_q
        if max_arity >= 2 and rng.random() < 0.3:
            bases += [("fixed", n) for n in rng.sample(FIXED_2Q, 2)] if rng.random() < 0.5 else \
                [("p1", n) for n in rng.sample(PARAM_2Q, 2)]
        if rng.random() < 0.25:
            bases.append(("custom2", two_param_def("Sib2_%d" % rng.randint(0, 999))))
    for d in custom_defs or []:
        if _def_width(d) <= max_arity:
            bases.append(("custom0", d))
    if focus == "inner":
        const = [w for w in avail if w in CONST_NAME]
        wrappers = rng.sample(const, min(len(const), rng.randint(1, 2))) if const else ["plain"]
        if rng.random() < 0.3:
            wrappers.append("plain")
    elif focus == "wrapper":
        wrappers = rng.sample(avail, min(len(avail), rng.randint(3, 4)))
    elif focus == "params":
        wrappers = rng.sample(avail, rng.randint(1, 2))
    else:
        wrappers = rng.sample(avail, rng.randint(2, 3))
        if not any(extra_qubits(w) for w in wrappers) and max_arity >= 2 and rng.random() < 0.7:
            wrappers.append(rng.choice(["c1", "C1", "c1.dagger", "dagger.c1"]))
    return bases, list(params), wrappers


def make_gate(rng, base, params, wrappers, max_arity):
    """one gate out of the pools; None when nothing fits"""
    tab = GC.builtin_table()
    kind, b = base
    if kind == "fixed":
        g0 = tab[b]["ref"]
    elif kind == "p1":
        g0 = tab[b]["ref"](rng.choice(params))
    elif kind == "custom2":
        g0 = b(rng.choice(params), rng.choice(params))
    elif kind == "custom0":
        g0 = b()
    else:
        g0 = tab["U3"]["ref"](rng.choice(params), rng.choice(params), rng.choice(params))
    exp_ok = kind in ("fixed", "p1") and b in EXP_FAST_1Q
    fit = [w for w in wrappers if g0.num_qubits + extra_qubits(w) <= max_arity
           and (w in SB._EXTRA or not _MORE[w][1] or exp_ok)]
    if not fit:
        fit = [w for w in ("c1", "dagger", "plain") if g0.num_qubits + extra_qubits(w) <= max_arity]
    if not fit:
        return None
    return apply_wrapper(g0, rng.choice(fit))


def sibling_ops(rng, nprng, width, n_ops, *, unitary_only=True, custom_defs=None, params=None, max_arity=3, pools=None):
    """n_ops gate operations on ``width`` qubits out of small per-circuit pools; returns (ops, pools).
    Besides colliding gates: the very same gate object on other qubits, and the same gate on the same qubits
    in another order."""
    max_arity = min(max_arity, width)
    pools = pools or draw_pools(rng, nprng, max_arity, unitary_only=unitary_only, custom_defs=custom_defs, params=params)
    bases, params, wrappers = pools
    ops = []
    for _ in range(n_ops):
        r = rng.random()
        if ops and r < 0.05:  # the very same operation object once more
            ops.append(rng.choice(ops))
            continue
        if ops and r < 0.15:  # the same gate object once more, on freshly drawn qubits
            g = rng.choice(ops).gate
            qs = GC.rand_qubits(rng, g.num_qubits, width)
        elif ops and r < 0.25:  # the same gate on the same qubits, listed in another order
            op = rng.choice(ops)
            g = op.gate
            qs = list(op.qubit_indices)
            rng.shuffle(qs)
            if len(qs) > 1 and tuple(qs) == tuple(op.qubit_indices):
                qs = qs[::-1]
        else:
            g = make_gate(rng, rng.choice(bases), params, wrappers, max_arity)
            if g is None:
                continue
            qs = GC.rand_qubits(rng, g.num_qubits, width)
        ops.append(g(*qs))
    if not ops:
        g = GC.builtin_table()["RX"]["ref"](params[0])
        ops.append(g(*GC.rand_qubits(rng, 1, width)))
    return ops, pools


def sibling_of_op(rng, op, pools, width):
    """another operation on the same number of qubits drawn from the same pools (for in-place replacement);
    falls back to the operation's gate on reordered / other qubits"""
    bases, params, wrappers = pools
    for _ in range(6):
        g = make_gate(rng, rng.choice(bases), params, wrappers, min(3, width))
        if g is not None and g.num_qubits == op.gate.num_qubits:
            return g(*op.qubit_indices) if rng.random() < 0.7 else g(*GC.rand_qubits(rng, g.num_qubits, width))
    return op.gate(*GC.rand_qubits(rng, op.gate.num_qubits, width))


def sibling_rows(rng, k, npar, symbolic=False):
    """k parameter rows of npar entries each that collide under coarse keys: rows sharing their first entries,
    permutations of one row, near-equal rows, repeated (equal) rows, rows of another number type"""
    if npar == 0:
        return [[] for _ in range(k)]
    a = round(rng.uniform(-3, 3), 4)
    vals = [a] + param_siblings(rng, a)[:2] + [round(rng.uniform(-3, 3), 4)]
    vals = [v if not isinstance(v, sympy.Basic) or symbolic else float(v) for v in vals]
    if symbolic:
        x = sympy.Symbol("theta_0")
        vals += [x, sympy.Symbol("theta_1"), 2 * x, sympy.Rational(1, 3), Fraction(1, 3), sympy.Integer(2), 2]
    first = [rng.choice(vals) for _ in range(npar)]
    rows = []
    for _ in range(k):
        r = rng.random()
        if rows and r < 0.2:
            row = list(rng.choice(rows))  # an equal row once more
        elif r < 0.45 and npar > 1:
            row = list(first)
            rng.shuffle(row)  # a permutation of one row
        elif r < 0.7:
            row = list(first)
            row[-1] = rng.choice(vals)  # shares every entry but the last
        else:
            row = [rng.choice(vals) for _ in range(npar)]
        rows.append(row)
    return rows
