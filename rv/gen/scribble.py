"""In-place modification of objects that a value-returning library call handed to its caller.

A caller owns what a value-returning operation gave it and may do what it likes with it (clear the list,
overwrite the array, rescale the matrix).  If the library kept an alias of that object (a memo table that
hands out the cached object itself, a module-level constant returned by reference, a buffer shared with
the receiver), a later call observes the caller's edits.  ``scribble`` performs such edits; it only touches
*containers* (lists, dicts, sets, numpy arrays, mutable sympy matrices, scipy sparse data, and the
container attributes of the library's value classes), never scalar attributes of value objects.
"""
import numpy as np

_MARK = 7.25  # what arrays / matrices are overwritten with (not 0 / 1, so that it cannot pass for a valid value)


def _lib_containers(obj):
    """container attributes of the library's value classes, read through their public names"""
    name = type(obj).__name__
    out = []
    try:
        if name == "Circuit":
            out.append(obj.operations)
        elif name == "Measurements":
            out.append(obj.bitstrings)
        elif name == "MeasurementOutcomeDistribution":
            out.append(obj.distribution_dict)
        elif name == "PauliSum":
            out.append(obj.terms)
        elif name in ("ExpectationValues", "Parities"):
            out.append(obj.values)
            out.append(getattr(obj, "correlations", None))
            out.append(getattr(obj, "estimator_covariances", None))
    except Exception:
        pass
    return [x for x in out if x is not None]


def scribble(obj, depth=0, seen=None):
    """Modify ``obj`` in place as far as it is a container.  Returns the number of containers changed."""
    if seen is None:
        seen = set()
    if id(obj) in seen or depth > 3:
        return 0
    seen.add(id(obj))
    n = 0
    try:
        import scipy.sparse
        import sympy

        if isinstance(obj, np.ndarray):
            if obj.flags.writeable and obj.size and obj.dtype != object:
                obj[...] = _MARK
                return 1
            if obj.flags.writeable and obj.size:
                for x in obj.flat:
                    n += scribble(x, depth + 1, seen)
                return n
            return 0
        if scipy.sparse.issparse(obj):
            data = getattr(obj, "data", None)
            if isinstance(data, np.ndarray) and data.size and data.flags.writeable:
                data[...] = _MARK
                return 1
            return 0
        if isinstance(obj, sympy.MutableDenseMatrix):
            if obj.rows and obj.cols:
                obj.fill(sympy.Float(_MARK))
                return 1
            return 0
        if isinstance(obj, (list, bytearray)):
            for x in list(obj):
                n += scribble(x, depth + 1, seen)
            if len(obj):
                obj.clear()
                n += 1
            return n
        if isinstance(obj, dict):
            for x in list(obj.values()):
                n += scribble(x, depth + 1, seen)
            if len(obj):
                obj.clear()
                n += 1
            return n
        if isinstance(obj, set):
            if len(obj):
                obj.clear()
                return 1
            return 0
        if isinstance(obj, tuple):
            for x in obj:
                n += scribble(x, depth + 1, seen)
            return n
        # (a Wavefunction is NOT edited here: the wavefunction a simulator returns for an operation-free circuit wraps
        # the very array the caller passed as initial state - np.asarray does not copy - so an edit of the result would
        # be an edit of the caller's own argument; a first version of this did just that and made C20 report the
        # unchanged tree, DESIGN 9.18.  C01's history class edits the state of an idle register obtained from the
        # DEFAULT initial state instead)
        for c in _lib_containers(obj):
            n += scribble(c, depth + 1, seen)
    except Exception:
        pass
    return n
