"""Numbers spelled in numeric types other than the builtin ``int`` / ``float`` and sympy's own.

A gate parameter (and a value of a symbol map) is "a number": ``numbers.Number``.  Code that tells numbers
from symbols by listing types (``isinstance(p, (int, float, complex))``, ``type(p) in (...)``, a dispatch
table keyed by class) works for the two or three types its author thought of and fails - raises, converts,
rounds - for the others that users hand in every day: ``fractions.Fraction`` (exact angles), numpy integers and
floats (everything that comes out of an array: ``circuit.bind(dict(zip(symbols, x)))``), ``decimal.Decimal``,
mpmath numbers, subclasses of ``int`` / ``float``, Python ``complex``; and, within the builtin types, for
integers beyond 2**53 / 2**63 and for tiny and huge floats.

Everything here is plain Python: generation, an exact conversion to sympy that does NOT go through
``sympy.sympify`` (sympy 1.9 cannot ingest numpy >= 2 floats: environment, DESIGN.md section 2), and "twins"
(the same value in another type: equal under ``==`` and ``hash``).
"""
import decimal
import fractions
import math
import numbers

import mpmath
import numpy as np
import sympy


class AngleInt(int):
    """a user's subclass of int"""
    __slots__ = ()


class AngleFloat(float):
    """a user's subclass of float (numpy.float64 is one as well)"""
    __slots__ = ()


NP_INTS = [np.int8, np.int16, np.int32, np.int64, np.uint8, np.uint16, np.uint32, np.uint64, np.intp]
NP_FLOATS = [np.float16, np.float32, np.float64, np.float64, np.longdouble]
NP_COMPLEX = [np.complex64, np.complex128]

# real, moderate magnitude
REAL_KINDS = ["fraction", "fraction", "fraction_whole", "decimal", "mpf", "np_int", "np_int", "np_float", "np_float",
              "int_subclass", "float_subclass"]
# complex valued (gate parameters only)
COMPLEX_KINDS = ["complex", "complex_real", "np_complex", "mpc"]
# builtin / exact types at magnitudes where float arithmetic gives up
EXTREME_KINDS = ["big_int", "big_int", "big_fraction", "big_np_int", "tiny", "tiny_fraction", "huge_float"]

BIG_INTS = [2 ** 53 + 1, -(2 ** 53) - 1, 2 ** 63, 2 ** 63 - 1, 2 ** 64 + 1, -(2 ** 64) - 3, 10 ** 20 + 7]
TINY = [1e-9, -1e-9, 1e-12, 3e-17, 1e-300, 5e-324]

# binary fractions: exactly representable in every float type down to float16, so that a value means the same
# number in every spelling
_QUARTERS = [x / 4 for x in range(-12, 13) if x]


def is_number(p):
    """a numeric parameter: any numbers.Number that is neither a bool nor a sympy object"""
    return isinstance(p, numbers.Number) and not isinstance(p, (bool, sympy.Basic))


def is_builtin_number(p):
    return type(p) in (int, float, complex)


def is_exotic(p):
    """a number of a type other than exactly int / float / complex (and not sympy's)"""
    return is_number(p) and not is_builtin_number(p)


def is_numpy(p):
    return isinstance(p, np.generic)


def is_real_number(p):
    if isinstance(p, (numbers.Real, decimal.Decimal)):
        return True
    try:
        return complex(p).imag == 0
    except Exception:
        return False


def rand_number(rng, kinds=None, kind=None):
    """one number; kinds: list of kind names to draw from (default REAL_KINDS)"""
    kind = kind or rng.choice(kinds or REAL_KINDS)
    if kind == "fraction":
        return fractions.Fraction(rng.randint(-9, 9), rng.choice([2, 3, 3, 7, 16]))
    if kind == "fraction_whole":  # equal to an int under == and hash
        return fractions.Fraction(rng.randint(-5, 5))
    if kind == "decimal":
        return decimal.Decimal(str(rng.choice(_QUARTERS)))
    if kind == "mpf":
        return mpmath.mpf(rng.choice(_QUARTERS))
    if kind == "np_int":
        t = rng.choice(NP_INTS)
        return t(rng.randint(0, 9) if np.dtype(t).kind == "u" else rng.randint(-9, 9))
    if kind == "np_float":
        return rng.choice(NP_FLOATS)(rng.choice(_QUARTERS))
    if kind == "int_subclass":
        return AngleInt(rng.randint(-9, 9))
    if kind == "float_subclass":
        return AngleFloat(rng.choice(_QUARTERS))
    if kind == "complex":
        return complex(rng.choice(_QUARTERS), rng.choice(_QUARTERS))
    if kind == "complex_real":
        return complex(rng.choice(_QUARTERS), 0.0)
    if kind == "np_complex":
        return rng.choice(NP_COMPLEX)(complex(rng.choice(_QUARTERS), rng.choice(_QUARTERS)))
    if kind == "mpc":
        return mpmath.mpc(rng.choice(_QUARTERS), rng.choice(_QUARTERS))
    if kind == "big_int":
        return rng.choice(BIG_INTS)
    if kind == "big_fraction":
        return fractions.Fraction(rng.choice(BIG_INTS), rng.choice([3, 7, 2 ** 40 + 1]))
    if kind == "big_np_int":
        return rng.choice([np.int64(2 ** 62 + 1), np.uint64(2 ** 64 - 1), np.int64(-(2 ** 63)), np.int64(2 ** 53 + 1)])
    if kind == "tiny":
        return rng.choice(TINY)
    if kind == "tiny_fraction":
        return fractions.Fraction(rng.choice([1, -1, 3]), 10 ** rng.choice([9, 12, 30]))
    if kind == "huge_float":
        return rng.choice([1e22, -1e22, 2.0 ** 53, 1.7976931348623157e308])
    raise ValueError(kind)


def to_sympy(p):
    """exact sympy value of a number of any of the types above (never through sympify)"""
    if isinstance(p, sympy.Basic):
        return p
    if isinstance(p, bool):
        raise TypeError("bool is not a parameter")
    if isinstance(p, (int, np.integer)):
        return sympy.Integer(int(p))
    if isinstance(p, fractions.Fraction):
        return sympy.Rational(p.numerator, p.denominator)
    if isinstance(p, decimal.Decimal):
        n, d = p.as_integer_ratio()
        return sympy.Rational(n, d)
    if isinstance(p, (float, np.floating)):
        f = float(p)
        return sympy.Float(f) if math.isfinite(f) else sympy.sympify(f)
    if isinstance(p, mpmath.mpf):
        return sympy.Float(float(p))
    if isinstance(p, numbers.Real):
        return sympy.Float(float(p))
    z = complex(p)
    return sympy.Float(z.real) + sympy.Float(z.imag) * sympy.I


def twin(rng, p):
    """the same value as a number of another type (collides under == and hash where the value is whole),
    or p itself when it has none"""
    if not is_number(p) or not is_real_number(p):
        return p
    try:
        f = fractions.Fraction(p) if not isinstance(p, (mpmath.mpf, np.generic)) else fractions.Fraction(float(p))
    except (TypeError, ValueError, OverflowError):
        return p
    cands = []
    if f.denominator == 1:
        i = int(f)
        cands += [i, AngleInt(i), fractions.Fraction(i), sympy.Integer(i)]
        if abs(i) < 2 ** 53:
            cands += [float(i)]
        if abs(i) < 100:
            cands += [np.int64(i), np.int8(i)]
    else:
        cands += [f, sympy.Rational(f.numerator, f.denominator)]
        if f.denominator & (f.denominator - 1) == 0 and f.denominator <= 1024 and abs(f) < 1000:  # exact float
            cands += [float(f), AngleFloat(float(f)), np.float64(float(f)), np.float32(float(f))]
    cands = [c for c in cands if type(c) is not type(p)]
    return rng.choice(cands) if cands else p
