"""Seeded generator for C13: "crowded" distributions x shot numbers.

Many outcomes (2 ... 80, including 8/9, 16/17, 32/33, 64/65; widths up to 7;
mostly 8 ... 24)
whose proportional shares are small (integer part 0-3) and whose fractional
parts lie on one side of one half, so that after rounding SEVERAL shots have
to be taken away (or added) and only a few copies of every outcome exist.
The correction step of a representing-measurements routine then regularly
 * draws the same outcome more than once,
 * asks for more copies of several different outcomes than exist, within one
   pass over its draw,
 * asks for copies of outcomes that have none at all (share below one half),
 * has to re-draw more than once.
Pure Python; nothing from the library is imported.
"""
SIZES = [2, 3, 5, 7, 8, 8, 9, 9, 10, 12, 15, 16, 16, 17, 17, 20, 24]
LARGE = [31, 32, 33, 48, 63, 64, 65, 80]  # one case in eight: the cost of a case grows with the number of outcomes
UNIT = 1000  # shares are handled as whole thousandths of a shot


def crowded_distribution(rng, branch=None):
    """-> (style, {bitstring: probability}, shots).  ``branch``: 'eliminate'
    (every small share rounds up), 'eliminate_mixed' (some small shares are
    below one half: no copy, but drawn for elimination), 'add' (every small
    share rounds down)."""
    branch = branch or rng.choice(["eliminate", "eliminate", "eliminate_mixed", "add"])
    k = rng.choice(LARGE + [rng.randint(25, 80)]) if rng.random() < 0.125 else rng.choice(SIZES + [rng.randint(2, 24)])
    n_heavy = rng.choice([0, 1, 1, 1, 2, 3])
    wmin = max(1, (k + n_heavy - 1).bit_length())
    w = rng.randint(wmin, max(wmin, 7))
    keys = rng.sample(range(2 ** w), k + n_heavy)

    depth = rng.choice(["single", "single", "few", "few", "uniform2"])  # copies per small outcome
    spread = rng.choice(["same", "near-half", "near-half", "wide"])
    same_f = 10 * rng.randint(52, 90)

    def frac_up():
        if spread == "same":
            return same_f
        return rng.randint(510, 650 if spread == "near-half" else 950)

    def frac_down():
        if spread == "same":
            return UNIT - same_f
        return rng.randint(350 if spread == "near-half" else 50, 490)

    def whole():
        return UNIT * (0 if depth == "single" else 2 if depth == "uniform2" else rng.choice([0, 0, 1, 1, 2, 3]))

    if branch == "add":
        shares = [whole() + frac_down() for _ in range(k)]
    elif branch == "eliminate":
        shares = [whole() + frac_up() for _ in range(k)]
    else:
        ghosts = rng.randint(1, max(1, k // 3))
        shares = [frac_down() for _ in range(ghosts)] + [whole() + frac_up() for _ in range(k - ghosts)]
        rng.shuffle(shares)

    total = sum(shares)
    n = -(-total // UNIT) + rng.choice([0, 0, 1, rng.randint(0, 40), rng.randint(0, 400)])
    rest = n * UNIT - total  # >= 0, goes to the heavy outcomes
    if n_heavy == 0:
        shares[-1] += rest  # nothing else to absorb the remainder: the last small outcome takes it
    else:
        heavy = []
        for _ in range(n_heavy - 1):
            part = UNIT * rng.randint(0, rest // UNIT)  # whole shots: no say in the correction step
            heavy.append(part)
            rest -= part
        heavy.append(rest)
        rng.shuffle(heavy)
        shares += heavy
    scale = n * UNIT
    d = {format(x, f"0{w}b"): s / scale for x, s in zip(keys, shares)}
    return f"{branch}/{depth}/{spread}/k={k}+{n_heavy}", d, n
