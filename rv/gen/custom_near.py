"""Custom gates at the edges of the structure tests a gate library is tempted to make.

``near_structured_gate``: matrices that MISS being Hermitian / the identity / diagonal / real / an involution by
1e-13 .. 1e-6 - far below any "close enough" tolerance, far above rounding: a shortcut that recognises structure
with a tolerance (self-adjoint => dagger is the gate itself, identity => drop it, real => skip the conjugation,
diagonal => entry-wise power) answers for the structured neighbour instead of the gate it was given.

``spelled_entries_gate``: matrices whose non-real entries are exact numbers that are NOT written with the imaginary
unit: (-1)**(1/4), 2*(-1)**(1/3), root(-1, 5)**3, acos(2), a parametric entry (-1)**t at an exact rational t, next
to the usual spellings (I, exp(I*pi/7), Python complex, sqrt(-3)).  Conjugation, evaluation and comparison
shortcuts that look for the symbol I miss them.

Both return (gate, description, info) with info["flavor"], info["route"].
"""
import math

import numpy as np
import sympy

EPS = [1e-13, 1e-12, 1e-11, 1e-10, 1e-9, 2e-9, 5e-9, 1e-8, 3e-8, 1e-7, 1e-6]
NEAR_FLAVORS = ["hermitian", "identity", "diagonal", "real", "involution", "symmetric", "unitary-scale"]


def _c(z):
    return complex(z)


def _sym(M):
    d = M.shape[0]
    return sympy.Matrix([[_c(M[i, j]) for j in range(d)] for i in range(d)])


def _rand_unitary(nprng, d):
    Z = nprng.normal(size=(d, d)) + 1j * nprng.normal(size=(d, d))
    Q, R = np.linalg.qr(Z)
    return Q * (np.diag(R) / np.abs(np.diag(R)))


def near_structured_gate(rng, nprng, nq, name, flavor=None):
    from orquestra.quantum.circuits import CustomGateDefinition

    d = 2**nq
    flavor = flavor or rng.choice(NEAR_FLAVORS)
    eps = rng.choice(EPS)
    route = rng.choice(["numeric", "numeric", "param"]) if nq == 1 else "numeric"
    if route == "param":
        t = sympy.Symbol("t")
        I = sympy.I
        shapes = {
            # at t = eps each of these is eps away from a structured matrix
            "hermitian": sympy.Matrix([[0, sympy.exp(I * t)], [sympy.exp(I * t), 0]]),       # X, adjoint differs by 2 t
            "identity": sympy.Matrix([[sympy.cos(t / 2), -I * sympy.sin(t / 2)], [-I * sympy.sin(t / 2), sympy.cos(t / 2)]]),
            "diagonal": sympy.Matrix([[sympy.cos(t), -sympy.sin(t)], [sympy.sin(t), sympy.cos(t)]]) * sympy.Matrix([[1, 0], [0, I]]),
            "real": sympy.Matrix([[sympy.cos(1), -sympy.sin(1) * sympy.exp(I * t)], [sympy.sin(1) * sympy.exp(-I * t), sympy.cos(1)]]),
            "involution": sympy.Matrix([[sympy.cos(t), sympy.sin(t)], [sympy.sin(t), -sympy.cos(t)]]) * sympy.Matrix([[1, 0], [0, sympy.exp(I * t)]]),
            "symmetric": sympy.Matrix([[1, 0], [0, sympy.exp(I * t)]]),
            "unitary-scale": sympy.Matrix([[0, 1 + t], [1, 0]]),
        }
        M = shapes[flavor]
        val = rng.choice([eps, -eps, eps, sympy.Float(eps), sympy.Rational(eps).limit_denominator(10**15)])
        g = CustomGateDefinition(gate_name=name, matrix=M, params_ordering=(t,))(val)
        return g, f"near-{flavor}[param t={val!r}]", {"flavor": flavor, "route": "param", "eps": eps}
    # numeric route: structured base + a perturbation of size eps that breaks exactly that structure
    U = _rand_unitary(nprng, d)
    if flavor == "hermitian":
        signs = np.array([1.0] + [rng.choice([1.0, -1.0]) for _ in range(d - 2)] + [-1.0])
        B = U @ np.diag(signs) @ U.conj().T
        K = nprng.normal(size=(d, d)) + 1j * nprng.normal(size=(d, d))
        M = B + eps * (K - K.conj().T) / 2          # anti-Hermitian part of size eps
    elif flavor == "identity":
        K = nprng.normal(size=(d, d)) + 1j * nprng.normal(size=(d, d))
        M = np.eye(d) + 1j * eps * (K + K.conj().T) / 2
    elif flavor == "diagonal":
        M = np.diag(np.exp(1j * nprng.uniform(-3, 3, size=d))).astype(complex)
        i, j = rng.sample(range(d), 2)
        M[i, j] += eps * complex(nprng.normal(), nprng.normal())
    elif flavor == "real":
        O, _ = np.linalg.qr(nprng.normal(size=(d, d)))
        M = O.astype(complex)
        i, j = rng.randrange(d), rng.randrange(d)
        M[i, j] += 1j * eps
    elif flavor == "involution":
        P = np.eye(d)[list(reversed(range(d)))].astype(complex)   # a permutation involution
        M = P.copy()
        M[0, d - 1] *= np.exp(1j * eps)                            # P^2 = I only up to eps
    elif flavor == "symmetric":
        O, _ = np.linalg.qr(nprng.normal(size=(d, d)))
        M = O @ np.diag(np.exp(1j * nprng.uniform(-3, 3, size=d))) @ O.T
        i, j = rng.sample(range(d), 2)
        M[i, j] += eps
    else:  # unitary up to a factor 1 + eps
        M = U * (1 + eps)
    g = CustomGateDefinition(gate_name=name, matrix=_sym(M), params_ordering=())()
    return g, f"near-{flavor}[numeric eps={eps:g}]", {"flavor": flavor, "route": "numeric", "eps": eps}


def _unit_numbers(rng):
    """exact numbers of modulus 1 (or not), in spellings with and without the imaginary unit: (value, label)"""
    R = sympy.Rational
    p, q = rng.choice([(1, 4), (1, 3), (2, 3), (3, 4), (1, 5), (3, 5), (1, 6), (5, 6), (1, 8), (3, 8), (1, 2), (7, 5)])
    n = rng.choice([3, 4, 5, 6, 8])
    k = rng.randint(1, 2 * n - 1)
    pool = [
        (sympy.Integer(-1) ** R(p, q), f"(-1)**({p}/{q})"),
        (sympy.Integer(-1) ** R(p, q), f"(-1)**({p}/{q})"),
        (sympy.root(-1, n) ** k, f"root(-1,{n})**{k}"),
        (sympy.Integer(-8) ** R(1, 3) / 2, "(-8)**(1/3)/2"),
        (sympy.Integer(-4) ** R(1, 4) / sympy.sqrt(2), "(-4)**(1/4)/sqrt(2)"),
        (sympy.exp(sympy.I * sympy.pi * R(p, q)), f"exp(I*pi*{p}/{q})"),
        (sympy.I, "I"),
        (-sympy.I, "-I"),
        (sympy.sqrt(-3) / 2 + R(1, 2), "sqrt(-3)/2+1/2"),
        (complex(math.cos(p / q), math.sin(p / q)), f"complex(cis({p}/{q}))"),
        (sympy.Float(math.cos(k)) + sympy.I * sympy.Float(math.sin(k)), f"Float cis({k})"),
        (sympy.cos(R(p, q)) + sympy.I * sympy.sin(R(p, q)), f"cos({p}/{q})+I*sin({p}/{q})"),
        (sympy.Integer(-1) ** R(-p, q), f"(-1)**(-{p}/{q})"),
        (sympy.acos(2) / sympy.Abs(sympy.acos(2)), "acos(2)/|acos(2)|"),
    ]
    return rng.choice(pool)


def spelled_entries_gate(rng, nq, name):
    from orquestra.quantum.circuits import CustomGateDefinition

    d = 2**nq
    kind = rng.choice(["diag", "diag", "phaseperm", "param-root", "param-root", "dense1q"])
    if kind == "param-root":
        t, s = sympy.symbols("t s")
        M = sympy.eye(d)
        M[d - 1, d - 1] = sympy.Integer(-1) ** t
        two = rng.random() < 0.4
        if two:
            M[0, 0] = sympy.Integer(-1) ** s
        p, q = rng.choice([(1, 4), (1, 3), (2, 3), (3, 4), (1, 5), (5, 6), (1, 8), (-1, 4), (7, 3)])
        vals = [rng.choice([sympy.Rational(p, q), sympy.Rational(p, q), sympy.Rational(-p, q)])]
        if two:
            vals.append(sympy.Rational(rng.choice([1, 2, 3, 5]), rng.choice([3, 4, 7])))
        g = CustomGateDefinition(gate_name=name, matrix=M, params_ordering=(t, s) if two else (t,))(*vals)
        return g, f"spelled[(-1)**t at t={vals}]", {"flavor": "param-root", "route": "param"}
    labels = []
    if kind == "diag":
        M = sympy.zeros(d, d)
        for i in range(d):
            v, lab = _unit_numbers(rng) if rng.random() < 0.8 else (sympy.Integer(1), "1")
            M[i, i] = v
            labels.append(lab)
    elif kind == "phaseperm":
        perm = list(range(d))
        rng.shuffle(perm)
        M = sympy.zeros(d, d)
        for i, j in enumerate(perm):
            v, lab = _unit_numbers(rng)
            M[i, j] = v
            labels.append(lab)
    else:
        # a dense 2x2 unitary [[a, -conj(b)], [b, conj(a)]] * phase, a and b exact with |a|^2 + |b|^2 = 1
        u, lu = _unit_numbers(rng)
        w, lw = _unit_numbers(rng)
        a, b = sympy.Rational(3, 5) * u, sympy.Rational(4, 5) * w
        M = sympy.Matrix([[a, -sympy.conjugate(b)], [b, sympy.conjugate(a)]])
        if d > 2:
            M = sympy.diag(M, *[1] * (d - 2))
        labels = [lu, lw]
    g = CustomGateDefinition(gate_name=name, matrix=M, params_ordering=())()
    return g, f"spelled[{kind}: {', '.join(labels)}]", {"flavor": kind, "route": "numeric"}
