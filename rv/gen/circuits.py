"""Seeded generators of gates, modifier chains, custom gates and circuits.

Parameters are Python int/float or sympy objects only: numpy scalars cannot be
ingested by the pinned sympy 1.9 (environment, see DESIGN.md section 2).
"""
import inspect
import math

import numpy as np
import sympy

from ..ref import linalg as L

SPECIAL_ANGLES = [0.0, math.pi / 4, -math.pi / 4, math.pi / 2, -math.pi / 2, math.pi, -math.pi,
                  2 * math.pi, -2 * math.pi, 4 * math.pi, 1e-9, 1.0, -3.0, 7]

_TABLE = None


def builtin_table():
    """name -> dict(kind='fixed'|'param', nq, nparams, hermitian, ref) enumerated from
    the library's own gate table, so a new entry is picked up automatically.

    Nothing private is relied upon: fixed gates are the module-level gate objects of the built-in gate module,
    parametric gates are its module-level callables that hand back such a gate object when called with some number
    (1..4) of real parameters; the number of parameters is found by calling."""
    global _TABLE
    if _TABLE is not None:
        return _TABLE
    from orquestra.quantum.circuits import _builtin_gates as B
    from orquestra.quantum.circuits import _gates as G

    t = {}
    for name, obj in vars(B).items():
        if name.startswith("_"):
            continue
        if isinstance(obj, G.MatrixFactoryGate):
            t[name] = dict(kind="fixed", nq=obj.num_qubits, nparams=0, hermitian=obj.is_hermitian, ref=obj)
        elif callable(obj) and not isinstance(obj, type) and getattr(obj, "__module__", None) == B.__name__:
            for k in (1, 2, 3, 4):
                try:
                    g = obj(*[0.25 * (i + 1) for i in range(k)])
                    if not isinstance(g, G.MatrixFactoryGate) or len(g.params) != k:
                        continue
                    g.matrix  # a wrong parameter count shows at the latest here
                except Exception:
                    continue
                if name in t:
                    # the same gate also takes more parameters (optional ones): every accepted count is a way
                    # of giving "its parameters"
                    t[name]["arities"].append(k)
                    continue
                t[name] = dict(kind="param", nq=g.num_qubits, hermitian=g.is_hermitian, ref=obj, nparams=k,
                               arities=[k])
    _TABLE = t
    return t


def def_width(d):
    """number of qubits a custom gate definition acts on, from its PUBLIC matrix (not from a private field)"""
    return int(d.matrix.shape[0]).bit_length() - 1


def to_np(M):
    """numeric sympy Matrix -> complex ndarray (own conversion)"""
    if isinstance(M, np.ndarray):
        return M.astype(complex)

    def num(e):
        # numbers as they are; an UNEVALUATED exact entry (exp(I*r) at a rational r of 1e12, sqrt(2)/2, cos(1/3)) is
        # evaluated at 30 digits before it is rounded to a double: sympy's default 15-digit evalf reduces a large
        # exact argument too coarsely (exp(I*p/q) near 5e11 comes out 3.7e-9 off, while 20 digits and more agree with
        # mpmath) - that would be this conversion's error, not the library's (thorough-tier false alarm, DESIGN 9.19)
        if isinstance(e, (int, float, complex)):
            return complex(e)
        if getattr(e, "is_Number", False):
            return complex(e)
        return complex(sympy.N(e, 30))

    try:
        return np.array([[num(e) for e in row] for row in M.tolist()], dtype=complex)
    except (TypeError, ValueError):
        return np.array([[complex(sympy.N(e)) for e in row] for row in M.tolist()], dtype=complex)


def rand_angle(rng, special=0.3):
    r = rng.random()
    if r < special:
        return rng.choice(SPECIAL_ANGLES)
    if r < special + 0.12:
        # an angle that MISSES a special one (0, a multiple of pi/2) by 1e-7 .. 1e-3: far more than any tolerance a
        # comparison here grants, and close enough for an "is this the identity / diagonal / self-adjoint?" test with
        # numpy's default tolerances (1e-5 relative, 1e-8 absolute) to answer yes
        base = rng.choice([0.0, 0.0, 0.0, math.pi / 2, -math.pi / 2, math.pi, -math.pi, 2 * math.pi])
        return base + rng.choice([-1, 1]) * rng.uniform(1, 9) * 10.0 ** rng.choice([-3, -4, -5, -6, -7])
    return rng.uniform(-2 * math.pi, 2 * math.pi)


SYMBOL_POOL = ["theta", "phi", "alpha", "beta_1", "beta_10", "gamma", "x", "y", "lambda_", "t0"]


def rand_symbol(rng, pool=None):
    return sympy.Symbol(rng.choice(pool or SYMBOL_POOL))


def rand_expr(rng, symbols, depth=2):
    """random real-valued sympy expression over ``symbols``"""
    if depth == 0 or rng.random() < 0.3:
        r = rng.random()
        if r < 0.6:
            return rng.choice(symbols)
        if r < 0.8:
            return sympy.Integer(rng.randint(-3, 3))
        return sympy.Float(round(rng.uniform(-2, 2), 3))
    op = rng.choice(["add", "mul", "sub", "scale", "sin", "cos", "half", "neg"])
    a = rand_expr(rng, symbols, depth - 1)
    if op in ("add", "mul", "sub"):
        b = rand_expr(rng, symbols, depth - 1)
        return a + b if op == "add" else a * b if op == "mul" else a - b
    if op == "scale":
        return rng.choice([2, 3, sympy.Rational(1, 2), 0.5, -1.5]) * a
    if op == "sin":
        return sympy.sin(a)
    if op == "cos":
        return sympy.cos(a)
    if op == "half":
        return a / 2
    return -a


def rand_builtin(rng, max_nq=2, names=None, symbolic=False, symbols=None, allow_u3=True, special=0.3):
    """returns (gate, desc)"""
    tab = builtin_table()
    cands = [n for n, e in tab.items() if e["nq"] <= max_nq and (names is None or n in names)]
    if not allow_u3:
        cands = [n for n in cands if n != "U3"]
    name = rng.choice(sorted(cands))
    e = tab[name]
    if e["kind"] == "fixed":
        return e["ref"], name
    params = []
    for _ in range(e["nparams"]):
        if symbolic:
            syms = symbols or [sympy.Symbol(s) for s in SYMBOL_POOL[:4]]
            params.append(rng.choice(syms) if rng.random() < 0.6 else rand_expr(rng, syms, 1))
        else:
            a = rand_angle(rng, special)
            params.append(a)
    return e["ref"](*params), f"{name}({', '.join(map(str, params))})"


def numeric_custom_def(rng, nprng, nq, name):
    """custom gate definition with a random unitary numeric matrix"""
    from orquestra.quantum.circuits import CustomGateDefinition

    U = L.random_unitary(nprng, 2**nq)
    M = sympy.Matrix([[complex(round(U[i, j].real, 12), round(U[i, j].imag, 12)) for j in range(2**nq)]
                      for i in range(2**nq)])
    return CustomGateDefinition(gate_name=name, matrix=M, params_ordering=())


def symbolic_custom_def(rng, nq, name, nparams):
    """custom gate with a symbolic (not necessarily unitary... kept unitary) matrix:
    diag phases / rotations built from its parameter symbols"""
    from orquestra.quantum.circuits import CustomGateDefinition

    syms = tuple(sympy.Symbol(s) for s in rng.sample(["a", "b", "c", "omega", "kappa"], nparams))
    if nq == 1:
        th = syms[0]
        ph = syms[1] if nparams > 1 else 0
        lam = syms[2] if nparams > 2 else 0
        M = sympy.Matrix([
            [sympy.cos(th / 2), -sympy.exp(sympy.I * lam) * sympy.sin(th / 2)],
            [sympy.exp(sympy.I * ph) * sympy.sin(th / 2), sympy.exp(sympy.I * (ph + lam)) * sympy.cos(th / 2)],
        ])
    else:
        d = 2**nq
        M = sympy.zeros(d, d)
        for i in range(d):
            s = syms[i % nparams]
            M[i, i] = sympy.exp(sympy.I * s * (i + 1))
        # entangle a little: swap two basis states
        if rng.random() < 0.5:
            M.row_swap(1, 2)
    return CustomGateDefinition(gate_name=name, matrix=M, params_ordering=syms)


def rand_qubits(rng, k, n):
    return tuple(rng.sample(range(n), k))


def is_ascending_adjacent(qs):
    return all(b == a + 1 for a, b in zip(qs, qs[1:]))


MODS = ["dagger", "controlled", "power_int", "power_frac", "exp"]


def apply_modifier(gate, mod):
    kind = mod[0]
    if kind == "dagger":
        return gate.dagger
    if kind == "controlled":
        return gate.controlled(mod[1])
    if kind in ("power_int", "power_frac", "power"):
        return gate.power(mod[1])
    if kind == "exp":
        return gate.exp
    raise ValueError(mod)


def rand_modifier(rng, allow=MODS, max_controls=2):
    kind = rng.choice(allow)
    if kind == "dagger":
        return ("dagger",)
    if kind == "controlled":
        return ("controlled", rng.randint(1, max_controls))
    if kind == "power_int":
        return ("power_int", rng.choice([-3, -2, -1, 0, 1, 2, 3]))
    if kind == "power_frac":
        q = rng.choice([2, 3, 4])
        return ("power_frac", 1 / q, q)
    return ("exp",)


def mod_str(mods):
    return ".".join(m[0] + (f"[{m[1]}]" if len(m) > 1 else "") for m in mods)


# --------------------------------------------------------------------------- gates / circuits
EXP_SAFE_1Q = ["X", "Y", "Z", "H", "I", "S", "RX", "RY", "PHASE", "GPi", "GPi2", "RH"]  # T.exp / RZ(a).exp never return


def rand_base_gate(rng, nprng, max_nq, *, symbolic=False, symbols=None, custom=0.15, allow_u3=True,
                   special=0.3, names=None):
    """built-in or custom gate acting on <= max_nq qubits; returns (gate, desc).
    symbolic=True: every returned gate has at least one free symbol."""
    tab = builtin_table()
    if rng.random() < custom:
        nq = rng.randint(1, min(max_nq, 2 if symbolic else 3))
        cname = rng.choice(["MyGate", "V", "Uc", "custom_a"]) + f"_{rng.randint(0, 99999)}_{nq}q"
        if symbolic:
            npar = rng.randint(1, 2)
            d = symbolic_custom_def(rng, nq, cname + f"p{npar}", npar)
            syms = symbols or [sympy.Symbol(s) for s in SYMBOL_POOL[:4]]
            args = [rng.choice(syms) if rng.random() < 0.7 else rand_expr(rng, syms, 1) for _ in range(npar)]
            if not any(getattr(a, "free_symbols", None) for a in args):
                args[0] = rng.choice(syms)
            return d(*args), f"{d.gate_name}({', '.join(map(str, args))})"
        d = numeric_custom_def(rng, nprng, nq, cname)
        return d(), f"{cname}<random unitary {nq}q>"
    if symbolic:
        cands = sorted(n for n, e in tab.items() if e["kind"] == "param" and e["nq"] <= max_nq
                       and (allow_u3 or n != "U3") and (names is None or n in names))
        name = rng.choice(cands)
        e = tab[name]
        syms = symbols or [sympy.Symbol(s) for s in SYMBOL_POOL[:4]]
        params = [rng.choice(syms) if rng.random() < 0.6 else rand_expr(rng, syms, 1) for _ in range(e["nparams"])]
        if not any(getattr(p, "free_symbols", None) for p in params):
            params[0] = rng.choice(syms)
        return e["ref"](*params), f"{name}({', '.join(map(str, params))})"
    return rand_builtin(rng, max_nq=max_nq, allow_u3=allow_u3, special=special, names=names)


def rand_gate(rng, nprng, max_nq, *, symbolic=False, symbols=None, wrap=0.35, unitary_only=True,
              allow_u3=True, custom=0.15, max_depth=2):
    """possibly wrapped gate on <= max_nq qubits; returns (gate, desc).
    Wrappers: controlled(k), dagger, integer power (numeric gates only), exp
    (numeric 1-qubit gates from EXP_SAFE_1Q, only if not unitary_only)."""
    depth = 0
    while depth < max_depth and rng.random() < wrap:
        depth += 1
    n_ctrl_budget = 0
    mods = []
    for _ in range(depth):
        kinds = ["dagger", "controlled"]
        if not symbolic:
            kinds.append("power_int")
            if not unitary_only:
                kinds.append("exp")
        k = rng.choice(kinds)
        if k == "controlled":
            if max_nq - n_ctrl_budget <= 1:
                k = "dagger"
            else:
                c = rng.randint(1, min(2, max_nq - n_ctrl_budget - 1))
                n_ctrl_budget += c
                mods.append(("controlled", c))
                continue
        if k == "dagger":
            mods.append(("dagger",))
        elif k == "power_int":
            mods.append(("power_int", rng.choice([-2, -1, 0, 2, 3])))
        elif k == "exp":
            mods.append(("exp",))
    base_max = max_nq - n_ctrl_budget
    has_exp = any(m[0] == "exp" for m in mods)
    if has_exp:
        # exp of anything but a plain safe 1-qubit gate can hang inside sympy
        mods = [m for m in mods if m[0] in ("exp", "dagger")][:2]
        mods = [("exp",)] + [m for m in mods if m[0] == "dagger"][:1]
        g, d = rand_base_gate(rng, nprng, 1, custom=0, allow_u3=False, names=EXP_SAFE_1Q)
    else:
        g, d = rand_base_gate(rng, nprng, base_max, symbolic=symbolic, symbols=symbols, custom=custom,
                              allow_u3=allow_u3)
    if "random unitary 3q" in d:
        # inverse of a dense 8x8 float matrix takes seconds in sympy
        mods = [("power_int", abs(m[1])) if m[0] == "power_int" else m for m in mods]
    for m in mods:
        g = apply_modifier(g, m)
    if mods:
        d = f"{d}.{mod_str(mods)}"
    return g, d


def rand_circuit(rng, nprng, n, length, *, symbolic=False, symbols=None, unitary_only=True, allow_u3=True,
                 wrap=0.35, custom=0.15, n_qubits_explicit=None, max_gate_nq=3):
    """random circuit of gate operations on ``n`` qubits; returns (circuit, desc, info)
    info: dict(nonadjacent=bool, idle=bool, n_ops=int)"""
    from orquestra.quantum.circuits import Circuit

    ops = []
    descs = []
    nonadj = False
    for _ in range(length):
        g, d = rand_gate(rng, nprng, min(n, max_gate_nq), symbolic=symbolic, symbols=symbols, wrap=wrap,
                         unitary_only=unitary_only, allow_u3=allow_u3, custom=custom)
        qs = rand_qubits(rng, g.num_qubits, n)
        if len(qs) >= 2 and not is_ascending_adjacent(qs):
            nonadj = True
        ops.append(g(*qs))
        descs.append(f"{d}@{','.join(map(str, qs))}")
    used = {q for op in ops for q in op.qubit_indices}
    if n_qubits_explicit is None:
        n_qubits_explicit = rng.random() < 0.6
    c = Circuit(ops, n_qubits=n) if n_qubits_explicit else Circuit(ops)
    idle = c.n_qubits > len(used)
    return c, f"n={c.n_qubits} [" + "; ".join(descs) + "]", dict(nonadjacent=nonadj, idle=idle, n_ops=len(ops))


def gate_np(gate, assignment=None):
    """the gate's own matrix as a complex ndarray (free symbols substituted from
    ``assignment``: dict symbol -> number)"""
    M = gate.matrix
    if assignment and getattr(M, "free_symbols", None):
        M = M.subs(assignment)
    return to_np(M)


def ref_unitary(circuit, assignment=None, n=None):
    """Reference: product in program order of every gate's OWN matrix embedded by
    bit arithmetic (ref.linalg.embed)."""
    n = circuit.n_qubits if n is None else n
    U = np.eye(2**n, dtype=complex)
    for op in circuit.operations:
        U = L.embed(gate_np(op.gate, assignment), tuple(op.qubit_indices), n) @ U
    return U


def rand_assignment(rng, symbols):
    return {s: round(rng.uniform(-3, 3), 6) for s in symbols}


def has_numpy_params(gate):
    """gate parameters given as numpy scalars / arrays: the pinned sympy 1.9 cannot ingest numpy>=2 scalars,
    so such gates cannot be evaluated in this environment (DESIGN.md section 2) - monitors treat them as
    out of their domain"""
    try:
        return any(isinstance(p, (np.generic, np.ndarray)) for p in gate.params)
    except Exception:
        return True


def structured_custom_def(rng, nprng, nq, name, flavor=None):
    """numeric custom gate with a STRUCTURED unitary matrix (dense random unitaries never hit code paths that
    test for symmetry / hermiticity / diagonality): returns (definition, flavor)
    flavors: diagonal phases, complex symmetric (U = O D O^T), hermitian unitary (reflection), real orthogonal,
    phase-permutation"""
    from orquestra.quantum.circuits import CustomGateDefinition

    d = 2**nq
    flavor = flavor or rng.choice(["diag", "symmetric", "hermitian", "orthogonal", "phaseperm"])
    if flavor == "diag":
        U = np.diag(np.exp(1j * nprng.uniform(-3, 3, size=d)))
    elif flavor in ("symmetric", "orthogonal", "hermitian"):
        O, _ = np.linalg.qr(nprng.normal(size=(d, d)))
        if flavor == "orthogonal":
            U = O
        elif flavor == "symmetric":
            U = O @ np.diag(np.exp(1j * nprng.uniform(-3, 3, size=d))) @ O.T
        else:
            V = L.random_unitary(nprng, d)
            signs = np.array([1.0] + [rng.choice([1.0, -1.0]) for _ in range(d - 2)] + [-1.0])
            U = V @ np.diag(signs) @ V.conj().T
    else:
        perm = list(range(d))
        rng.shuffle(perm)
        U = np.zeros((d, d), dtype=complex)
        for i, j in enumerate(perm):
            U[i, j] = rng.choice([1, -1, 1j, -1j])
    M = sympy.Matrix([[complex(round(U[i, j].real, 12), round(U[i, j].imag, 12)) for j in range(d)] for i in range(d)])
    return CustomGateDefinition(gate_name=name, matrix=M, params_ordering=()), flavor
