"""Seeded generators of *histories* on measurement objects and on the
frequency / parity helpers (C10): query - change - query sequences on one
object, objects that share a list, copies, arguments and results changed by the
caller after the call, repeated helper calls whose arguments agree in everything
a careless key would look at (length, key set, shape, identity) but not in
content.  Pure Python: a history is a plan (nested tuples / lists of plain
values) that the property module executes; nothing from the library is imported.

Positions and lengths that depend on the state reached at run time are stored
as fractions / sub-seeds, so that the plan is a complete, canonical description
of the case before it runs.
"""
from .shots import rand_bits, rand_counts, rand_shots, rand_terms, rand_coeff, _support

OBJECT_INITS = ["list", "list", "list", "shared", "from_counts", "default_add", "np"]
MUTATIONS = ["replace_same", "replace_same", "items", "items", "slice_same", "source", "clear_add", "clear_add",
             "replace_new", "add_counts", "extend", "pop", "swap", "shuffle", "result", "arg", "copy"]
QUERIES = ["counts", "counts", "dist", "expect", "expect", "expect", "parities", "freq"]
COPY_KINDS = ["copy", "deepcopy", "alias_ctor", "list_ctor", "own_counts"]
MAX_OBJECTS = 4


def _pool(rng, width):
    """1-4 distinct outcomes with weights"""
    k = rng.randint(1, min(2 ** width, 4))
    pool = []
    while len(pool) < k:
        s = rand_bits(rng, width)
        if s not in pool:
            pool.append(s)
    return pool, [rng.choice([1, 1, 2, 5]) for _ in pool]


def _items(rng, width):
    return [(round(rng.random(), 4), rand_bits(rng, width)) for _ in range(rng.choice([1, 1, 2, 3, 8]))]


def _positive_counts(rng, width):
    c = {k: v for k, v in rand_counts(rng, width).items() if v}
    if not c or sum(c.values()) > 60:
        c = {"".join(map(str, rand_bits(rng, width))): rng.randint(1, 5)}
    return c


def operator_family(rng, width):
    """2-3 term lists of equal length: a base operator, the same supports with
    other coefficients, the same coefficients on other supports"""
    _style, base = rand_terms(rng, width)
    base = base[:5]
    same_supports = [(qs, rand_coeff(rng)) for qs, _ in base]
    same_coeffs = [(_support(rng, width) if qs else qs, c) for qs, c in base]
    fam = [base, same_supports]
    if rng.random() < 0.6:
        fam.append(same_coeffs)
    return fam


def _query(rng, j, n_ops, width):
    kind = rng.choice(QUERIES)
    if kind == "expect":
        return ("expect", j, rng.randrange(n_ops), rng.random() < 0.4, rng.random() < 0.4)  # op, bessel, fresh operator
    if kind == "parities":
        return ("parities", j, rng.randrange(n_ops))
    if kind == "freq":
        return ("freq", j, sorted(rng.sample(range(width), rng.randint(0, width))))
    return (kind, j)


def _mutation(rng, j, n_obj, width):
    kind = rng.choice(MUTATIONS)
    sub = rng.randrange(10 ** 6)
    if kind in ("replace_same", "slice_same"):
        return (kind, j, _pool(rng, width), sub)
    if kind == "clear_add":
        return (kind, j, _pool(rng, width), sub, rng.choice(["assign", "clear"]))
    if kind in ("items", "source"):
        return (kind, j, _items(rng, width))
    if kind == "replace_new":
        return (kind, j, rand_shots(rng, width, max_shots=40)[1])
    if kind == "add_counts":
        return (kind, j, _positive_counts(rng, width))
    if kind == "extend":
        return (kind, j, rand_shots(rng, width, max_shots=6)[1], rng.choice(["iadd", "extend", "append"]))
    if kind == "pop":
        return (kind, j, rng.randint(1, 5))
    if kind == "swap":
        return (kind, j, rng.randrange(n_obj))
    if kind == "shuffle":
        return (kind, j, sub)
    if kind == "copy":
        return (kind, j, rng.choice(COPY_KINDS))
    return (kind, j)  # result / arg


def rand_history(rng, width=None):
    """-> plan dict: width, objects [{init, shots}], ops [term lists], steps [tuples].
    Every history starts with a query on a focus object and alternates changes and
    queries, mostly on that object."""
    width = width or rng.choice([1, 2, 2, 3, 3, 4, 5, rng.randint(1, 8)])
    n_obj = rng.choice([1, 1, 2, 2, 3])
    objects = []
    for _ in range(n_obj):
        init = rng.choice(OBJECT_INITS)
        _style, shots = rand_shots(rng, width, max_shots=40)
        objects.append({"init": init, "shots": shots})
    ops = operator_family(rng, width)
    focus = rng.randrange(n_obj)
    steps = [_query(rng, focus, len(ops), width)]
    for _ in range(rng.randint(1, 4)):
        j = focus if rng.random() < 0.8 else rng.randrange(n_obj)
        mut = _mutation(rng, j, n_obj, width)
        steps.append(mut)
        if mut[0] == "copy" and n_obj < MAX_OBJECTS:
            new = n_obj
            n_obj += 1
            steps.append(("items", rng.choice([j, new]), _items(rng, width)))
            steps.append(_query(rng, j, len(ops), width))
            steps.append(_query(rng, new, len(ops), width))
            continue
        for _ in range(rng.choice([1, 1, 2])):
            steps.append(_query(rng, j if rng.random() < 0.85 else rng.randrange(n_obj), len(ops), width))
    return {"width": width, "objects": objects, "ops": ops, "steps": steps}


def history_is_nontrivial(plan):
    """some object is queried, then changed, then queried again, and the shots
    the history starts from contain >= 2 distinct outcomes"""
    if not any(len(set(o["shots"])) >= 2 for o in plan["objects"]):
        return False
    stage = {}
    for st in plan["steps"]:
        kind, j = st[0], st[1]
        if kind in ("counts", "dist", "expect", "parities", "freq"):
            if stage.get(j) == 2:
                return True
            stage[j] = max(stage.get(j, 0), 1)
        elif kind != "shuffle":
            touched = [j] + ([st[2]] if kind == "swap" else [])
            for t in touched:
                if stage.get(t) == 1:
                    stage[t] = 2
    return False


def describe_history(plan):
    objs = [(o["init"], len(o["shots"]), sorted(set(o["shots"]))[:6]) for o in plan["objects"]]
    return f"w={plan['width']} objects={objs!r} ops={plan['ops']!r} steps={plan['steps']!r}"


# ----------------------------------------------------------------------------- helper call sequences
def _vary_values(rng, freqs):
    """same key set, other multiplicities; half of the time a permutation (same total)"""
    keys = list(freqs)
    vals = list(freqs.values())
    if rng.random() < 0.5 and len(set(vals)) > 1:
        rng.shuffle(vals)
    else:
        vals = [rng.choice([1, 2, 3, rng.randint(1, 40)]) for _ in vals]
    return dict(zip(keys, vals))


def _vary_marked(rng, marked, width):
    r = rng.random()
    if r < 0.4:
        return list(marked)
    if r < 0.7:
        return sorted(rng.sample(range(width), len(marked)))
    return sorted(rng.sample(range(width), rng.randint(0, width)))


def rand_helper_history(rng, width=None):
    """-> plan dict {kind, width, calls: [...]}; each call says how its arguments
    are reached from the previous ones: 'inplace' (the same objects, modified) or
    'fresh' (new objects)."""
    width = width or rng.randint(1, 6)
    kind = rng.choice(["freq", "freq", "vector", "parities", "scalar"])
    n_calls = rng.randint(2, 5)
    calls = []
    if kind == "freq":
        _style, shots = rand_shots(rng, width, max_shots=60)
        freqs = {}
        for s in shots:
            k = "".join(map(str, s))
            freqs[k] = freqs.get(k, 0) + 1
        marked = sorted(rng.sample(range(width), rng.randint(0, width)))
        container = rng.choice(["list", "set", "tuple", "frozenset"])
        calls.append(("fresh", marked, dict(freqs)))
        for _ in range(n_calls - 1):
            r = rng.random()
            if r < 0.55:
                freqs = _vary_values(rng, freqs)
            elif r < 0.7:
                freqs = dict(freqs)
                extra = "".join(map(str, rand_bits(rng, width)))
                if extra in freqs and len(freqs) > 1:
                    del freqs[extra]
                else:
                    freqs[extra] = rng.randint(1, 9)
            if rng.random() < 0.4:
                marked = _vary_marked(rng, marked, width)
            calls.append((rng.choice(["inplace", "inplace", "fresh"]), marked, dict(freqs)))
        return {"kind": kind, "width": width, "container": container, "calls": calls}
    if kind == "vector":
        _style, rows = rand_shots(rng, width, max_shots=20)
        marked = sorted(rng.sample(range(width), rng.randint(0, width)))
        container = rng.choice(["list", "set", "tuple", "frozenset"])
        calls.append(("fresh", marked, list(rows)))
        for _ in range(n_calls - 1):
            if rng.random() < 0.7:
                rows = list(rows)
                for _ in range(rng.randint(1, max(1, len(rows) // 2))):
                    rows[rng.randrange(len(rows))] = rand_bits(rng, width)
            if rng.random() < 0.4:
                marked = _vary_marked(rng, marked, width)
            calls.append((rng.choice(["inplace", "inplace", "fresh"]), marked, list(rows)))
        return {"kind": kind, "width": width, "container": container,
                "dtype": rng.choice(["int", "int8", "uint8", "int64"]), "calls": calls}
    if kind == "parities":
        _style, shots = rand_shots(rng, width, max_shots=40)
        ops = operator_family(rng, width)
        k = 0
        calls.append(("fresh", k, list(shots)))
        for _ in range(n_calls - 1):
            if rng.random() < 0.7:
                shots = list(shots)
                for _ in range(rng.randint(1, max(1, len(shots) // 2))):
                    shots[rng.randrange(len(shots))] = rand_bits(rng, width)
            if rng.random() < 0.4:
                k = rng.randrange(len(ops))
            calls.append((rng.choice(["inplace", "inplace", "fresh"]), k, list(shots)))
        return {"kind": kind, "width": width, "ops": ops, "calls": calls}
    # scalar check_parity
    bits = rand_bits(rng, width)
    marked = sorted(rng.sample(range(width), rng.randint(0, width)))
    container = rng.choice(["list", "set", "tuple", "frozenset"])
    form = rng.choice(["list", "str", "tuple"])
    calls.append(("fresh", marked, bits))
    for _ in range(n_calls - 1):
        if rng.random() < 0.7:
            b = list(bits)
            for _ in range(rng.randint(1, width)):
                q = rng.randrange(width)
                b[q] = 1 - b[q]
            bits = tuple(b)
        if rng.random() < 0.4:
            marked = _vary_marked(rng, marked, width)
        calls.append((rng.choice(["inplace", "inplace", "fresh"]), marked, bits))
    return {"kind": kind, "width": width, "container": container, "form": form, "calls": calls}


def helper_history_is_nontrivial(plan):
    """two consecutive calls differ in content, and something is marked / the
    operator has >= 2 terms"""
    calls = plan["calls"]
    differs = any(a[1:] != b[1:] for a, b in zip(calls, calls[1:]))
    if plan["kind"] == "parities":
        return differs and len(plan["ops"][0]) >= 2 and len(set(calls[0][2])) >= 2
    return differs and any(c[1] for c in calls)
