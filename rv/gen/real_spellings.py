"""Seeded generators of REAL numbers in the many types a caller can hand to an API whose parameter type is
"a number" (``numbers.Number`` / sympy number): the same real value as Python int / float (and subclasses of
them), ``fractions.Fraction``, sympy ``Integer`` / ``Rational`` / ``Float`` (machine and extended precision) and
symbol-free real sympy constants, over magnitudes from 1e-30 to 2**500, including integers beyond 2**53, 2**63,
2**64.

Values are carried as exact ``fractions.Fraction`` so that sums can be formed without rounding; ``exact_of`` gives
back the exact real number a spelled parameter denotes (a float denotes its binary value).  Big values are
generated with at most 53 significant bits (m * 2**s), so that every spelling - also the ones that are binary
floating point, and code that does its arithmetic in the type it was handed - holds them exactly.

No numpy scalars: sympy 1.9 cannot ingest numpy >= 2 scalars (environment, DESIGN.md section 2).  No ``bool``,
no ``decimal.Decimal`` (neither is a ``numbers.Real`` a caller would mean as an angle).
"""
import math
from fractions import Fraction

import sympy


class IntSub(int):
    """what an IntEnum member / a user-defined integer type is to the library"""
    __slots__ = ()


class FloatSub(float):
    """what a unit-carrying float type / numpy-free float wrapper is to the library"""
    __slots__ = ()


#: spellings that hold every rational exactly
EXACT_KINDS = ["Fraction", "sRational"]
#: spellings that hold integers only (exactly)
INT_KINDS = ["int", "sInteger", "intsub"]
#: spellings that round to 53 bits (or 100 bits: sFloat30)
FLOAT_KINDS = ["float", "floatsub", "sFloat", "sFloat30"]
#: exact real constants that are not rational
CONST_KINDS = ["sconst"]
KINDS = INT_KINDS + EXACT_KINDS + FLOAT_KINDS + CONST_KINDS

MAGNITUDES = ["moderate", "moderate", "dyadic", "small_int", "big_int", "big_int", "big_dyadic", "tiny", "zero"]
BIG_EXPONENTS = [53, 53, 63, 63, 64, 70, 100, 500]


def _big(rng, lo_exp):
    """+-m * 2**s with at most 53 significant bits and 2**E <= |value| < 2**(E+1)"""
    m = rng.randint(1, 2 ** rng.choice((1, 8, 20, 53)) - 1) if rng.random() < 0.8 else 1
    E = rng.choice(lo_exp)
    s = E - m.bit_length() + 1
    v = Fraction(m * 2 ** s) if s >= 0 else Fraction(m, 2 ** -s)
    return rng.choice((-1, 1)) * v


def rand_exact(rng, magnitude=None, integer=False):
    """an exact real value as Fraction"""
    m = magnitude or rng.choice(MAGNITUDES)
    if m == "zero":
        return Fraction(0)
    if m == "small_int":
        return Fraction(rng.randint(-9, 9))
    if m == "big_int" or (integer and m == "big_dyadic"):
        return _big(rng, BIG_EXPONENTS)
    if integer:
        return Fraction(rng.randint(-40, 40))
    if m == "moderate":
        return Fraction(rng.randint(-120, 120), rng.randint(1, 12))
    if m == "dyadic":  # exactly representable in binary floating point
        return Fraction(rng.randint(-4000, 4000), 2 ** rng.randint(1, 10))
    if m == "big_dyadic":  # fractions at a magnitude where a float has few fraction bits left
        return _big(rng, (12, 20, 30, 40, 50))
    if m == "tiny":
        return Fraction(rng.choice((-1, 1)) * rng.randint(1, 9), 10 ** rng.randint(8, 30))
    raise ValueError(m)


def float_exact_enough(v, tol=1e-12):
    """can a 53-bit float stand for the exact value v with absolute error <= tol?"""
    try:
        f = float(v)
    except OverflowError:
        return False
    return math.isfinite(f) and abs(Fraction(f) - v) <= Fraction(tol)


def kinds_for(v, tol=1e-12):
    """the spellings that denote the exact value v (float spellings: up to tol absolute)"""
    ks = list(EXACT_KINDS)
    if v.denominator == 1:
        ks += INT_KINDS
    if float_exact_enough(v, tol):
        ks += FLOAT_KINDS
    return ks


def spell(v, kind):
    """the exact value v (Fraction) as a parameter of the given kind"""
    if kind == "Fraction":
        return Fraction(v)
    if kind == "sRational":
        return sympy.Rational(v.numerator, v.denominator)
    if kind == "int":
        return int(v)
    if kind == "sInteger":
        return sympy.Integer(int(v))
    if kind == "intsub":
        return IntSub(int(v))
    if kind == "float":
        return float(v)
    if kind == "floatsub":
        return FloatSub(float(v))
    if kind == "sFloat":
        return sympy.Float(float(v))
    if kind == "sFloat30":
        return sympy.Float(sympy.Rational(v.numerator, v.denominator), 30)
    raise ValueError(kind)


def rand_const(rng):
    """a symbol-free real sympy number that is not rational"""
    return rng.choice([
        sympy.pi * sympy.Rational(rng.randint(-12, 12), rng.choice((1, 2, 3, 4, 5, 6, 8))),
        sympy.sqrt(rng.choice((2, 3, 5))) * rng.choice((1, -1, 2)),
        sympy.E * rng.choice((1, -1)),
        sympy.pi + rng.randint(-3, 3),
        sympy.Rational(rng.randint(-9, 9), rng.choice((2, 3))) + sympy.sqrt(2),
        sympy.pi * rng.choice((100, 1000, -256)),
    ])


def rand_spelled(rng, kind=None, magnitude=None):
    """(parameter, kind): a real number in a random (or the given) spelling"""
    kind = kind or rng.choice(KINDS)
    if kind == "sconst":
        return rand_const(rng), kind
    v = rand_exact(rng, magnitude, integer=kind in INT_KINDS)
    return spell(v, kind), kind


def ulp_exponent(v):
    """t with ulp(float(v)) == 2**t (v != 0, normal range)"""
    return math.frexp(float(v))[1] - 53


def rand_neighbour(rng, v):
    """a small step next to v that a 53-bit float holding v can still resolve: +-k * 2**t, k in 1..3"""
    t = max(0, ulp_exponent(v) + rng.choice((0, 0, 1, 3))) if v else 0
    return Fraction(rng.choice((1, -1)) * rng.randint(1, 3) * 2 ** t)


def exact_of(p):
    """the exact real value (Fraction) a spelled rational parameter denotes"""
    if isinstance(p, sympy.Float):
        r = sympy.Rational(p)
        return Fraction(int(r.p), int(r.q))
    if isinstance(p, sympy.Rational):
        return Fraction(int(p.p), int(p.q))
    if isinstance(p, (int, float, Fraction)):
        return Fraction(p)
    raise TypeError(type(p))


def show(p):
    return f"{type(p).__name__}:{p!r}"
