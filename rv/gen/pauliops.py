"""Seeded generators of Pauli terms / sums as plain *specs* (no library import).

term spec  = (ops, coeff)   ops = tuple of (qubit, 'X'|'Y'|'Z') sorted by qubit
sum spec   = list of term specs (duplicates, zero coefficients, constants allowed)

``build_term`` / ``build_sum`` turn a spec into library objects; ``fmt_*`` give
the canonical text used in case descriptions.
"""
import itertools

LETTERS = "XYZ"
MAX_INDEX = 12


# ----------------------------------------------------------------------------- coefficients
def dyadic_real(rng, nonzero=True, span=24):
    while True:
        k = rng.randint(-span, span)
        if k or not nonzero:
            return k / 8


def dyadic(rng, nonzero=True, kind=None):
    """multiple of 1/8: int, float or complex (exact in binary floating point)"""
    kind = kind or rng.choice(["float", "float", "complex", "complex", "int", "imag"])
    if kind == "int":
        while True:
            k = rng.randint(-3, 3)
            if k or not nonzero:
                return k
    if kind == "float":
        return dyadic_real(rng, nonzero)
    if kind == "imag":
        return complex(0, dyadic_real(rng, nonzero))
    while True:
        c = complex(dyadic_real(rng, False), dyadic_real(rng, False))
        if c != 0 or not nonzero:
            return c


def generic_real(rng):
    return rng.choice([-1, 1]) * rng.uniform(0.05, 3.0)


def generic(rng, kind=None):
    """generic float / complex with magnitude in [0.05, ~4]"""
    kind = kind or rng.choice(["float", "complex", "complex"])
    if kind == "float":
        return generic_real(rng)
    return complex(generic_real(rng), generic_real(rng))


def coeff(rng, regime):
    return dyadic(rng) if regime == "dyadic" else generic(rng)


def scalar(rng, regime, allow_zero=False):
    """a plain number used as an operand: int, float, complex or bool"""
    kind = rng.choice(["int", "float", "complex", "bool"])
    if kind == "bool":
        return rng.choice([True, False]) if allow_zero else True
    if kind == "int":
        while True:
            k = rng.randint(-4, 4)
            if k or allow_zero:
                return k
    if regime == "dyadic":
        return dyadic(rng, nonzero=not allow_zero, kind="float" if kind == "float" else "complex")
    return generic(rng, kind)


# ----------------------------------------------------------------------------- strings / terms / sums
def qubit_pool(rng, k=None, gaps=None):
    """k distinct qubit indices; with gaps they are spread up to MAX_INDEX"""
    k = k or rng.randint(1, 5)
    gaps = rng.random() < 0.5 if gaps is None else gaps
    if gaps:
        return sorted(rng.sample(range(MAX_INDEX + 1), k))
    return list(range(k))


def rand_ops(rng, pool, yheavy=False, allow_empty=True):
    """a Pauli string on a random subset of the pool"""
    lo = 0 if allow_empty and rng.random() < 0.1 else 1
    k = rng.randint(lo, len(pool))
    qs = sorted(rng.sample(pool, k))
    letters = "YYYXZ" if yheavy else LETTERS
    return tuple((q, rng.choice(letters)) for q in qs)


def rand_term(rng, pool, regime, yheavy=False, zero=False):
    return (rand_ops(rng, pool, yheavy), 0 if zero else coeff(rng, regime))


def rand_sum(rng, pool, regime, nterms=None, hostile=True, yheavy=False):
    """0-5 terms; hostile sums contain duplicates (same string twice, possibly
    cancelling), zero coefficients and constants"""
    n = rng.randint(0, 5) if nterms is None else nterms
    out = []
    while len(out) < n:
        r = rng.random()
        if hostile and out and r < 0.2:
            ops, c = rng.choice(out)
            c2 = -c if rng.random() < 0.4 else coeff(rng, regime)
            out.append((ops, c2))
        elif hostile and r < 0.28:
            out.append((rand_ops(rng, pool, yheavy), rng.choice([0, 0.0, 0j])))
        elif hostile and r < 0.38:
            out.append(((), coeff(rng, regime)))
        else:
            out.append(rand_term(rng, pool, regime, yheavy))
    return out


def all_strings(n):
    """all 4^n strings on qubits 0..n-1 as ops tuples (identity factors dropped)"""
    out = []
    for letters in itertools.product("IXYZ", repeat=n):
        out.append(tuple((q, o) for q, o in enumerate(letters) if o != "I"))
    return out


def relabel(ops, positions):
    return tuple((positions[q], o) for q, o in ops)


# ----------------------------------------------------------------------------- predicates
def has_y(spec_terms):
    return any(o == "Y" for ops, _ in spec_terms for _q, o in ops)


def anticommuting_pair(ops_a, ops_b):
    """some qubit carries two different non-identity letters"""
    da = dict(ops_a)
    return any(q in da and da[q] != o for q, o in ops_b)


# ----------------------------------------------------------------------------- builders / text
def build_term(T, spec, as_string=False):
    ops, c = spec
    return T(dict(ops), c)


def build_sum(T, S, specs):
    return S([build_term(T, s) for s in specs])


def fmt_term(spec):
    ops, c = spec
    body = "*".join(f"{o}{q}" for q, o in ops) or "I"
    return f"{c!r}*{body}"


def fmt_sum(specs):
    return "[" + " + ".join(fmt_term(s) for s in specs) + "]"


def fmt(x):
    if isinstance(x, list):
        return fmt_sum(x)
    if isinstance(x, tuple):
        return fmt_term(x)
    return repr(x)
