"""Generators for the NUMBER a modifier is given - its type and its size - and for gates with exact matrices.

A modifier argument (`power(e)`, `controlled(k)`) and a gate parameter are numbers; the property quantifies over
their VALUES (all integers, all unit fractions, all control counts >= 1, all real parameters), so every spelling
of the same value must give the same gate:

  unit fraction 1/q   Python float, fractions.Fraction, sympy.Rational, sympy.Float, decimal.Decimal (dyadic q)
  integer n           int, numpy signed / unsigned integers of several widths, sympy.Integer, Fraction(n, 1) and, up to
                      2**20, the floating point types float, sympy.Float(n), Decimal(n)
  control count k     int, numpy integers, sympy.Integer
  real parameter      float, int, Fraction, sympy Rational / Integer / Float, rational multiples of sympy.pi

(numpy FLOATS are left out everywhere and numpy integers as gate parameters: the pinned sympy 1.9 cannot ingest
numpy >= 2 scalars that reach it through numpy arithmetic - environment, DESIGN.md section 2.)

and over every size: integer exponents are drawn around the thresholds at which an implementation plausibly
changes its behaviour - 2**7/8/15/16 (narrow integer types), 10**4 and 10**5 (sympy's switch between repeated
squaring, Cayley-Hamilton and Jordan form), 2**31/32 (C int), 2**53 (doubles stop representing every integer),
2**63/64 (C long), beyond (10**20, 2**100, random 54-90 bit numbers) - with both signs and both parities.

Exponents of that size can only be judged exactly: ``exact_gate`` makes gates whose matrices are Gaussian
rationals and whose powers stay small (finite order, or growing polynomially with the exponent).
"""
import decimal
import fractions

import numpy as np
import sympy

FRAC_SPELLINGS = ["Fraction", "Rational", "Float", "float", "Decimal"]
INT_SPELLINGS = ["int", "float", "np.int64", "np.int32", "np.int8", "np.uint64", "np.uint8", "Integer", "Fraction",
                 "Float", "Decimal"]
COUNT_SPELLINGS = ["int", "np.int64", "np.int32", "np.uint8", "Integer"]
PARAM_SPELLINGS = ["Fraction", "Rational", "Integer", "Float", "int", "pi_multiple"]


def spell_unit_fraction(rng, q, kind=None):
    """(object equal to 1/q, label).  Decimal only for q a power of two (else 1/q has no finite decimal)"""
    kinds = [k for k in FRAC_SPELLINGS if k != "Decimal" or q & (q - 1) == 0]
    kind = kind if kind in kinds else rng.choice(kinds)
    if kind == "Fraction":
        return fractions.Fraction(1, q), f"Fraction(1,{q})"
    if kind == "Rational":
        return sympy.Rational(1, q), f"Rational(1,{q})"
    if kind == "Float":
        return sympy.Float(1 / q), f"Float({1 / q!r})"
    if kind == "Decimal":
        return decimal.Decimal(1) / decimal.Decimal(q), f"Decimal(1/{q})"
    return 1 / q, f"{1 / q!r}"


FLOATING_MAX = 2**20
_NP_INT = {"np.int64": np.int64, "np.int32": np.int32, "np.int8": np.int8, "np.uint64": np.uint64, "np.uint8": np.uint8}


def fitting_int_spellings(n, kinds=None):
    """the spellings that hold the integer n exactly"""
    n = int(n)

    def fits(k):
        if k in _NP_INT:
            info = np.iinfo(_NP_INT[k])
            return info.min <= n <= info.max
        if k in ("float", "Float", "Decimal"):
            # a floating point exponent is processed in floating point: the phase of lambda**e is lost to
            # |e| * 1e-16, so integers are spelled as floating point numbers only while that stays below tolerance
            return abs(n) <= FLOATING_MAX
        return True

    return [k for k in (kinds or INT_SPELLINGS) if fits(k)]


def spell_integer(rng, n, kind=None, kinds=None):
    """(object equal to the integer n, label); spellings that cannot hold n exactly are not used for it"""
    n = int(n)
    ok = fitting_int_spellings(n, kinds)
    kind = kind if kind in ok else rng.choice(ok)
    if kind in _NP_INT:
        return _NP_INT[kind](n), f"{kind}({n})"
    if kind == "float":
        return float(n), f"{float(n)!r}"
    if kind == "Integer":
        return sympy.Integer(n), f"Integer({n})"
    if kind == "Fraction":
        return fractions.Fraction(n, 1), f"Fraction({n},1)"
    if kind == "Float":
        return sympy.Float(n), f"Float({n})"
    if kind == "Decimal":
        return decimal.Decimal(n), f"Decimal({n})"
    return n, str(n)


def spell_count(rng, k, kind=None):
    return spell_integer(rng, k, kind, COUNT_SPELLINGS)


def spell_param(rng, kind=None):
    """a real gate parameter in an exact / non-float spelling: (object, label)"""
    kind = kind or rng.choice(PARAM_SPELLINGS)
    num, den = rng.choice([-7, -5, -3, -2, -1, 1, 2, 3, 5, 7]), rng.choice([2, 3, 4, 5, 7])
    if kind == "Fraction":
        return fractions.Fraction(num, den), f"Fraction({num},{den})"
    if kind == "Rational":
        return sympy.Rational(num, den), f"Rational({num},{den})"
    if kind == "Integer":
        return sympy.Integer(num), f"Integer({num})"
    if kind == "Float":
        v = round(rng.uniform(-6, 6), 4)
        return sympy.Float(v), f"Float({v})"
    if kind == "int":
        return num, str(num)
    return sympy.pi * sympy.Rational(num, den), f"pi*{num}/{den}"


# ----------------------------------------------------------------------------- sizes
THRESHOLD_BITS = [7, 8, 15, 16, 31, 32, 53, 63, 64]
DECIMAL_THRESHOLDS = [10**4, 10**5, 10**6]


def big_integer(rng, band=None):
    """(n, band): an integer exponent; band 'medium' (4..1100), 'threshold' (around 2**7..2**16, 10**4..10**6),
    'huge' (around 2**31 .. 2**64 and beyond: not representable as a double / a C integer); random sign"""
    band = band or rng.choice(["medium", "threshold", "huge", "huge"])
    if band == "medium":
        n = rng.choice([rng.randint(4, 130), rng.randint(4, 130), rng.choice([16, 17, 32, 33, 64, 65, 255, 256, 257, 1000, 1001])])
    elif band == "threshold":
        t = rng.choice([2**7, 2**8, 2**15, 2**16] + DECIMAL_THRESHOLDS + DECIMAL_THRESHOLDS)
        n = t + rng.choice([-1, 0, 1, 1, 2])
    else:
        r = rng.random()
        if r < 0.6:
            n = 2 ** rng.choice([31, 32, 53, 53, 63, 64, 64]) + rng.choice([-1, 0, 1, 1, 2, 3])
        elif r < 0.8:
            n = rng.getrandbits(rng.randint(54, 90)) | (1 << 53) | rng.choice([0, 1])
        else:
            n = rng.choice([10**20 + 1, 10**20, 2**100 + 1, 2**100 + 2, 3**40, 2**53 + 2**20 + 1])
    return (-n if rng.random() < 0.45 else n), band


# ----------------------------------------------------------------------------- gates with exact matrices
EXACT_FLAVORS = ["builtin", "phaseperm", "unipotent", "jordan_unit", "blocks", "diag_unit", "rotation", "hermitian"]
# flavours whose powers stay bounded or grow polynomially with the exponent: any exponent can be judged exactly
ANY_EXPONENT = {"builtin", "phaseperm", "unipotent", "jordan_unit", "blocks", "diag_unit"}
_UNITS = [1, -1, sympy.I, -sympy.I]


def _small(rng):
    r = sympy.Rational(rng.choice([-3, -2, -1, 1, 2, 3]), rng.choice([1, 1, 2, 3]))
    return rng.choice([r, r, r * sympy.I, r + sympy.Rational(rng.choice([-1, 1]), rng.choice([1, 2])) * sympy.I])


def _phaseperm(rng, d):
    p = list(range(d))
    rng.shuffle(p)
    M = sympy.zeros(d, d)
    for i in range(d):
        M[i, p[i]] = rng.choice(_UNITS)
    return M


def _unipotent(rng, d):
    M = sympy.eye(d)
    for i in range(d):
        for j in range(i + 1, d):
            if rng.random() < (0.9 if d == 2 else 0.5):
                M[i, j] = _small(rng)
    if rng.random() < 0.5:  # lower triangular / conjugated by a permutation: same spectrum, other shape
        M = M.T
    if d > 2 and rng.random() < 0.5:
        P = _phaseperm(rng, d)
        M = P * M * P.inv()
    return M


def exact_matrix(rng, nq, flavor):
    """sympy matrix with exact Gaussian-rational entries"""
    d = 2**nq
    if flavor == "phaseperm":
        return _phaseperm(rng, d)
    if flavor == "unipotent":
        return _unipotent(rng, d)
    if flavor == "jordan_unit":  # lambda * (I + N), |lambda| = 1: defective, eigenvalue on the unit circle
        return rng.choice(_UNITS) * _unipotent(rng, d)
    if flavor == "diag_unit":
        return sympy.diag(*[rng.choice(_UNITS) for _ in range(d)])
    if flavor == "blocks":  # direct sum of 2x2 blocks of different kinds
        blocks = [rng.choice([_phaseperm, _unipotent])(rng, 2) * rng.choice(_UNITS) for _ in range(d // 2)]
        return sympy.diag(*blocks)
    if flavor == "rotation":  # exact rational unitary of infinite order (Pythagorean triple), maybe times a phase
        a, b, c = rng.choice([(3, 4, 5), (5, 12, 13), (8, 15, 17)])
        R = sympy.Matrix([[sympy.Rational(a, c), -sympy.Rational(b, c)], [sympy.Rational(b, c), sympy.Rational(a, c)]])
        R = R * rng.choice(_UNITS)
        return R if d == 2 else sympy.diag(R, _phaseperm(rng, 2))
    if flavor == "hermitian":  # hermitian, NOT an involution; small integer entries
        A = sympy.zeros(d, d)
        for i in range(d):
            A[i, i] = rng.choice([-2, -1, 1, 2, 3])
            for j in range(i + 1, d):
                z = rng.choice([0, 1, -1, sympy.I, 1 + sympy.I, 2])
                A[i, j], A[j, i] = z, sympy.conjugate(z)
        if A.det() == 0:
            A = A + 4 * sympy.eye(d)
        return A
    raise ValueError(flavor)


def exact_gate(rng, nq, name, flavor=None):
    """(gate, description, flavour); the gate's matrix has exact Gaussian-rational (built-ins: dyadic float) entries.
    Routes: a fixed built-in gate, a numeric CustomGateDefinition, or a bare MatrixFactoryGate (flagged hermitian
    exactly when its matrix is)"""
    from orquestra.quantum import circuits as C
    from orquestra.quantum.circuits import _gates as G

    flavor = flavor or rng.choice(EXACT_FLAVORS)
    if flavor == "builtin":
        names = ["X", "Y", "Z", "I", "S", "SX"] if nq == 1 else ["CNOT", "CZ", "SWAP", "ISWAP"]
        n = rng.choice(names)
        return getattr(C, n), n, flavor
    nq = min(nq, 2)
    M = exact_matrix(rng, nq, flavor)
    text = f"{flavor}{M.tolist()}"
    if rng.random() < 0.3:
        frozen = sympy.ImmutableMatrix(M)
        herm = bool(M == M.H)
        g = G.MatrixFactoryGate(name, lambda: sympy.Matrix(frozen), (), nq, is_hermitian=herm)
        return g, f"factory{'(hermitian)' if herm else ''} {text}", flavor
    return C.CustomGateDefinition(gate_name=name, matrix=M, params_ordering=())(), f"custom {text}", flavor
