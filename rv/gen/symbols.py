"""Seeded generators of symbols (hostile names), parameter expressions and
symbol maps, shared by the serialisation (C05) and binding (C06) workloads.

Parameters are Python int/float or sympy objects only (numpy scalars cannot be
ingested by the pinned sympy 1.9 - environment, DESIGN.md section 2).
"""
import math
import re

import sympy

# identifiers that shadow sympy names (functions, constants, registry objects)
SHADOW = ["beta", "gamma", "zeta", "S", "N", "I", "E", "Q", "O", "pi", "re", "im", "sin", "cos",
          "exp", "sqrt", "Symbol", "lambda_"]
PLAIN = ["theta", "phi", "alpha", "x", "y", "t0", "beta_1", "w_10"]
# identifiers that number parsers (float(), int(), complex(), JSON, sympy's number names) read as literals when the
# text is taken for a number before it is taken for a name
LITERALS = ["inf", "nan", "infinity", "Inf", "NaN", "Infinity", "INF", "NAN", "oo", "zoo", "null", "true", "false",
            "none", "e", "j", "J", "E10", "e5", "e_5", "nanj", "infj", "_1", "x0j", "a1e5", "nan_"]
INDEXED = ["x[3]", "x[10]", "params[0]", "x[0]", "p[1]", "theta[2]"]
# names that the text format cannot keep apart from sympy's own parser hooks
PARSER_HOOKS = ["Integer", "Float"]

_INDEXED_RX = re.compile(r"^(.*)\[([0-9]+)\]$")


def base_of(name):
    m = _INDEXED_RX.match(name)
    return m.group(1) if m else None


def symbol_pool(rng, k=4, style=None):
    """k distinct symbols.  style: plain / shadow / indexed / mixed_index (indexed together
    with plain ones, same and different base) / any"""
    style = style or rng.choice(["plain", "shadow", "indexed", "mixed_index", "any", "any", "literal"])
    if style == "plain":
        names = rng.sample(PLAIN, min(k, len(PLAIN)))
    elif style == "shadow":
        names = rng.sample(SHADOW, min(k, len(SHADOW)))
    elif style == "indexed":
        names = rng.sample(INDEXED, min(k, len(INDEXED)))
    elif style == "literal":
        names = rng.sample(LITERALS, min(k, len(LITERALS)))
    elif style == "mixed_index":
        names = rng.sample(INDEXED, max(1, k // 2)) + rng.sample(PLAIN + ["params", "p"], max(1, k - k // 2))
    else:
        names = rng.sample(PLAIN + SHADOW + INDEXED + LITERALS, k)
    return [sympy.Symbol(n) for n in names]


COEFFS = [2, 3, -1, sympy.Rational(1, 2), sympy.Rational(-2, 3), sympy.Rational(3, 7), 0.5, -1.5, 0.25]


def rand_coeff(rng, floats="mixed"):
    """coefficient: int, rational, multiple of pi, sympy Float (short = exactly printable in
    15 digits, long = needs 17 digits)"""
    r = rng.random()
    if r < 0.25:
        return rng.choice([2, 3, -1, -2, 5])
    if r < 0.45:
        return rng.choice([sympy.Rational(1, 2), sympy.Rational(-2, 3), sympy.Rational(3, 7), sympy.Rational(5, 4)])
    if r < 0.6:
        return rng.choice([sympy.pi, sympy.pi / 2, sympy.pi / 4, -sympy.pi / 3, 2 * sympy.pi])
    if floats == "short" or (floats == "mixed" and rng.random() < 0.5):
        return sympy.Float(round(rng.uniform(-3, 3), rng.choice([1, 2, 3, 6])))
    return sympy.Float(rng.uniform(-3, 3))


def rand_expr(rng, symbols, depth=2, floats="mixed", funcs=True):
    """random real-valued sympy expression over ``symbols`` (always contains a symbol)"""
    for _ in range(20):
        e = _rand_expr(rng, symbols, depth, floats, funcs)
        if isinstance(e, sympy.Expr) and e.atoms(sympy.Symbol) and not e.has(sympy.nan, sympy.zoo, sympy.oo):
            return e
    return rng.choice(symbols) * 2


def _rand_expr(rng, symbols, depth, floats, funcs):
    if depth == 0 or rng.random() < 0.25:
        r = rng.random()
        if r < 0.7:
            return rng.choice(symbols)
        return sympy.sympify(rand_coeff(rng, floats))
    ops = ["add", "mul", "sub", "scale", "scale", "half", "neg", "shift"]
    if funcs:
        ops += ["sin", "cos", "sq"]
    op = rng.choice(ops)
    a = _rand_expr(rng, symbols, depth - 1, floats, funcs)
    if op in ("add", "mul", "sub"):
        b = _rand_expr(rng, symbols, depth - 1, floats, funcs)
        return a + b if op == "add" else a * b if op == "mul" else a - b
    if op == "scale":
        return rand_coeff(rng, floats) * a
    if op == "shift":
        return a + rand_coeff(rng, floats)
    if op == "sin":
        return sympy.sin(a)
    if op == "cos":
        return sympy.cos(a)
    if op == "sq":
        return a ** 2
    if op == "half":
        return a / 2
    return -a


SPECIAL_FLOATS = [0.0, -0.0, 1.0, -1.0, 0.5, 0.1, 1 / 3, math.pi, -math.pi, math.pi / 2, math.pi / 4, 2 * math.pi,
                  1e-9, -1e-9, 1e-300, 1e22, 123456.789, 5e-324, 1.7976931348623157e308, 2.0 ** 53]
SPECIAL_INTS = [0, 1, -1, 2, 7, -3, 10, 2 ** 31, 2 ** 53 + 1, -(2 ** 53) - 1, 10 ** 20]


def rand_number(rng, kind=None):
    """Python int / float or a symbol-free sympy number"""
    kind = kind or rng.choice(["float", "float", "float", "int", "special_float", "special_int", "rational",
                               "pi", "sfloat"])
    if kind == "float":
        return rng.uniform(-2 * math.pi, 2 * math.pi)
    if kind == "int":
        return rng.randint(-9, 9)
    if kind == "special_float":  # mostly moderate magnitudes: huge angles leave nothing to compare numerically
        return rng.choice(SPECIAL_FLOATS if rng.random() < 0.25 else [f for f in SPECIAL_FLOATS if abs(f) < 1e6])
    if kind == "special_int":
        return rng.choice(SPECIAL_INTS if rng.random() < 0.25 else [i for i in SPECIAL_INTS if abs(i) < 1e6])
    if kind == "rational":
        return sympy.Rational(rng.randint(-9, 9), rng.choice([1, 2, 3, 7, 16]))
    if kind == "pi":
        return rng.choice([sympy.pi, sympy.pi / 2, -sympy.pi / 4, 3 * sympy.pi / 7, 0.5 * sympy.pi])
    return sympy.Float(rng.uniform(-3, 3)) if rng.random() < 0.5 else sympy.Float(round(rng.uniform(-3, 3), 3))


def rand_param(rng, symbols, style):
    """style: numeric / symbol / expr / any"""
    if style == "any":
        style = rng.choice(["numeric", "symbol", "expr", "expr"])
    if style == "numeric" or not symbols:
        return rand_number(rng)
    if style == "symbol":
        return rng.choice(symbols)
    return rand_expr(rng, symbols, rng.choice([1, 2, 2, 3]))


def is_python_number(p):
    return isinstance(p, (int, float, complex)) and not isinstance(p, bool)


def symbols_of(p):
    """own traversal: the Symbol atoms a parameter depends on"""
    if isinstance(p, sympy.Basic):
        return set(p.atoms(sympy.Symbol))
    return set()


def floats_exactly_printable(p):
    """every sympy Float atom of p survives str() -> Float() unchanged"""
    if not isinstance(p, sympy.Basic):
        return True
    return all(sympy.Float(str(f)) == f for f in p.atoms(sympy.Float))


def pstr(p):
    """canonical text of a parameter for case descriptions"""
    if isinstance(p, (float, complex)):
        return repr(p)
    if isinstance(p, sympy.Basic):
        tag = "" if floats_exactly_printable(p) else "~"
        kind = "" if p.atoms(sympy.Symbol) or isinstance(p, sympy.Symbol) else "#"
        return f"{kind}{p!s}{tag}"
    return str(p)
