"""Seeded generators of EXACT integer coefficients around the boundaries of fixed-width number formats
(no library import).

A Pauli term's coefficient may be a Python int, which is exact and unbounded, and the arithmetic on terms is
arithmetic on these numbers: powers, products and sums of moderate integers leave the range of int32 (2^31),
of exactly representable doubles (2^53), of int64 / uint64 (2^63, 2^64), of float32 (~3.4e38), and approach
the end of the double range.  The generators below pick one such boundary and build operands whose exact
result lands just below, on, or above it while every operand stays well inside it.

Everything returned is a plain Python number; ``spell`` writes an integer as int (mostly), as the float of
the same value, or as a complex number with zero imaginary part.
"""
import math

# (boundary, weight): the fixed-width integer limits are drawn most often
BOUNDARIES = [
    (2**31, 2), (2**32, 2), (2**53, 3), (2**63, 6), (2**64, 6), (2**100, 2), (2**127, 1), (2**128, 1),
    (34 * 10**37, 1), (2**200, 1), (10**150, 1), (2**512, 1), (2**900, 1),
]
RANGE_LOG10 = 290  # exact results are kept below 1e290 (operands and every intermediate are smaller still)


def boundary(rng, below=None):
    pool = [(b, w) for b, w in BOUNDARIES if below is None or b < below]
    total = sum(w for _, w in pool)
    r = rng.uniform(0, total)
    for b, w in pool:
        r -= w
        if r <= 0:
            return b
    return pool[-1][0]


def near(rng, value):
    """an integer close to `value`: the value itself, its neighbours, or something of the same order"""
    r = rng.random()
    if r < 0.25:
        return value
    if r < 0.5:
        return value + rng.choice([-2, -1, 1, 2, 3])
    if r < 0.75:
        return value + rng.randint(-(value // 8), value // 8) if value >= 8 else value
    return value * rng.randint(9, 31) // rng.choice([8, 16])


def iroot(n, k):
    """floor of the k-th root of n (exact, by bisection on Python ints)"""
    if n < 2:
        return n
    hi = 1 << (n.bit_length() // k + 1)
    lo = 0
    while lo < hi - 1:
        mid = (lo + hi) // 2
        if mid**k <= n:
            lo = mid
        else:
            hi = mid
    return lo


def sign(rng, p_negative=0.35):
    return -1 if rng.random() < p_negative else 1


def spell(rng, n, p_int=0.75):
    """the integer n as int, float or complex (floats above 2^53 are rounded: the operand is then that float)"""
    r = rng.random()
    if r < p_int or abs(n) >= 10**300:
        return n
    if r < p_int + (1 - p_int) * 0.6:
        return float(n)
    return complex(n, 0.0)


def gaussian(rng, lo=1, hi=9):
    """a complex number with small integer parts, both non-zero half of the time"""
    a = sign(rng, 0.5) * rng.randint(lo, hi)
    b = sign(rng, 0.5) * rng.randint(lo, hi)
    r = rng.random()
    if r < 0.25:
        return complex(0, b)
    return complex(a, b)


def exponent_for(base_mag, target, rng, spread=(-1, 0, 0, 0, 1, 1, 2)):
    """n with base_mag**n around target (at least 2), never beyond the double range"""
    n = max(2, int(math.ceil(math.log(target) / math.log(base_mag))) + rng.choice(spread))
    while n > 2 and n * math.log10(base_mag) > RANGE_LOG10:
        n -= 1
    return n


def power_base(rng):
    """(base, magnitude, exponent): a base and a non-negative exponent whose exact power crosses a boundary"""
    kind = rng.choice(["small", "small", "small", "medium", "root", "root", "gauss", "float", "fraction"])
    b = boundary(rng)
    if kind == "small":
        c = rng.choice([2, 2, 3, 3, 5, 6, 7, 10, 10, 12, 15, 16])
        return sign(rng) * c if rng.random() < 0.8 else spell(rng, sign(rng) * c, 0.0), c, exponent_for(c, b, rng)
    if kind == "medium":
        c = rng.randint(10**4, 10**6) if rng.random() < 0.7 else rng.randint(100, 9999)
        return spell(rng, sign(rng) * c, 0.85), c, exponent_for(c, b, rng, (0, 0, 0, 1, 1, 2, 4))
    if kind == "root":
        k = rng.choice([2, 2, 2, 3, 4, 5])
        c = max(2, iroot(b, k) + rng.choice([-1, 0, 0, 1, 1, 2, 500]))
        return spell(rng, sign(rng) * c, 0.85), c, k
    if kind == "gauss":
        c = gaussian(rng, 1, 5)
        m = abs(c.real) + abs(c.imag)
        return c, m, exponent_for(max(2.0, abs(c)), b, rng)
    if kind == "float":
        c = rng.choice([2.0, 3.0, -2.0, 10.0, 1e3, -1e5, 65536.0, 4294967296.0, 1e10])
        return c, abs(c), exponent_for(abs(c), b, rng)
    c = rng.choice([1.5, -1.5, 2.5, 0.75, -0.5, 0.5, 1.25, 0.1, 1e-3, 3.7, -12.345])
    if abs(c) < 1:
        return c, abs(c), rng.choice([9, 12, 20, 27, 33, 64, 100, 300, 1100])
    return c, abs(c), exponent_for(abs(c), b, rng)


def factor_pair(rng, target):
    """(a, b): integers >= 2 with a*b near target, a anywhere between 2^4 and target / 2^4 (log-uniform)"""
    bits = target.bit_length()
    ea = rng.randint(4, max(5, bits - 4))
    a = max(2, near(rng, 1 << ea))
    b = max(2, near(rng, max(2, target // a)))
    return a, b


def split(rng, total, parts):
    """`parts` integers of the order of total/parts that add up to total exactly"""
    out, rest = [], total
    for i in range(parts - 1):
        p = total // parts + rng.randint(-(abs(total) // (8 * parts)) - 1, abs(total) // (8 * parts) + 1)
        out.append(p)
        rest -= p
    out.append(rest)
    rng.shuffle(out)
    return out


def small_int(rng, hi=9):
    return sign(rng, 0.5) * rng.randint(1, hi)
