"""Wide registers for the runner-history property (C14).

The clause "bitstrings as long as the circuit's register" has thresholds that a
workload on 0-5 qubits never crosses: one byte (8/9 qubits), one 16-bit word
(16/17), 32/33, 64/65 and the switch between the few-samples and the
many-samples regime of the sampler at 2**n_qubits shots.  This module supplies

* specs (plain data, see rv.gen.runners) of cheap circuits on wide registers:
  wide because of ``n_qubits=`` alone, wide because one gate touches the last
  qubit (register size inferred by the library), classical bit patterns spread
  over low and high positions, the same with one or two rotations;
* ``partial_outcome``: the bits of a measurement that are determined even when
  the circuit contains rotations (plain bit bookkeeping, no linear algebra);
* ``LeanSim``: a harness simulator on ``BaseWavefunctionSimulator`` whose only
  own method applies a native circuit by contracting each gate's small matrix
  with the state tensor (cost 2**n per gate instead of the 4**n of
  ``GateOperation.apply``), so that 16- and 17-qubit registers go through the
  base class's validation, counting and sampling at quick-tier cost;
* a slot table that spreads runner kinds and register widths over consecutive
  case indices, so that every deciding width occurs in every quick run.
"""
from . import runners as G

ROT = ["RX", "RY", "H"]

# (rig, width or tuple of widths to choose from); consecutive case indices walk through the table
SLOTS = [
    ("lean", 9), ("symbolic", 9), ("echo", 33), ("lean", 17),
    ("partial", 9), ("lean", 12), ("echo", 65), ("symbolic", 10),
    ("lean", 16), ("echo", 100), ("default_pred", (9, 10)), ("lean", 10),
    ("echo", (9, 16, 17, 20, 31, 32, 63, 64, 128)), ("lean", (8, 11, 13, 15)), ("symbolic", (8, 9)), ("lean", 9),
]
MAX_WIDTH = {"lean": 17, "symbolic": 10, "partial": 10, "default_pred": 10, "echo": 130}


def slot(index, rng):
    """(rig, width) of the case with this index"""
    rig, w = SLOTS[index % len(SLOTS)]
    if isinstance(w, tuple):
        w = rng.choice(w)
    return rig, w


# ------------------------------------------------------------------ specs
def spec_str(spec):
    """as rv.gen.runners.spec_str; qubit indices are comma separated once one of them has two digits"""
    if all(q < 10 for _n, qs, _p in spec["ops"] for q in qs):
        s = G.spec_str(spec)
    else:
        parts = []
        for name, qs, p in spec["ops"]:
            if name == "MP":
                parts.append("MP")
            else:
                parts.append(f"{name}{'' if p is None else '(%s)' % (p,)}@{','.join(map(str, qs))}")
        s = f"[{spec['n']}q:{' '.join(parts)}]"
    return s[:-1] + ";inferred]" if spec.get("implicit") else s


def _two(rng, n, span):
    """two distinct qubits of an n-qubit register at most ``span`` apart"""
    a = rng.randrange(n)
    lo, hi = max(0, a - span), min(n - 1, a + span)
    b = rng.choice([x for x in range(lo, hi + 1) if x != a])
    return a, b


def _classical_op(rng, n, span, qubits=None):
    names = ["X", "X", "X", "Y", "Z", "S", "T", "I"] + (["CNOT", "CNOT", "SWAP", "CZ"] if n >= 2 else [])
    name = rng.choice(names)
    if name in G.CLASSICAL_2Q:
        if qubits and len(set(qubits)) >= 2 and rng.random() < 0.6:
            a, b = rng.sample(sorted(set(qubits)), 2)
            if abs(a - b) <= span:
                return (name, (a, b), None)
        return (name, _two(rng, n, span), None)
    q = rng.choice(qubits) if qubits and rng.random() < 0.6 else rng.randrange(n)
    return (name, (q,), None)


def _rot_op(rng, n):
    name = rng.choice(ROT + ["RX", "RY", "RZ", "PHASE"])
    q = rng.randrange(n)
    if name == "H":
        return (name, (q,), None)
    return (name, (q,), round(rng.uniform(-3, 3), 3))


def tall_spec(rng, n, max_ops, span, rotations=0):
    """bits set at low AND high positions of an n-qubit register (the last qubit is always touched, so the
    register is this wide whether or not n_qubits is spelled out), some of them moved by CNOT / SWAP"""
    ops = [("X", (n - 1,), None)]
    flipped = [n - 1]
    for _ in range(rng.randint(1, max(1, max_ops - 1 - rotations))):
        if rng.random() < 0.5:
            q = rng.randrange(n) if rng.random() < 0.5 else rng.randrange(min(n, 8))
            ops.append(("X", (q,), None))
            flipped.append(q)
        else:
            ops.append(_classical_op(rng, n, span, flipped))
    rng.shuffle(ops)
    got = partial_outcome({"n": n, "ops": ops})
    if got[n - 1] != 1:  # the pattern is to have a 1 at the far end and one near the front
        ops.append(("X", (n - 1,), None))
    if n >= 2 and not any(got[:min(8, n - 1)]):
        ops.insert(rng.randint(0, len(ops)), ("X", (rng.randrange(min(8, n - 1)),), None))
    for _ in range(rotations):
        ops.insert(rng.randint(0, len(ops)), _rot_op(rng, n))
    spec = {"n": n, "ops": ops}
    if rng.random() < 0.5:
        spec["implicit"] = True  # Circuit(ops): the library infers the register from the highest qubit touched
    return spec


def idle_spec(rng, n, max_ops, rotations=0):
    """operations on the first few qubits only: the register is n wide because of ``n_qubits=`` alone"""
    used = min(n, rng.randint(1, 4))
    ops = [_classical_op(rng, used, 3) for _ in range(rng.randint(0, max_ops - rotations))]
    for _ in range(rotations):
        ops.insert(rng.randint(0, len(ops)), _rot_op(rng, used))
    return {"n": n, "ops": ops}


def pool(rng, rig, width):
    """circuit specs of one wide case: [operation-free wide, tall, idle, tall or idle with rotations, narrow,
    neighbour width]; the library's own gate application costs 4**n per gate (and 8**span for a two-qubit gate),
    so its simulators get five operations at most and short-range two-qubit gates"""
    lib = rig in ("symbolic", "partial", "default_pred")
    sim = rig != "echo"
    cap = MAX_WIDTH[rig]
    max_ops = 5 if lib else 7
    span = 6 if lib else 200
    out = [{"n": width, "ops": []}]
    out.append(tall_spec(rng, width, max_ops, span))
    w2 = min(cap, max(1, rng.choice([width, width, width - 1, width + 1, 8, 9])))
    out.append(idle_spec(rng, w2, max_ops))
    if sim:
        rot = rng.randint(1, 2)
        out.append(tall_spec(rng, width, max_ops, span, rot) if rng.random() < 0.6 else idle_spec(rng, width, max_ops, rot))
    else:
        out.append(tall_spec(rng, rng.randint(9, cap), max_ops, span))
    out.append(G.rand_spec(rng, n=rng.randint(1, 5), allow_mp=False, classical=None if sim else True, max_ops=4))
    if rng.random() < 0.6:
        w3 = min(cap, max(2, width + rng.choice([-1, 1])))
        out.append(tall_spec(rng, w3, max_ops, span))
    return out


def build_circuit(spec):
    """as rv.gen.runners.build_circuit; ``implicit`` specs leave n_qubits to the library"""
    from orquestra.quantum import circuits as C

    if not spec.get("implicit"):
        return G.build_circuit(spec)
    ops = []
    for name, qs, p in spec["ops"]:
        ops.append(getattr(C, name)(*qs) if p is None else getattr(C, name)(float(p))(*qs))
    return C.Circuit(ops)


# ------------------------------------------------------------------ oracle: determined bits
def partial_outcome(spec):
    """tuple over the register: 0 / 1 where a measurement of |0..0> through the spec can only give that bit, None
    where it is open.  Invariant: a qubit with a definite entry is in that basis state and in a product with the rest
    of the register.  Bit flips, permutations and diagonal operations keep it; a rotation opens its qubit; a CNOT
    whose control is open opens its target."""
    bits = [0] * spec["n"]
    for name, qs, _p in spec["ops"]:
        if name in ("X", "Y"):
            if bits[qs[0]] is not None:
                bits[qs[0]] ^= 1
        elif name == "CNOT":
            c, t = qs
            if bits[c] is None:
                bits[t] = None
            elif bits[c] == 1 and bits[t] is not None:
                bits[t] ^= 1
        elif name == "SWAP":
            bits[qs[0]], bits[qs[1]] = bits[qs[1]], bits[qs[0]]
        elif name in ("Z", "I", "S", "T", "CZ", "RZ", "PHASE", "MP"):
            pass  # diagonal
        else:
            for q in qs:  # RX, RY, H, anything unknown
                bits[q] = None
    return tuple(bits)


def disagreement(bitstring, expected):
    """first position at which a bitstring contradicts a partial outcome, or None"""
    for i, (b, e) in enumerate(zip(bitstring, expected)):
        if e is not None and int(b) != e:
            return i
    return None


# ------------------------------------------------------------------ shot counts
def boundary_counts(w):
    """shot counts around the size 2**w of the register's state space (the sampler changes regime there)"""
    d = 2 ** w
    return [c for c in (d - 1, d, d + 1, d + 2, d + 17, 2 * d, 2 * d + 1) if c >= 1]


LARGE_COUNTS = [65535, 65536, 65537, 99999, 100000, 100003, 131073]
MEDIUM_COUNTS = [255, 256, 257, 1000, 1023, 1024, 1025, 4095, 4096, 4097, 10000, 32767, 32768, 32769, 40000]


def medium_count(rng):
    return rng.choice(MEDIUM_COUNTS) if rng.random() < 0.7 else rng.randint(41, 50000)


def cost(rig, spec, n, tracked_bits=False):
    """rough CPU seconds of one accepted sampling request (n shots; n None = wavefunction / exact distribution)"""
    w = spec["n"]
    d = 2.0 ** min(w, 40)
    gates = len(spec["ops"])
    if rig == "echo":
        c = 2e-4 + (n or 0) * 4e-7 * (1 + w / 16)
    elif rig == "lean":
        c = 3e-4 + gates * (6e-5 + 4e-8 * d) + 2e-6 * d
    else:
        c = 3e-4 + gates * (1e-3 + 2.5e-8 * d * d) + 2e-6 * d
    if rig != "echo" and n is not None:
        if n > d:
            c += 4.5e-6 * d
        c += n * 1.5e-6 * (1 + w / 8)
    if rig != "echo" and n is None:
        c += 5e-6 * d
    if tracked_bits and n:
        c += n * w * 6e-7
    return c


# ------------------------------------------------------------------ the lean simulator
_LEAN = None


def _apply(np, state, mat, qubits, n):
    """the 2**k x 2**k matrix ``mat`` on the ordered qubits of a 2**n state (qubit 0 = most significant bit of the
    basis-state index, first listed qubit = most significant bit of the matrix index)"""
    k = len(qubits)
    psi = state.reshape([2] * n)
    m = np.asarray(mat, dtype=complex).reshape([2] * (2 * k))
    psi = np.tensordot(m, psi, axes=(list(range(k, 2 * k)), list(qubits)))
    psi = np.moveaxis(psi, list(range(k)), list(qubits))
    return np.ascontiguousarray(psi).reshape(-1)


def lean_class():
    """LeanSim - built once per process (after rv.boot pinned the source tree)"""
    global _LEAN
    if _LEAN is not None:
        return _LEAN
    import numpy as np
    from orquestra.quantum import circuits as C
    from orquestra.quantum.api.wavefunction_simulator import BaseWavefunctionSimulator

    def lean_apply(operation, state):
        n = int(len(state)).bit_length() - 1
        mat = np.array(operation.gate.matrix, dtype=complex)
        return _apply(np, np.asarray(state, dtype=complex), mat, operation.qubit_indices, n)

    # the contraction must agree with the library's own gate application (it stands in for it); should the two
    # ever disagree on this probe the class falls back to the library's application (and callers to <= 10 qubits)
    agrees = True
    try:
        probe = np.arange(1, 17, dtype=complex) / 7.0
        for op in (C.X(0), C.CNOT(3, 1), C.RY(0.3)(2), C.SWAP(0, 2)):
            if not np.allclose(lean_apply(op, probe), np.asarray(op.apply(probe), dtype=complex), atol=1e-12):
                agrees = False
    except Exception:
        agrees = False

    class LeanSim(BaseWavefunctionSimulator):
        """every operation native; gates applied by tensor contraction"""

        contraction_agrees = agrees

        def is_natively_supported(self, operation):
            return True

        def _get_wavefunction_from_native_circuit(self, circuit, initial_state):
            G._log(self).append({"kind": "native", "circuit": circuit,
                                 "names": [G.op_name(o) for o in circuit.operations]})
            state = initial_state
            for operation in circuit.operations:
                if agrees and hasattr(operation, "gate"):
                    state = lean_apply(operation, state)
                else:
                    state = operation.apply(state)
            return state

    _LEAN = LeanSim
    return _LEAN
