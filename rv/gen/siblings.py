"""Circuits made of *sibling* operations.

Two gates are siblings when they agree in some of the attributes a careless
implementation might use to identify a gate - ``name`` (every controlled gate is
called "Control", every exponential "Exponential"), the parameter tuple (wrappers
report the parameters of the gate they wrap), the arity, the wrapper kind, the text,
``==`` / ``hash`` (``1 == 1.0 == Integer(1)``; symbols of one name with different
assumptions print alike) - and differ in what the gate *is*: the innermost gate, the
number of controls, a dagger, the custom definition behind a name, the type of a
numeric parameter.  Anything memoised, de-duplicated or looked up under such a key
confuses them; a workload of independently drawn gates almost never contains a pair.

The generator draws, per circuit, a small pool of innermost gates, a small pool of
wrapper shapes and a small pool of parameter values, and builds every operation from
a random combination of the three, so every kind of collision occurs with high
probability within 3-6 operations.  The library is imported lazily.
"""
import sympy

from . import circuits as GC


def _def_width(d):
    """qubits of a custom gate definition, from its public matrix"""
    return int(d.matrix.shape[0]).bit_length() - 1


# wrapper shapes: via the public modifiers and via the raw constructors
WRAPPERS = ["plain", "c1", "c2", "C1", "dagger", "D", "c1.dagger", "dagger.c1", "c1.c1", "C1.C1", "D.C1"]
_EXTRA = {"plain": 0, "c1": 1, "c2": 2, "C1": 1, "dagger": 0, "D": 0, "c1.dagger": 1, "dagger.c1": 1, "c1.c1": 2,
          "C1.C1": 2, "D.C1": 1}


def apply_wrapper(gate, w):
    from orquestra.quantum.circuits import _gates as G

    if w == "plain":
        return gate
    if w == "c1":
        return gate.controlled(1)
    if w == "c2":
        return gate.controlled(2)
    if w == "C1":
        return G.ControlledGate(gate, 1)
    if w == "dagger":
        return gate.dagger
    if w == "D":
        return G.Dagger(gate)
    if w == "c1.dagger":
        return gate.controlled(1).dagger
    if w == "dagger.c1":
        return gate.dagger.controlled(1)
    if w == "c1.c1":
        return gate.controlled(1).controlled(1)
    if w == "C1.C1":
        return G.ControlledGate(G.ControlledGate(gate, 1), 1)
    if w == "D.C1":
        return G.Dagger(G.ControlledGate(gate, 1))
    raise ValueError(w)


def twin_symbol(s):
    """another symbol that prints like s (same name, other assumptions)"""
    return sympy.Symbol(s.name) if s.assumptions0.get("real") else sympy.Symbol(s.name, real=True)


def twin_param(rng, p):
    """a parameter that is a *different* parameter but collides with p under ==, hash or str:
    int <-> float <-> sympy number of the same value; a symbol of the same name with other assumptions"""
    if isinstance(p, bool):
        return p
    if isinstance(p, int):
        return rng.choice([float(p), sympy.Integer(p)]) if abs(p) < 2 ** 53 else sympy.Integer(p)
    if isinstance(p, float):
        if p == p and abs(p) < 2 ** 53 and p == int(p):  # collides under == and hash
            return rng.choice([int(p), sympy.Integer(int(p))])
        return sympy.Float(p) if p == p and abs(p) != float("inf") else p  # collides under == only
    if isinstance(p, sympy.Symbol):
        return twin_symbol(p)
    if isinstance(p, sympy.Expr):
        syms = sorted(p.atoms(sympy.Symbol), key=lambda s: (s.name, str(sorted(s.assumptions0.items()))))
        if syms:
            s = rng.choice(syms)
            return p.xreplace({s: twin_symbol(s)})
        if p.is_Integer:
            return rng.choice([int(p), float(int(p))]) if abs(p) < 2 ** 53 else int(p)
        if p.is_Float:
            return float(p)
    return p


def twin_value(rng, v):
    """the same value as another Python / sympy type (for symbol maps)"""
    t = twin_param(rng, v)
    if isinstance(v, sympy.Expr) and v.atoms(sympy.Symbol):
        return v  # symbolic values have no numeric twin
    return t


def one_param_names(max_nq):
    tab = GC.builtin_table()
    return sorted(n for n, e in tab.items() if e["kind"] == "param" and e["nparams"] == 1 and e["nq"] <= max_nq)


def fixed_names(max_nq):
    tab = GC.builtin_table()
    return sorted(n for n, e in tab.items() if e["kind"] == "fixed" and e["nq"] <= max_nq)


def sibling_ops(rng, width, params, n_ops, custom_defs=None, fixed=0.3, max_arity=3):
    """n_ops gate operations on ``width`` qubits drawn from small per-circuit pools.

    params: the shared parameter values (1-2 entries; numbers, symbols or expressions)
    custom_defs: optional custom gate definitions (typically of ONE name and different matrices)
    Returns the list of operations (at least one)."""
    tab = GC.builtin_table()
    max_arity = min(max_arity, width)
    inner_nq = 1 if max_arity < 3 or rng.random() < 0.75 else 2  # leave room for controls
    one = one_param_names(min(inner_nq, max_arity))
    bases = [("builtin", n) for n in rng.sample(one, min(len(one), rng.randint(1, 3)))]
    if rng.random() < fixed:
        fx = fixed_names(min(inner_nq, max_arity))
        bases += [("builtin", n) for n in rng.sample(fx, min(len(fx), rng.randint(1, 3)))]
        if rng.random() < 0.4:  # only parameter-less gates: every parameter tuple is ()
            bases = [b for b in bases if tab[b[1]]["kind"] == "fixed"]
    for d in custom_defs or []:
        if _def_width(d) <= max_arity:
            bases.append(("custom", d))
    wrappers = rng.sample(WRAPPERS, rng.randint(1, 3))
    if len(bases) == 1 and len(wrappers) == 1 and rng.random() < 0.8:
        wrappers.append(rng.choice([w for w in WRAPPERS if w != wrappers[0]]))
    if not any(_EXTRA[w] for w in wrappers) and rng.random() < 0.7:
        wrappers.append(rng.choice(["c1", "C1", "c1.dagger", "dagger.c1"]))
    params = list(params)
    ops, gates = [], []
    for _ in range(n_ops):
        r = rng.random()
        if gates and r < 0.18:  # the very same gate object once more
            g = rng.choice(gates)
        else:
            kind, b = rng.choice(bases)
            p = rng.choice(params)
            if rng.random() < 0.15:
                p = twin_param(rng, p)
            if kind == "custom":
                args = [p] + [rng.choice(params) for _ in range(len(b.params_ordering) - 1)]
                g0 = b(*args)
            elif tab[b]["kind"] == "fixed":
                g0 = tab[b]["ref"]
            else:
                g0 = tab[b]["ref"](p)
            fit = [w for w in wrappers if g0.num_qubits + _EXTRA[w] <= max_arity] or \
                [w for w in ("c1", "dagger", "plain") if g0.num_qubits + _EXTRA[w] <= max_arity]
            if not fit:
                continue
            g = apply_wrapper(g0, rng.choice(fit))
        gates.append(g)
        ops.append(g(*GC.rand_qubits(rng, g.num_qubits, width)))
    if not ops:
        g = tab["RX"]["ref"](params[0])
        ops.append(g(*GC.rand_qubits(rng, 1, width)))
    return ops
