"""Families of near-identical circuit specs (plain data, see rv.gen.runners).

A per-object memo table is only wrong when two *different* inputs share a key.
The keys that plausibly get chosen for a circuit are coarse views of it: its
address, its gate names, its operations without the register size, its shape
without the parameters, a rounded parameter, the set (not the sequence) of its
operations, a prefix.  ``near_family`` produces specs that pairwise differ in
exactly one such respect, so that every such key has a collision inside one
short call history.
"""
import math

from .runners import CLASSICAL_1Q, CLASSICAL_2Q, DIAG_PARAM

ROT = ["RX", "RY"]
MUTATIONS = ["param", "param", "param-close", "param-eq", "param-eq", "param-eq", "qubit", "qubit", "gate", "idle", "idle", "append", "prepend", "drop",
             "swap", "copy", "dup"]


def _rand_op(rng, n, quantum):
    names = list(CLASSICAL_1Q) + ["X", "X"] + DIAG_PARAM
    if n >= 2:
        names += CLASSICAL_2Q * 2
    if quantum:
        names += ROT
    name = rng.choice(names)
    if name in CLASSICAL_2Q:
        a, b = rng.sample(range(n), 2)
        return (name, (a, b), None)
    if name in DIAG_PARAM or name in ROT:
        return (name, (rng.randrange(n),), round(rng.uniform(-3, 3), 3))
    return (name, (rng.randrange(n),), None)


def base_spec(rng, quantum=False):
    n = rng.randint(1, 4)
    ops = [_rand_op(rng, n, quantum) for _ in range(rng.randint(1, 5))]
    if rng.random() < 0.7 and not any(p is not None for _n, _q, p in ops):
        name = rng.choice(DIAG_PARAM + (ROT if quantum else []))
        ops.insert(rng.randint(0, len(ops)), (name, (rng.randrange(n),), round(rng.uniform(-3, 3), 3)))
    return {"n": n, "ops": ops}


def mutate(rng, spec, kind, quantum=False, max_n=5):
    """a spec that differs from ``spec`` in one respect (``kind``), or None when
    that mutation does not apply"""
    n, ops = spec["n"], list(spec["ops"])
    if kind == "copy":
        return {"n": n, "ops": ops}
    if kind == "idle":
        used = max([max(q) + 1 for _n, q, _p in ops], default=0)
        if n < max_n and (rng.random() < 0.7 or used >= n):
            return {"n": n + rng.randint(1, min(2, max_n - n)), "ops": ops}
        if used < n:
            return {"n": rng.randint(used, n - 1), "ops": ops}
        return None
    if kind in ("append", "prepend"):
        if n == 0:
            return None
        op = _rand_op(rng, n, quantum)
        return {"n": n, "ops": ops + [op] if kind == "append" else [op] + ops}
    if not ops:
        return None
    i = rng.randrange(len(ops))
    name, qs, p = ops[i]
    if kind in ("param", "param-close", "param-eq"):
        idx = [j for j, o in enumerate(ops) if o[2] is not None]
        if not idx:
            return None
        i = rng.choice(idx)
        name, qs, p = ops[i]
        if kind == "param-eq":
            # a different number that a tolerance based comparison (numpy.allclose: 1e-8 absolute + 1e-5 relative;
            # the library's circuits / gates compare that way) calls equal to p: anything that recognises "the same
            # circuit again" by such a comparison confuses the two
            q = p + rng.choice([1e-9, -1e-9, 3e-9, 1e-12, -1e-10, 2e-7 * p, -1e-6 * p, 1e-15, 5e-9])
            if q == p:
                q = math.nextafter(p, math.inf)
            ops[i] = (name, qs, q)
            return {"n": n, "ops": ops}
        if kind == "param-close":
            q = round(p + rng.choice([0.001, -0.001, 0.004]), 3)
        else:
            q = rng.choice([round(rng.uniform(-3, 3), 3), -p, round(p + 2 * math.pi, 3), float(round(p)), 0.0])
        if q == p:
            q = round(p + 0.5, 3)
        ops[i] = (name, qs, q)
    elif kind == "qubit":
        if len(qs) == 2:
            others = [x for x in range(n) if x not in qs]
            if others and rng.random() < 0.5:
                new = (qs[0], rng.choice(others)) if rng.random() < 0.5 else (rng.choice(others), qs[1])
            else:
                new = (qs[1], qs[0])
        else:
            others = [x for x in range(n) if x != qs[0]]
            if not others:
                return None
            new = (rng.choice(others),)
        ops[i] = (name, new, p)
    elif kind == "gate":
        if name in CLASSICAL_2Q:
            alt = [x for x in CLASSICAL_2Q if x != name]
        elif name in DIAG_PARAM or name in ROT:
            alt = [x for x in DIAG_PARAM + (ROT if quantum else []) if x != name]
        else:
            alt = [x for x in CLASSICAL_1Q if x != name]
        ops[i] = (rng.choice(alt), qs, p)
    elif kind == "drop":
        del ops[i]
    elif kind == "dup":
        ops.insert(i, ops[i])
    elif kind == "swap":
        cand = [j for j in range(len(ops) - 1) if ops[j] != ops[j + 1]]
        if not cand:
            return None
        j = rng.choice(cand)
        ops[j], ops[j + 1] = ops[j + 1], ops[j]
    else:
        raise ValueError(kind)
    return {"n": n, "ops": ops}


def near_family(rng, size, quantum=False):
    """(specs, how): ``size`` specs grown from one base spec, every further member
    one mutation away from an earlier member; how[i] = 'base' | '<kind>(<parent>)'"""
    fam = [base_spec(rng, quantum)]
    how = ["base"]
    tries = 0
    while len(fam) < size and tries < 50 * size:
        tries += 1
        j = rng.randrange(len(fam))
        kind = rng.choice(MUTATIONS)
        v = mutate(rng, fam[j], kind, quantum)
        if v is None:
            continue
        fam.append(v)
        how.append(f"{kind}({j})")
    return fam, how
