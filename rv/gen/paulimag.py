"""Seeded coefficient generators spanning many orders of magnitude (no library import).

Used by the C03 classes that look for behaviour depending on the *size* of the
coefficients (thresholds scaled by a magnitude, tolerances that are relative where
the property states an absolute one, terms dropped as "negligible" beside large ones).

dyadic values are  +-k * 2^e  (k = 1..7, e in [emin, emax]): multiples of 2^emin with a
3-bit mantissa, so sums and differences of a few of them (and the products of two of
them) are exact in binary floating point; generic values are +-m * 10^u.
"""
import cmath
import math


def dyadic_real(rng, emin=-10, emax=17):
    return rng.choice([-1, 1]) * rng.randint(1, 7) * 2.0 ** rng.randint(emin, emax)


def dyadic(rng, emin=-10, emax=17, kind=None):
    """+-k*2^e as float, pure imaginary or complex (both parts of the same order), sometimes an int"""
    kind = kind or rng.choice(["float", "float", "imag", "complex", "int"])
    if kind == "int":
        e = rng.randint(max(0, emin), max(0, emax))
        return rng.choice([-1, 1]) * rng.randint(1, 7) * 2**e
    if kind == "float":
        return dyadic_real(rng, emin, emax)
    if kind == "imag":
        return complex(0.0, dyadic_real(rng, emin, emax))
    e = rng.randint(emin, emax)
    return complex(dyadic_real(rng, e, e), dyadic_real(rng, max(emin, e - 2), e))


def generic_real(rng, umin=-5.0, umax=6.0):
    return rng.choice([-1, 1]) * rng.uniform(1.0, 10.0) * 10.0 ** rng.uniform(umin, umax)


def generic(rng, umin=-5.0, umax=6.0, kind=None):
    kind = kind or rng.choice(["float", "complex", "imag"])
    if kind == "float":
        return generic_real(rng, umin, umax)
    if kind == "imag":
        return complex(0.0, generic_real(rng, umin, umax))
    u = rng.uniform(umin, umax)
    return complex(generic_real(rng, u, u), generic_real(rng, max(umin, u - 1.5), u))


def coeff(rng, regime, lo=None, hi=None):
    """a coefficient whose magnitude is drawn log-uniformly; lo/hi are binary exponents
    (dyadic) or decimal exponents (generic)"""
    if regime == "dyadic":
        return dyadic(rng, -10 if lo is None else lo, 17 if hi is None else hi)
    return generic(rng, -5.0 if lo is None else lo, 6.0 if hi is None else hi)


def large(rng, regime):
    """|c| between ~3e2 and ~5e5 (dyadic: below 2^19, so that a sum of two stays below 2^20)"""
    return coeff(rng, regime, 8, 16) if regime == "dyadic" else coeff(rng, regime, 2.5, 5.5)


def small(rng, regime):
    """|c| between ~2e-4 (dyadic) / 1e-5 (generic) and ~0.1, far above the 1e-8 drop threshold"""
    return coeff(rng, regime, -12, -4) if regime == "dyadic" else coeff(rng, regime, -5.0, -2.0)


def _shape(rng, r):
    shape = rng.choice(["real", "real", "imag", "complex"])
    if shape == "real":
        return r
    if shape == "imag":
        return complex(0.0, r)
    return complex(r, -r if rng.random() < 0.5 else r)


def cancelling(rng, regime):
    """(c, r): a large coefficient c and the residual r that is left when like terms with
    coefficients summing to c meet a term with coefficient -(c - r).  The RATIO |r|/|c| is
    drawn log-uniformly between ~1e-10 and ~1e-3 (so relative tolerances of any plausible size
    are straddled), while r itself stays between 2.4e-4 and 0.25 (dyadic, a multiple of 2^-12)
    or 1e-6 and 0.3 (generic): at least a hundred times the 1e-8 drop threshold."""
    if regime == "dyadic":
        g = rng.randint(11, 28)  # log2 of |c| / |r|
        e = rng.randint(max(8, g - 12), min(16, g - 2))
        k = rng.randint(1, 7)
        mag = k * 2.0**e
        c = rng.choice([-1, 1]) * mag
        kind = rng.choice(["float", "float", "imag", "complex"])
        if kind == "imag":
            c = complex(0.0, c)
        elif kind == "complex":
            c = complex(c, rng.choice([-1, 1]) * rng.randint(1, 7) * 2.0 ** rng.randint(max(8, e - 2), e))
        r = rng.choice([-1, 1]) * 2.0 ** (e - g)
    else:
        g = rng.uniform(3.0, 10.5)  # log10 of |c| / |r|
        u = rng.uniform(max(2.5, g - 6.0), min(6.0, g - 0.5))
        c = generic(rng, u, u)
        r = rng.choice([-1, 1]) * rng.uniform(1.0, 3.0) * 10.0 ** (u - g)
    return c, _shape(rng, r)


def split(rng, regime, c, parts):
    """c written as a sum of `parts` numbers of at least its own order of magnitude
    (exactly, in the dyadic regime)"""
    out, rest = [], c
    for _ in range(parts - 1):
        m = abs(c)
        if regime == "dyadic":
            e = max(-10, min(16, int(math.floor(math.log2(m))) if m > 0 else 0))
            p = dyadic(rng, e, e, kind="float" if not isinstance(c, complex) else None)
        else:
            p = c * rng.uniform(0.3, 1.7) * (cmath.exp(1j * rng.uniform(-1, 1)) if isinstance(c, complex) else 1)
        out.append(p)
        rest = rest - p
    out.append(rest)
    return out


def scalar(rng, regime, emin=-12, emax=6):
    """a plain number of extreme size used as operand / divisor: power of two (exact reciprocal),
    small-mantissa dyadic, or generic float / complex"""
    if regime == "dyadic":
        kind = rng.choice(["pow2", "pow2", "dy", "int", "complex"])
        if kind == "pow2":
            return rng.choice([-1, 1]) * 2.0 ** rng.randint(emin, emax)
        if kind == "int":
            return rng.choice([-1, 1]) * rng.randint(1, 7) * 2 ** rng.randint(0, max(0, emax))
        if kind == "complex":
            e = rng.randint(emin, emax)
            return complex(dyadic_real(rng, e, e), dyadic_real(rng, e, e))
        return dyadic_real(rng, emin, emax)
    return generic(rng, emin * 0.30103, emax * 0.30103)
