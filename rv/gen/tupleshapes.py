"""Ordered qubit tuples of every SHAPE a lifting routine may be tempted to special-case.

A gate on k qubits is placed on an ordered tuple of distinct register positions.  Short-cuts in the placement code
test coarse features of the tuple - "contiguous", "starts at the smallest and ends at the largest index",
"ascending", "is its own inverse as a permutation", "fits below bit 8" - and are right for most tuples with that
feature.  ``shaped_tuple`` draws tuples by feature so that each such test has members on both sides of it within
a few cases; ``shape_of`` names the features of a tuple for the evidence.
"""

SHAPES = ["block-interior-permuted", "block-reversed", "block-rotated", "block-ascending", "block-random",
          "gapped-ascending", "gapped-ends-in-place", "gapped-random", "spread-to-the-ends", "non-involution"]


def _is_involution(order):
    """the permutation 'sorted position -> given position' is its own inverse"""
    rank = {q: i for i, q in enumerate(sorted(order))}
    p = [rank[q] for q in order]
    return all(p[p[i]] == i for i in range(len(p)))


def shape_of(qs):
    qs = list(qs)
    k = len(qs)
    feats = []
    lo, hi = min(qs), max(qs)
    block = hi - lo + 1 == k
    feats.append("block" if block else "gapped")
    if qs == sorted(qs):
        feats.append("ascending")
    elif qs == sorted(qs, reverse=True):
        feats.append("descending")
    if k >= 2 and qs[0] == lo and qs[-1] == hi and qs != sorted(qs):
        feats.append("ends-in-place-interior-permuted")
    feats.append("involution" if _is_involution(qs) else "non-involution")
    return "+".join(feats)


def shaped_tuple(rng, k, n, shape=None):
    """ordered tuple of k distinct positions in range(n) with the requested shape (falls back to a random tuple when
    the shape needs more room or more qubits than there are); returns (tuple, shape actually produced)"""
    shape = shape or rng.choice(SHAPES)
    if k == 1:
        return (rng.randrange(n),), "single"
    start = rng.randint(0, n - k)
    block = list(range(start, start + k))
    if shape == "block-ascending":
        return tuple(block), shape
    if shape == "block-reversed":
        return tuple(reversed(block)), shape
    if shape == "block-rotated":
        r = rng.randint(1, k - 1)
        return tuple(block[r:] + block[:r]), shape
    if shape == "block-interior-permuted" and k >= 4:
        mid = block[1:-1]
        for _ in range(10):
            rng.shuffle(mid)
            if mid != block[1:-1]:
                break
        return tuple([block[0]] + mid + [block[-1]]), shape
    if shape == "block-random" or (shape == "block-interior-permuted" and k < 4):
        qs = block[:]
        rng.shuffle(qs)
        return tuple(qs), "block-random"
    if n > k:
        pos = sorted(rng.sample(range(n), k))
        if shape == "gapped-ascending":
            return tuple(pos), shape
        if shape == "gapped-ends-in-place" and k >= 3:
            mid = pos[1:-1]
            rng.shuffle(mid)
            return tuple([pos[0]] + mid + [pos[-1]]), shape
        if shape == "spread-to-the-ends":
            rest = rng.sample(range(1, n - 1), k - 2) if n - 2 >= k - 2 else []
            if len(rest) == k - 2:
                qs = [0, n - 1] + rest
                rng.shuffle(qs)
                return tuple(qs), shape
        if shape == "non-involution" and k >= 3:
            for _ in range(20):
                qs = pos[:]
                rng.shuffle(qs)
                if not _is_involution(qs):
                    return tuple(qs), shape
        qs = pos[:]
        rng.shuffle(qs)
        return tuple(qs), "gapped-random"
    qs = block[:]
    rng.shuffle(qs)
    return tuple(qs), "block-random"
