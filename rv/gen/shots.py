"""Seeded generators of shot lists (measured bitstrings), Z-type operator
specifications and count dictionaries (C10).  Pure Python: nothing from the
library is imported here; the property module turns a term specification into
a library operator.
"""

SHOT_STYLES = ["pool", "pool", "pool", "uniform", "biased", "constant", "single", "two", "cover"]
TERM_STYLES = ["overlap", "overlap", "repeated", "constants", "single", "constant_only",
               "nested", "disjoint", "random", "random", "full"]


def rand_bits(rng, width):
    return tuple(rng.randint(0, 1) for _ in range(width))


def rand_shots(rng, width=None, style=None, max_shots=300):
    """-> (style, list of equal-length tuples of 0/1), 1..max_shots shots, widths 1-8,
    heavy repetition in most styles"""
    width = width or rng.randint(1, 8)
    style = style or rng.choice(SHOT_STYLES)
    if style == "single":
        return style, [rand_bits(rng, width)]
    if style == "two":
        return style, [rand_bits(rng, width), rand_bits(rng, width)]
    n = rng.choice([rng.randint(2, 12), rng.randint(2, 60), rng.randint(2, max_shots), max_shots])
    if style == "constant":
        s = rand_bits(rng, width)
        return style, [s] * n
    if style == "pool":
        k = rng.randint(2, min(2 ** width, 6))
        pool = []
        while len(pool) < k:
            s = rand_bits(rng, width)
            if s not in pool:
                pool.append(s)
        weights = [rng.choice([1, 1, 2, 5, 20]) for _ in pool]
        shots = rng.choices(pool, weights=weights, k=n)
        return style, shots
    if style == "uniform":
        return style, [rand_bits(rng, width) for _ in range(n)]
    if style == "biased":
        p = [rng.choice([0.05, 0.3, 0.5, 0.9, 1.0, 0.0]) for _ in range(width)]
        return style, [tuple(1 if rng.random() < p[q] else 0 for q in range(width)) for _ in range(n)]
    if style == "cover":
        w = min(width, 4)
        allo = [tuple((i >> (w - 1 - q)) & 1 for q in range(w)) + (0,) * (width - w) for i in range(2 ** w)]
        shots = list(allo) + [rng.choice(allo) for _ in range(max(0, n - len(allo)))]
        rng.shuffle(shots)
        return style, shots[:max_shots]
    raise ValueError(style)


def rand_coeff(rng):
    """real coefficients: signs, zero, integers, dyadic and generic floats, 1e-6..1e6"""
    kind = rng.choice(["unit", "int", "float", "float", "dyadic", "scale", "zero"])
    if kind == "unit":
        return rng.choice([1, -1, 1.0, -1.0])
    if kind == "int":
        return rng.randint(-20, 20)
    if kind == "float":
        return rng.uniform(-5, 5)
    if kind == "dyadic":
        return rng.randint(-64, 64) / 16
    if kind == "scale":
        return rng.choice([-1, 1]) * 10 ** rng.uniform(-6, 6)
    return rng.choice([0, 0.0, -0.0])


def _support(rng, width, kmin=1, kmax=None):
    kmax = min(kmax or width, width)
    k = rng.randint(min(kmin, kmax), kmax)
    return tuple(sorted(rng.sample(range(width), k)))


def rand_terms(rng, width, style=None):
    """-> (style, [(sorted qubit tuple, coefficient), ...]); the empty tuple is a
    constant term"""
    style = style or rng.choice(TERM_STYLES)
    terms = []
    if style == "single":
        terms = [(_support(rng, width), rand_coeff(rng))]
    elif style == "constant_only":
        terms = [((), rand_coeff(rng)) for _ in range(rng.randint(1, 2))]
    elif style == "overlap":
        # pairs with overlapping, unequal supports: symmetric difference != union
        for _ in range(rng.randint(1, 3)):
            a = set(_support(rng, width, 1))
            b = set(a)
            q = rng.choice(sorted(a))
            b = {q} | set(_support(rng, width, 1))
            if b == a and width > 1:
                extra = [x for x in range(width) if x not in a]
                if extra:
                    b = b | {rng.choice(extra)}
                elif len(a) > 1:
                    b = b - {rng.choice([x for x in sorted(a) if x != q])}
            terms.append((tuple(sorted(a)), rand_coeff(rng)))
            terms.append((tuple(sorted(b)), rand_coeff(rng)))
    elif style == "repeated":
        s = _support(rng, width)
        terms = [(s, rand_coeff(rng)), (s, rand_coeff(rng))]
        for _ in range(rng.randint(0, 2)):
            terms.append((_support(rng, width), rand_coeff(rng)))
        if rng.random() < 0.5:
            terms.append(terms[0])
    elif style == "constants":
        for _ in range(rng.randint(1, 4)):
            terms.append((_support(rng, width), rand_coeff(rng)))
        for _ in range(rng.randint(1, 2)):
            terms.insert(rng.randint(0, len(terms)), ((), rand_coeff(rng)))
    elif style == "nested":
        s = list(_support(rng, width, 1))
        rng.shuffle(s)
        for k in range(1, len(s) + 1):
            terms.append((tuple(sorted(s[:k])), rand_coeff(rng)))
        terms = terms[:5]
    elif style == "disjoint":
        qs = list(range(width))
        rng.shuffle(qs)
        while qs and len(terms) < 4:
            k = rng.randint(1, max(1, len(qs) // 2))
            terms.append((tuple(sorted(qs[:k])), rand_coeff(rng)))
            qs = qs[k:]
    elif style == "full":
        terms = [(tuple(range(width)), rand_coeff(rng)), (_support(rng, width), rand_coeff(rng))]
    else:
        for _ in range(rng.randint(2, 6)):
            terms.append((_support(rng, width) if rng.random() < 0.85 else (), rand_coeff(rng)))
    rng.shuffle(terms)
    return style, terms


def has_overlapping_pair(terms):
    """some pair of terms whose supports intersect without being equal"""
    for i, (a, _) in enumerate(terms):
        for b, _ in terms[:i]:
            sa, sb = set(a), set(b)
            if sa & sb and sa != sb:
                return True
    return False


def counts_of(shots):
    out = {}
    for s in shots:
        k = "".join("1" if b else "0" for b in s)
        out[k] = out.get(k, 0) + 1
    return out


def rand_counts(rng, width=None, zero_entries=False):
    """histogram: 0..8 distinct outcomes of one width, multiplicities 1..40 (occasionally
    large), optionally some explicit zero entries"""
    width = width or rng.randint(1, 8)
    k = rng.randint(0, min(2 ** width, 8))
    out = {}
    while len(out) < k:
        key = "".join(rng.choice("01") for _ in range(width))
        out[key] = rng.choice([1, 1, 2, 3, rng.randint(1, 40), rng.randint(100, 300)])
    if zero_entries and out:
        for key in rng.sample(sorted(out), rng.randint(1, len(out))):
            if rng.random() < 0.5:
                out[key] = 0
    return out
