"""Runtime-monitoring framework for orquestra-quantum (see /verif/DESIGN.md)."""
