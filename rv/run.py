"""Orchestrator: shards -> merged verdict -> evidence / replay files.

  python -m rv.run C07 --tier quick
  python -m rv.run C07 --tier thorough
  python -m rv.run C07 --replay replays/C07-....json

exit 0  property held on everything explored (KNOWN-FINDING lines possible)
exit 1  VIOLATION property=<id> replay=<path>
exit 2  INCONCLUSIVE property=<id> reason=...   (never folded into 0 or 1)
"""
import argparse
import hashlib
import importlib
import json
import os
import shutil
import subprocess
import sys
import tempfile
import time

from . import boot

VERIF = boot.VERIF_DIR
KNOWN_FILE = os.path.join(VERIF, "known_findings.json")
QUICK_SLACK = 3
DEFAULT_BUDGET = {"quick": (4, 20, 400), "thorough": (16, 240, 100000)}
# thorough tiers also run the repository's own test suite under the property's passive monitors (second,
# independent workload). C07 is left out: its monitors recompute sympy matrix powers/exponentials for every
# modifier call the tests make, which takes > 15 min.
PIGGYBACK_PROPS = {"C01", "C02", "C03", "C04", "C05", "C06", "C08", "C09", "C10", "C11", "C12", "C13", "C14", "C15",
                   "C16", "C17", "C18", "C19", "C20"}


def evidence_dir():
    return os.environ.get("VERIF_EVIDENCE_DIR", os.path.join(VERIF, "evidence"))


def replay_dir():
    return os.environ.get("VERIF_REPLAY_DIR", os.path.join(VERIF, "replays"))


def load_known(prop):
    """open known findings for this property: key -> entry"""
    try:
        with open(KNOWN_FILE) as f:
            data = json.load(f)
    except FileNotFoundError:
        return {}
    out = {}
    for e in data.get("findings", []):
        if e.get("status") == "open" and prop in e.get("properties", [e.get("property")]):
            out[e["key"]] = e
    return out


def spawn(prop, tier, seed, shard, nshards, budget, max_cases, out, hashseed, only=None, echo=False):
    env = dict(os.environ)
    env["PYTHONHASHSEED"] = str(hashseed)
    env["PYTHONPATH"] = VERIF + os.pathsep + env.get("PYTHONPATH", "")
    env.setdefault("OMP_NUM_THREADS", "1")
    env.setdefault("OPENBLAS_NUM_THREADS", "1")
    cmd = [
        sys.executable, "-m", "rv.worker", prop, "--tier", tier, "--seed", str(seed),
        "--shard", str(shard), "--nshards", str(nshards), "--budget", str(budget),
        "--max-cases", str(max_cases), "--out", out,
    ]
    if only:
        cmd += ["--only", only]
    if echo:
        cmd += ["--echo"]
    return subprocess.Popen(cmd, env=env, cwd=VERIF, stdout=subprocess.PIPE,
                            stderr=subprocess.STDOUT, text=True)


def spawn_piggyback(prop, tier, seed, out, only=None):
    env = dict(os.environ)
    env["PYTHONHASHSEED"] = "0"
    env["PYTHONPATH"] = VERIF + os.pathsep + env.get("PYTHONPATH", "")
    env.setdefault("OMP_NUM_THREADS", "1")
    env.setdefault("OPENBLAS_NUM_THREADS", "1")
    cmd = [sys.executable, "-m", "rv.worker", prop, "--tier", tier, "--seed", str(seed), "--out", out, "--piggyback"]
    if only:
        cmd += ["--only", only]
    return subprocess.Popen(cmd, env=env, cwd=VERIF, stdout=subprocess.PIPE, stderr=subprocess.STDOUT, text=True)


def run_shards(prop, tier, seed, nshards, budget, max_cases, only=None, hashseeds=None, piggyback=False,
               piggy_only=None, echo=False):
    tmp = tempfile.mkdtemp(prefix=f"rv-{prop}-")
    procs = []
    results = []
    try:
        if piggyback:
            out = os.path.join(tmp, "piggyback.json")
            procs.append(("piggyback", out, spawn_piggyback(prop, tier, seed, out, piggy_only)))
            if piggy_only:
                nshards = 0
        for i in range(nshards):
            out = os.path.join(tmp, f"shard{i}.json")
            # every shard runs under a hash seed of its own in BOTH tiers (quick: 0..3): the order in which sets and
            # dicts of strings iterate is part of the explored space, a result may not depend on it
            hs = hashseeds[i] if hashseeds else i
            procs.append((i, out, spawn(prop, tier, seed, i, nshards, budget, max_cases, out, hs, only, echo)))
        deadline = time.time() + 7 * budget + (900 if piggyback else 120)
        for i, out, p in procs:
            try:
                stdout, _ = p.communicate(timeout=max(5, deadline - time.time()))
            except subprocess.TimeoutExpired:
                p.kill()
                stdout, _ = p.communicate()
                results.append({"shard": i, "fatal": "watchdog", "stdout": (stdout or "")[-1500:]})
                continue
            if os.path.exists(out):
                with open(out) as f:
                    r = json.load(f)
                if p.returncode != 0:
                    r.setdefault("fatal", f"exit {p.returncode}")
                results.append(r)
            else:
                results.append({"shard": i, "fatal": f"crashed rc={p.returncode}",
                                "stdout": (stdout or "")[-1500:]})
    finally:
        shutil.rmtree(tmp, ignore_errors=True)
    return results


def merge(results):
    m = {
        "evaluations": 0, "classes": {}, "nontrivial": set(), "samples": [],
        "inconclusive_cases": [], "case_errors": [], "n_case_errors": 0,
        "hits": {}, "judged": {}, "ood": {}, "checks": {}, "notes": {},
        "violations": [], "n_violations": 0, "known": {}, "known_samples": {},
        "monitor_errors": [], "n_monitor_errors": 0, "reach_calls": {},
        "reach_branches": {}, "reach_lines": {}, "fatal": [], "time_capped": 0,
        "exhausted_by_shard": [], "shards_ok": 0, "hashseeds": [], "echo_cases": 0, "echo_scribbled": 0,
    }

    def addc(dst, src):
        for k, v in (src or {}).items():
            dst[k] = dst.get(k, 0) + v

    for r in results:
        if "fatal" in r:
            m["fatal"].append({k: r.get(k) for k in ("shard", "fatal", "stdout")})
            if "evaluations" not in r:
                continue
        if r.get("shard") != "piggyback":
            m["shards_ok"] += 1
            m["hashseeds"].append(r.get("hashseed"))
        m["evaluations"] += r["evaluations"]
        m["echo_cases"] += r.get("echo_cases", 0)
        m["echo_scribbled"] += r.get("echo_scribbled", 0)
        for c, v in r["classes"].items():
            d = m["classes"].setdefault(c, [0, 0, 0])
            for i in range(3):
                d[i] += v[i]
        m["nontrivial"].update(r["nontrivial_hashes"])
        m["samples"].extend(r["samples"])
        m["inconclusive_cases"].extend(r["inconclusive_cases"])
        m["case_errors"].extend(r["case_errors"])
        m["n_case_errors"] += r.get("n_case_errors", 0)
        for key in ("hits", "judged", "ood", "checks", "notes", "known"):
            addc(m[key], r.get(key))
        for v in r["violations"]:
            v = dict(v)
            v["shard"] = r["shard"]
            v["hashseed"] = r.get("hashseed")
            m["violations"].append(v)
        m["n_violations"] += r["n_violations"]
        for k, v in r.get("known_samples", {}).items():
            v = dict(v)
            v["hashseed"] = r.get("hashseed")
            m["known_samples"].setdefault(k, v)
        m["monitor_errors"].extend(r["monitor_errors"])
        m["n_monitor_errors"] += r["n_monitor_errors"]
        rc = r.get("reach", {})
        for k, v in rc.get("calls", {}).items():
            if v is None:
                m["reach_calls"].setdefault(k, None)
            else:
                m["reach_calls"][k] = (m["reach_calls"].get(k) or 0) + v
        for k, v in rc.get("lines_hit", {}).items():
            m["reach_lines"][k] = max(m["reach_lines"].get(k, 0), v)
        for k, v in rc.get("branches", {}).items():
            if v is None:
                m["reach_branches"].setdefault(k, None)
            else:
                m["reach_branches"][k] = max(m["reach_branches"].get(k) or 0, v)
        if "piggyback" in r:
            m["piggyback"] = r["piggyback"]
        m["time_capped"] += 1 if r.get("time_capped") else 0
        if r.get("shard") != "piggyback":
            m["exhausted_by_shard"].append(set(r.get("exhausted", [])))
    return m


def write_replay(prop, tier, seed, v):
    os.makedirs(replay_dir(), exist_ok=True)
    case = v.get("case") or {}
    tag = hashlib.sha1((v["kind"] + str(case)).encode()).hexdigest()[:8]
    import re

    idx = re.sub(r"[^A-Za-z0-9_.-]+", "_", str(case.get("index", "x")))[-80:]
    path = os.path.join(replay_dir(), f"{prop}-s{seed}-{case.get('cls', 'x')}-{idx}-{tag}.json")
    with open(path, "w") as f:
        json.dump(
            {
                "property": prop, "tier": tier, "seed": seed, "case": case,
                "hashseed": v.get("hashseed", "0"), "kind": v["kind"],
                "detail": v["detail"], "case_desc": v.get("case_desc"),
                "how": f"/venv/bin/python -m rv.run {prop} --replay <this file>",
            },
            f, indent=1,
        )
    return path


def decide(prop, tier, seed, mod, m, wall, single_case=False):
    """returns (exit_code, lines, evidence dict)"""
    lines = []
    known_open = load_known(prop)
    violations = list(m["violations"])
    n_viol = m["n_violations"]
    known_counts = {}
    for key, n in m["known"].items():
        if key in known_open:
            known_counts[key] = n
        else:
            # the monitor recognised a mechanism that is not (or no longer)
            # listed as an open finding -> it is a violation
            s = dict(m["known_samples"][key])
            s["kind"] = f"{s['kind']} [mechanism {key} not listed as open finding]"
            violations.append(s)
            n_viol += n
    # case errors: unexpected exceptions escaping the library or the driver
    for e in m["case_errors"][:10]:
        violations.append({
            "kind": "unexpected-exception", "detail": e["trace"], "known": None,
            "case": {"cls": e["cls"], "index": e["index"]}, "case_desc": e.get("desc"),
            "hashseed": "0",
        })
    n_viol += m["n_case_errors"]

    reasons = []
    deciding = list(getattr(mod, "DECIDING", []))
    branches = list(getattr(mod, "BRANCHES", []))
    if hasattr(mod, "applicable"):
        # monitors / branches that describe states of the library's PRESENT algorithm (which internal situation a
        # correctly answered call went through) are required only while that algorithm is in place: the module says
        # which of them apply to the tree that was observed (reach counters of private helpers)
        deciding, branches = mod.applicable(deciding, branches, m)
    for name in deciding:
        n = m["judged"].get(name, 0) + m["checks"].get(name, 0)
        if n == 0 and m["notes"].get(f"hook-missing:{name}"):
            # a PRIVATE helper that this tree does not have (renamed / inlined by a refactoring): there is nothing to
            # observe at that place; the property is decided by the monitors on the public entry points
            continue
        if n == 0 and not single_case:
            reasons.append(f"deciding monitor '{name}' never gave a verdict")
    for b in branches:
        if m["reach_branches"].get(b) == 0 and not single_case:
            reasons.append(f"branch '{b}' never reached")
    min_evals = getattr(mod, "MIN_EVALS", {}).get(tier, 10)
    if m["evaluations"] < min_evals and not single_case:
        reasons.append(f"only {m['evaluations']} cases completed (< {min_evals})")
    if m["shards_ok"] == 0:
        reasons.append("every shard crashed or hit the watchdog")
    if m["n_monitor_errors"] > 0:
        reasons.append(f"{m['n_monitor_errors']} monitor errors (harness bug): "
                       + (m["monitor_errors"][0]["trace"].strip().splitlines()[-1] if m["monitor_errors"] else ""))
    if len(m["nontrivial"]) < 2 and not single_case:
        reasons.append("fewer than 2 distinct non-trivial cases")

    exhaustive_done = []
    for cls in getattr(mod, "EXHAUSTIVE", {}):
        sets = m["exhausted_by_shard"]
        if sets and all(cls in s for s in sets) and not m["fatal"]:
            exhaustive_done.append(cls)

    for key, n in sorted(known_counts.items()):
        e = known_open[key]
        lines.append(f"KNOWN-FINDING: property={prop} {key} x{n}: {e['what']}")

    if n_viol > 0:
        seen = set()
        for v in violations:
            k = v["kind"]
            if k in seen:
                continue
            seen.add(k)
            if len(seen) > 12:
                break
            path = write_replay(prop, tier, seed, v)
            lines.append(f"VIOLATION property={prop} replay={path}")
            lines.append(f"  kind={v['kind']} case={v.get('case')} :: {str(v['detail'])[:600]}")
        code = 1
    elif reasons:
        for r in reasons:
            lines.append(f"INCONCLUSIVE property={prop} reason={r}")
        code = 2
    else:
        code = 0

    samples = m["samples"][:6] or [{"note": "no non-trivial sample recorded"}]
    cov = {
        "evaluations": m["evaluations"],
        "distinct_nontrivial": len(m["nontrivial"]),
        "rule": getattr(mod, "RULE", ""),
        "samples": samples,
        "classes": {k: {"cases": v[0], "nontrivial": v[1], "timeouts": v[2]} for k, v in sorted(m["classes"].items())},
        "monitor_evaluations": dict(sorted(m["hits"].items())),
        "monitor_verdicts": dict(sorted(m["judged"].items())),
        "driver_checks": dict(sorted(m["checks"].items())),
        "out_of_domain": dict(sorted(m["ood"].items())),
        "observed": dict(sorted(m["notes"].items())),
        "reach": {"calls": m["reach_calls"], "lines_hit": m["reach_lines"], "branches": m["reach_branches"]},
        "inconclusive_cases": m["inconclusive_cases"][:15],
        "n_inconclusive_cases": sum(v[2] for v in m["classes"].values()),
        "monitor_errors": m["n_monitor_errors"],
        "known_findings": known_counts,
        "shards": {"ok": m["shards_ok"], "fatal": m["fatal"], "time_capped": m["time_capped"],
                   "hashseeds": m["hashseeds"]},
        "exhaustive_classes_completed": exhaustive_done,
        "echo": {"cases_run_again_after_modifying_their_results_in_place": m["echo_cases"],
                 "result_containers_modified": m["echo_scribbled"]},
        "piggyback": m.get("piggyback", "not run in this tier"),
        "verdict": {0: "held", 1: "violated", 2: "inconclusive"}[code],
        "inconclusive_reasons": reasons,
    }
    if getattr(mod, "EXHAUSTIVE", None):
        cov["exhaustive_subspaces"] = {k: v for k, v in mod.EXHAUSTIVE.items()}
        cov["exhaustive"] = bool(exhaustive_done) and set(exhaustive_done) == set(mod.EXHAUSTIVE) and False
    level = getattr(mod, "LEVEL", "exploration")
    if level == "other":
        cov["explanation"] = getattr(mod, "EXPLANATION", "")
    ev = {
        "property_id": prop,
        "tier": tier,
        "seed": seed,
        "level": level,
        "coverage": cov,
        "assumptions": list(getattr(mod, "ASSUMPTIONS", [])),
        "wall_s": round(wall, 2),
        "violations": n_viol,
    }
    return code, lines, ev


def main(argv=None):
    ap = argparse.ArgumentParser()
    ap.add_argument("prop")
    ap.add_argument("--tier", default=os.environ.get("VERIF_TIER", "quick"), choices=["quick", "thorough"])
    ap.add_argument("--replay", default=None)
    ap.add_argument("--shards", type=int, default=None)
    ap.add_argument("--budget", type=float, default=None)
    ap.add_argument("--max-cases", type=int, default=None)
    ap.add_argument("--piggyback", action="store_true", help="also run the repository's own tests under the monitors")
    a = ap.parse_args(argv)
    prop = a.prop
    seed = int(os.environ.get("VERIF_SEED", "0") or 0)
    t0 = time.time()
    boot.setup()
    mod = importlib.import_module(f"rv.props.{prop}")

    if a.replay:
        with open(a.replay) as f:
            rp = json.load(f)
        case = rp["case"]
        if case.get("cls") == "pytest":
            res = run_shards(prop, rp.get("tier", "quick"), rp["seed"], 0, 600, 1, piggyback=True,
                             piggy_only=case["index"])
        else:
            res = run_shards(prop, rp.get("tier", "quick"), rp["seed"], 1, 600, 1,
                             only=f"{case['cls']}:{case['index']}", hashseeds=[rp.get("hashseed", 0)],
                             echo=bool(case.get("echo")))
        m = merge(res)
        os.environ.setdefault("VERIF_REPLAY_DIR", tempfile.gettempdir())
        code, lines, ev = decide(prop, rp.get("tier", "quick"), rp["seed"], mod, m, time.time() - t0, single_case=True)
        for ln in lines:
            print(ln)
        print(f"replay of {a.replay}: {'VIOLATED again' if code == 1 else 'no violation'}")
        return 1 if code == 1 else 0

    nshards, budget, max_cases = getattr(mod, "BUDGET", {}).get(a.tier, DEFAULT_BUDGET[a.tier])
    nshards = a.shards or nshards
    budget = a.budget or budget
    max_cases = a.max_cases or max_cases
    nshards = max(1, min(nshards, os.cpu_count() or 1))
    if a.tier == "quick" and not a.budget:
        # the quick tier is defined by its number of cases (the same cases whatever the load of the machine, so that
        # what it can detect does not depend on how busy the machine is); the CPU budget of the module is what an idle
        # machine needs for them, and the limit actually enforced is QUICK_SLACK times that
        budget = budget * QUICK_SLACK
    piggy = (a.tier == "thorough" and (getattr(mod, "PIGGYBACK", False) or prop in PIGGYBACK_PROPS) and not os.environ.get("VERIF_NO_PIGGYBACK")) \
        or a.piggyback
    results = run_shards(prop, a.tier, seed, nshards, budget, max_cases, piggyback=piggy)
    m = merge(results)
    code, lines, ev = decide(prop, a.tier, seed, mod, m, time.time() - t0)
    os.makedirs(evidence_dir(), exist_ok=True)
    with open(os.path.join(evidence_dir(), f"{prop}.json"), "w") as f:
        json.dump(ev, f, indent=1, default=str)
    for ln in lines:
        print(ln)
    cov = ev["coverage"]
    print(
        f"{prop} {a.tier} seed={seed}: {cov['verdict']}; cases={cov['evaluations']} "
        f"distinct_nontrivial={cov['distinct_nontrivial']} monitor_verdicts={sum(cov['monitor_verdicts'].values())} "
        f"driver_checks={sum(cov['driver_checks'].values())} timeouts={cov['n_inconclusive_cases']} "
        f"known={cov['known_findings']} wall={ev['wall_s']}s"
    )
    return code


if __name__ == "__main__":
    sys.exit(main())
