"""Canonical deep snapshots of library values: only publicly observable state
(widths, operation structure, parameters, term dictionaries and coefficients,
bitstring lists, distribution items in order, amplitudes); private caches such
as PauliTerm._circuit / PauliSum._is_ising are ignored.

snap(x) returns a nested tuple of plain Python values that can be compared with
== and printed.  Unknown objects are summarised by type name only (they are
outside what the property speaks about)."""
import numbers

import numpy as np
import sympy

MAX_DEPTH = 12


def _num(x):
    # distinguish 1, 1.0, (1+0j), np.float64(1.0): type name + repr
    return (type(x).__name__, repr(x))


def _expr(e):
    try:
        return ("sympy", sympy.srepr(e))
    except Exception:
        return ("sympy-str", str(e))


def _array(a):
    a = np.asarray(a)
    if a.dtype == object:
        return ("ndarray-object", a.shape, tuple(snap(x) for x in a.ravel().tolist()))
    return ("ndarray", str(a.dtype), a.shape, a.tobytes())


def snap(x, depth=0):
    if depth > MAX_DEPTH:
        return ("...",)
    if x is None or isinstance(x, (bool, str, bytes)):
        return x
    if isinstance(x, (int, float, complex)):
        return _num(x)
    if isinstance(x, np.generic):
        return _num(x)
    if isinstance(x, np.ndarray):
        return _array(x)
    if isinstance(x, sympy.MatrixBase):
        return ("sympy-matrix", x.shape, tuple(_expr(e) for e in x))
    if isinstance(x, sympy.Basic):
        return _expr(x)
    tname = type(x).__name__
    mod = type(x).__module__ or ""
    if isinstance(x, dict):
        return ("dict", tuple((snap(k, depth + 1), snap(v, depth + 1)) for k, v in x.items()))
    if isinstance(x, (list, tuple)):
        return (tname, tuple(snap(v, depth + 1) for v in x))
    if isinstance(x, (set, frozenset)):
        return (tname, tuple(sorted((snap(v, depth + 1) for v in x), key=repr)))
    if isinstance(x, range):
        return ("range", x.start, x.stop, x.step)
    if mod.startswith("scipy.sparse"):
        c = x.tocoo()
        return ("sparse", c.shape, str(c.dtype), tuple(sorted(zip(c.row.tolist(), c.col.tolist(), [repr(v) for v in c.data.tolist()]))))
    if not mod.startswith("orquestra.quantum") and not mod.startswith("rv."):
        if isinstance(x, numbers.Number):
            return _num(x)
        return ("opaque", tname)
    # ---- library values
    if tname == "Circuit":
        return ("Circuit", snap(x.n_qubits), tuple(snap(op, depth + 1) for op in x.operations))
    if tname == "GateOperation":
        return ("GateOperation", snap(x.gate, depth + 1), snap(tuple(x.qubit_indices), depth + 1))
    if tname == "MatrixFactoryGate":
        fac = x.matrix_factory
        if type(fac).__name__ == "CustomGateMatrixFactory":
            d = fac.gate_definition
            f = ("custom", d.gate_name, snap(d.matrix, depth + 1), snap(tuple(d.params_ordering), depth + 1))
        else:
            f = ("factory", getattr(fac, "__name__", repr(fac)))
        return ("MatrixFactoryGate", x.name, f, snap(tuple(x.params), depth + 1), x.num_qubits, x.is_hermitian)
    if tname == "ControlledGate":
        return ("ControlledGate", snap(x.wrapped_gate, depth + 1), snap(x.num_control_qubits))
    if tname == "Dagger":
        return ("Dagger", snap(x.wrapped_gate, depth + 1))
    if tname == "Power":
        return ("Power", snap(x.wrapped_gate, depth + 1), snap(x.exponent))
    if tname == "Exponential":
        return ("Exponential", snap(x.wrapped_gate, depth + 1))
    if tname == "CustomGateDefinition":
        return ("CustomGateDefinition", x.gate_name, snap(x.matrix, depth + 1), snap(tuple(x.params_ordering), depth + 1))
    if tname == "MultiPhaseOperation":
        return ("MultiPhaseOperation", snap(tuple(x.params), depth + 1))
    if tname == "ResetOperation":
        return ("ResetOperation", snap(tuple(x.qubit_indices)), snap(tuple(x.params), depth + 1))
    if tname == "PauliTerm":
        return ("PauliTerm", tuple(sorted(x.operations)), snap(x.coefficient))
    if tname == "PauliSum":
        return ("PauliSum", type(x.terms).__name__, tuple(snap(t, depth + 1) for t in x.terms))
    if tname == "Measurements":
        return ("Measurements", type(x.bitstrings).__name__, tuple(snap(tuple(b), depth + 1) for b in x.bitstrings))
    if tname == "MeasurementOutcomeDistribution":
        return ("MeasurementOutcomeDistribution", snap(x.distribution_dict, depth + 1))
    if tname == "Wavefunction":
        return ("Wavefunction", snap(x.amplitudes, depth + 1))
    if tname == "ExpectationValues":
        return ("ExpectationValues", snap(x.values, depth + 1), snap(x.correlations, depth + 1),
                snap(x.estimator_covariances, depth + 1))
    if tname == "Parities":
        return ("Parities", snap(x.values, depth + 1), snap(x.correlations, depth + 1))
    if tname == "EstimationTask":
        return ("EstimationTask", snap(x.operator, depth + 1), snap(x.circuit, depth + 1), snap(x.number_of_shots))
    if tname == "ValueEstimate":
        return ("ValueEstimate", snap(x.value), snap(x.precision))
    return ("opaque", tname)


def is_value(x):
    """does the snapshot of x carry information (i.e. is x something whose state could be changed)?"""
    s = snap(x)
    return not (isinstance(s, tuple) and len(s) == 2 and s[0] == "opaque")


def diff(a, b, path="", out=None, limit=3):
    """human-readable first differences between two snapshots"""
    out = [] if out is None else out
    if len(out) >= limit:
        return out
    if a == b:
        return out
    if isinstance(a, tuple) and isinstance(b, tuple) and len(a) == len(b):
        for i, (x, y) in enumerate(zip(a, b)):
            diff(x, y, f"{path}/{i}", out, limit)
        return out
    sa, sb = repr(a), repr(b)
    out.append(f"{path}: {sa[:160]} -> {sb[:160]}")
    return out
