"""Process bootstrap: pin the library under test to /repo's working tree."""
import faulthandler
import os
import sys
import warnings

VERIF_DIR = os.path.dirname(os.path.dirname(os.path.abspath(__file__)))
DEFAULT_SRC = "/repo/src"


def repo_src() -> str:
    """Directory the library is imported from.

    ``VERIF_REPO_SRC`` is only used by the self-test (mutants applied to a
    scratch copy of the sources); registered commands never set it.
    """
    return os.path.abspath(os.environ.get("VERIF_REPO_SRC", DEFAULT_SRC))


def setup() -> str:
    src = repo_src()
    # The repo is an editable install; putting the source dir first makes the
    # choice explicit (and lets the self-test point at a mutated copy).
    if src in sys.path:
        sys.path.remove(src)
    sys.path.insert(0, src)
    try:
        faulthandler.enable()
    except Exception:
        pass
    warnings.simplefilter("ignore")
    os.environ.setdefault("OMP_NUM_THREADS", "1")
    os.environ.setdefault("OPENBLAS_NUM_THREADS", "1")
    import orquestra.quantum as oq

    paths = [os.path.abspath(p) for p in oq.__path__]
    if not any(p.startswith(src) for p in paths):
        raise RuntimeError(
            f"orquestra.quantum imported from {paths}, expected under {src}"
        )
    return src
