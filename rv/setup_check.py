"""MANIFEST.setup_cmd: nothing to build; verify the interpreter, the library
import path and the tools the checks rely on."""
import sys

from . import boot


def main():
    src = boot.setup()
    import numpy
    import scipy
    import sympy

    print(f"python {sys.version.split()[0]} numpy {numpy.__version__} scipy {scipy.__version__} sympy {sympy.__version__}")
    print(f"orquestra.quantum from {src}; sys.monitoring={'yes' if hasattr(sys, 'monitoring') else 'no'}")
    return 0


if __name__ == "__main__":
    sys.exit(main())
