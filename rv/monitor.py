"""Hook layer, event log, re-entrancy guard and reach counters.

Monitors never raise into the monitored code: they record and return.  The
driver turns the recorded events into the verdict.
"""
import functools
import inspect
import re
import sys
import traceback
from collections import Counter, defaultdict

MAX_STORED = 40  # violations stored with full detail (all are counted)


class CaseTimeout(BaseException):
    """Raised from the SIGALRM handler; BaseException so library code that
    catches ``Exception`` cannot swallow it."""


class Call:
    __slots__ = ("hook", "args", "kwargs", "result", "exc", "pre")

    def __init__(self, hook, args, kwargs):
        self.hook = hook
        self.args = args
        self.kwargs = kwargs
        self.result = None
        self.exc = None
        self.pre = None


def short(obj, limit=400):
    try:
        s = repr(obj)
    except Exception as e:  # pragma: no cover - defensive
        s = f"<unreprable {type(obj).__name__}: {e}>"
    return s if len(s) <= limit else s[: limit - 3] + "..."


class Monitor:
    def __init__(self, prop):
        self.prop = prop
        self.active = True
        self.hits = Counter()  # post-callback evaluations per hook
        self.judged = Counter()  # evaluations in which the oracle gave a verdict
        self.ood = Counter()  # calls outside the oracle's domain
        self.checks = Counter()  # driver-level relational checks
        self.violations = []
        self._per_kind = {}
        self.n_violations = 0
        self.known = Counter()
        self.known_samples = {}
        self.monitor_errors = []
        self.n_monitor_errors = 0
        self.case = None  # dict(cls=.., index=..) while a case runs
        self.case_desc = None
        self._in_monitor = 0
        self._depth = 0
        self.max_depth = 2
        self.notes = Counter()  # free-form counters (branch tallies etc.)
        # when a list: results of outermost hooked calls (the objects handed to the driver) are appended, so
        # that the driver can modify them in place after the case and run the case again (rv.core, "echo")
        self.collect = None

    # ------------------------------------------------------------------ events
    def reset_guard(self):
        self._in_monitor = 0
        self._depth = 0

    def ok(self, hook):
        self.judged[hook] += 1

    def out_of_domain(self, hook):
        self.ood[hook] += 1

    def note(self, key, n=1):
        self.notes[key] += n

    def violation(self, kind, detail, known=None):
        """Record a refuting event.  ``known`` is the mechanism key of a
        known finding if the monitor recognised one (the orchestrator decides
        whether that key is actually listed in known_findings.json)."""
        rec = {
            "kind": kind,
            "detail": detail if isinstance(detail, str) else short(detail, 1500),
            "case": dict(self.case) if self.case else None,
            "case_desc": self.case_desc,
            "known": known,
        }
        if known:
            self.known[known] += 1
            self.known_samples.setdefault(known, rec)
            return
        self.n_violations += 1
        # keep a few witnesses PER KIND so that one frequent defect cannot crowd out the others
        k = self._per_kind.get(kind, 0)
        if k < 3 and len(self._per_kind) <= MAX_STORED:
            self._per_kind[kind] = k + 1
            self.violations.append(rec)

    def check(self, name, ok, detail=None, known=None):
        """Driver-level relational check (needs more than one call)."""
        self.checks[name] += 1
        if not ok:
            self.violation(name, detail() if callable(detail) else detail, known)
        return ok

    def _monitor_error(self, hook, phase):
        self.n_monitor_errors += 1
        if len(self.monitor_errors) < 20:
            self.monitor_errors.append(
                {
                    "hook": hook,
                    "phase": phase,
                    "case": dict(self.case) if self.case else None,
                    "trace": traceback.format_exc(limit=6)[-1500:],
                }
            )

    # ------------------------------------------------------------------- hooks
    def _wrap(self, name, orig, pre, post):
        mon = self

        @functools.wraps(orig)
        def wrapper(*args, **kwargs):
            if mon._in_monitor or not mon.active or mon._depth >= mon.max_depth:
                return orig(*args, **kwargs)
            call = Call(name, args, kwargs)
            if pre is not None:
                mon._in_monitor += 1
                try:
                    call.pre = pre(mon, call)
                except CaseTimeout:
                    raise
                except Exception:
                    mon._monitor_error(name, "pre")
                finally:
                    mon._in_monitor -= 1
            mon._depth += 1
            try:
                call.result = orig(*args, **kwargs)
            except CaseTimeout:
                mon._depth -= 1
                raise
            except BaseException as e:
                call.exc = e
                mon._depth -= 1
                mon._post(name, post, call)
                raise
            mon._depth -= 1
            mon._post(name, post, call)
            if mon.collect is not None and mon._depth == 0 and call.result is not None and len(mon.collect) < 5000:
                mon.collect.append(call.result)
            return call.result

        wrapper.__rv_orig__ = orig
        return wrapper

    def _post(self, name, post, call):
        if post is None:
            return
        if isinstance(call.exc, (KeyboardInterrupt, SystemExit)):
            return
        self._in_monitor += 1
        try:
            self.hits[name] += 1
            post(self, call)
        except CaseTimeout:
            raise
        except Exception:
            self._monitor_error(name, "post")
        finally:
            self._in_monitor -= 1

    def hook_func(self, module, attr, post=None, pre=None, name=None, optional=False):
        """Hook a module-level function and rebind every alias of it that the
        already-imported orquestra modules hold (``from m import f``).  ``optional``: a helper that is not part of
        the public interface although its name has no underscore (it lives in a private module and is exported by no
        package): treated like a private one when the tree does not have it"""
        orig = getattr(module, attr, None)
        if orig is None and (attr.startswith("_") or optional):
            # a private helper that this tree does not have (renamed / inlined): nothing to observe there
            self.notes[f"hook-missing:{name or attr}"] = 1
            return None
        if orig is None:
            raise AttributeError(f"{module.__name__}.{attr}")
        if hasattr(orig, "__rv_orig__"):
            raise RuntimeError(f"{attr} already hooked")
        name = name or f"{module.__name__.split('.')[-1]}.{attr}"
        wrapper = self._wrap(name, orig, pre, post)
        for extra in ("register", "dispatch", "registry", "cache_clear", "cache_info"):
            if hasattr(orig, extra):
                try:
                    setattr(wrapper, extra, getattr(orig, extra))
                except Exception:
                    pass
        n = 0
        for modname, mod in list(sys.modules.items()):
            if mod is None or not modname.startswith("orquestra.quantum"):
                continue
            for k, v in list(vars(mod).items()):
                if v is orig:
                    setattr(mod, k, wrapper)
                    n += 1
        self.notes[f"rebound:{name}"] = n
        return wrapper

    def hook_method(self, cls, attr, post=None, pre=None, name=None, overrides=False):
        """Hook a method / property / staticmethod / classmethod of a class.

        ``overrides=True`` also hooks every override of ``attr`` that an already imported subclass from the
        library defines in its own ``__dict__`` (a subclass that starts to override a base-class method - a
        cache in front of it, say - must not escape the monitor that was put on the base class)."""
        if overrides:
            seen = set()
            stack = list(cls.__subclasses__())
            while stack:
                sub = stack.pop()
                if sub in seen:
                    continue
                seen.add(sub)
                stack.extend(sub.__subclasses__())
                if not getattr(sub, "__module__", "").startswith("orquestra.quantum"):
                    continue
                raw_sub = sub.__dict__.get(attr)
                fn = raw_sub.fget if isinstance(raw_sub, property) else getattr(raw_sub, "__func__", raw_sub)
                if raw_sub is not None and not hasattr(fn, "__rv_orig__"):
                    self.hook_method(sub, attr, post=post, pre=pre, name=name or f"{cls.__name__}.{attr}")
                    self.notes[f"override-hooked:{sub.__name__}.{attr}"] = 1
        raw = None
        for klass in cls.__mro__:
            if attr in klass.__dict__:
                raw = klass.__dict__[attr]
                break
        if raw is not None and klass is not cls:
            # the class INHERITS the attribute (it may have overridden it in another version of the tree): when what it
            # inherits is already one of our wrappers - the base class was hooked first - wrapping it again on the
            # subclass would run the monitor twice per call (a refactoring that drops an override must not turn into
            # a double count: harmless C14-R9)
            fn_ = raw.fget if isinstance(raw, property) else getattr(raw, "__func__", raw)
            if hasattr(fn_, "__rv_orig__"):
                self.notes[f"hook-inherited:{cls.__name__}.{attr}"] = 1
                return None
        if raw is None and attr.startswith("_") and not attr.startswith("__"):
            self.notes[f"hook-missing:{name or attr}"] = 1
            return None
        if raw is None:
            raise AttributeError(f"{cls.__name__}.{attr}")
        name = name or f"{cls.__name__}.{attr}"
        if isinstance(raw, property):
            new = property(self._wrap(name, raw.fget, pre, post), raw.fset, raw.fdel)
        elif isinstance(raw, staticmethod):
            new = staticmethod(self._wrap(name, raw.__func__, pre, post))
        elif isinstance(raw, classmethod):
            new = classmethod(self._wrap(name, raw.__func__, pre, post))
        else:
            new = self._wrap(name, raw, pre, post)
        setattr(cls, attr, new)
        return new


# ----------------------------------------------------------------------- reach
def _code_of(obj):
    for _ in range(6):
        if isinstance(obj, property):
            obj = obj.fget
        elif isinstance(obj, (staticmethod, classmethod)):
            obj = obj.__func__
        elif hasattr(obj, "__rv_orig__"):
            obj = obj.__rv_orig__
        elif hasattr(obj, "__wrapped__") and not hasattr(obj, "__code__"):
            obj = obj.__wrapped__
        else:
            break
    return getattr(obj, "__code__", None)


class Reach:
    """Call counts and first-hit line sets for anchored functions, collected
    with ``sys.monitoring`` (PY_START; LINE with DISABLE after the first hit)."""

    def __init__(self):
        self.calls = Counter()
        self.lines = defaultdict(set)
        self.labels = {}  # code -> label
        self.markers = {}  # (label, marker_name) -> (code, line or None)
        self.tool = None
        mon = getattr(sys, "monitoring", None)
        if mon is None:
            return
        for tool in (3, 4, 1, 2):
            try:
                mon.use_tool_id(tool, "rv-reach")
                self.tool = tool
                break
            except ValueError:
                continue
        if self.tool is None:
            return
        ev = mon.events
        mon.register_callback(self.tool, ev.PY_START, self._on_start)
        mon.register_callback(self.tool, ev.LINE, self._on_line)

    def _on_start(self, code, offset):
        self.calls[code] += 1

    def _on_line(self, code, line):
        self.lines[code].add(line)
        return sys.monitoring.DISABLE

    def watch(self, obj, label, markers=None):
        """Register ``obj`` (function / property / method).  ``markers`` maps a
        branch name to a regex matched against the function's source lines."""
        code = _code_of(obj) if obj is not None else None
        if code is None:
            self.labels[("missing", label)] = label
            return
        self.labels[code] = label
        if self.tool is not None:
            ev = sys.monitoring.events
            sys.monitoring.set_local_events(self.tool, code, ev.PY_START | ev.LINE)
        if markers:
            try:
                src, first = inspect.getsourcelines(code)
            except Exception:
                src, first = [], 0
            for mname, rx in markers.items():
                line = None
                for i, text in enumerate(src):
                    if re.search(rx, text):
                        line = first + i
                        break
                self.markers[(label, mname)] = (code, line)

    def report(self):
        out = {"calls": {}, "lines_hit": {}, "branches": {}}
        for code, label in self.labels.items():
            if isinstance(code, tuple):
                out["calls"][label] = None
                continue
            out["calls"][label] = self.calls.get(code, 0)
            out["lines_hit"][label] = len(self.lines.get(code, ()))
        for (label, mname), (code, line) in self.markers.items():
            key = f"{label}:{mname}"
            if line is None:
                out["branches"][key] = None  # marker not found in source
            else:
                out["branches"][key] = 1 if line in self.lines.get(code, ()) else 0
        return out
