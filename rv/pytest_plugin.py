"""pytest plugin used by the piggyback workload: the repository's own tests run
while the passive monitors of ONE property are installed (rv.core.run_piggyback
sets everything up and registers an instance of this class)."""


class Plugin:
    def __init__(self, mon):
        self.mon = mon
        self.tests = 0
        self.mocked_tests = 0
        self.outcomes = {}

    def pytest_runtest_setup(self, item):
        self.mon.case = {"cls": "pytest", "index": item.nodeid}
        self.mon.case_desc = item.nodeid
        self.mon.reset_guard()
        # tests that replace library internals or collaborators by mocks do not execute the real code the
        # oracles reason about: the monitors sleep through them (counted)
        mocked = "mock" in item.nodeid.lower()
        if not mocked:
            try:
                import inspect

                src = inspect.getsource(item.function)
                mocked = "mock" in src.lower() or "monkeypatch" in src
            except Exception:
                mocked = False
        self.mon.active = not mocked
        if mocked:
            self.mocked_tests += 1

    def pytest_runtest_teardown(self, item):
        self.mon.active = True
        self.mon.case = None
        self.mon.case_desc = None

    def pytest_runtest_logreport(self, report):
        if report.when == "call":
            self.tests += 1
            self.outcomes[report.outcome] = self.outcomes.get(report.outcome, 0) + 1
