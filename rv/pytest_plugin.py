"""pytest plugin used by the piggyback workload: the repository's own tests run
while the passive monitors of ONE property are installed (rv.core.run_piggyback
sets everything up and registers an instance of this class)."""


class Plugin:
    def __init__(self, mon):
        self.mon = mon
        self.tests = 0
        self.outcomes = {}

    def pytest_runtest_setup(self, item):
        self.mon.case = {"cls": "pytest", "index": item.nodeid}
        self.mon.case_desc = item.nodeid
        self.mon.reset_guard()

    def pytest_runtest_teardown(self, item):
        self.mon.case = None
        self.mon.case_desc = None

    def pytest_runtest_logreport(self, report):
        if report.when == "call":
            self.tests += 1
            self.outcomes[report.outcome] = self.outcomes.get(report.outcome, 0) + 1
