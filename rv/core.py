"""Worker: runs the cases of one shard of one property under its monitors."""
import hashlib
import importlib
import json
import os
import random
import signal
import sys
import time
import traceback

import numpy as np

from . import boot
from .monitor import CaseTimeout, Monitor, Reach, short


def case_seed(seed, prop, cls, index):
    h = hashlib.sha256(f"{seed}:{prop}:{cls}:{index}".encode()).digest()
    return int.from_bytes(h[:8], "big")


class Exhausted(Exception):
    """raised by a property's run_case when an enumerated class has no case
    with this index"""


class Ctx:
    """Everything a case needs: rng streams, tier, the monitor."""

    def __init__(self, mon, prop, seed, tier, cls, index):
        self.mon = mon
        self.prop = prop
        self.seed = seed
        self.tier = tier
        self.cls = cls
        self.index = index
        s = case_seed(seed, prop, cls, index)
        self.rng = random.Random(s)
        self.nprng = np.random.default_rng(s)
        self.desc = None
        self.nontrivial = False
        self.tags = []

    @property
    def quick(self):
        return self.tier == "quick"

    def describe(self, desc, nontrivial=False):
        self.desc = desc if isinstance(desc, str) else short(desc, 600)
        self.nontrivial = bool(nontrivial)
        self.mon.case_desc = self.desc[:600]

    def tag(self, t):
        self.tags.append(t)

    def check(self, name, ok, detail=None, known=None):
        return self.mon.check(name, ok, detail, known)


def _alarm_handler(signum, frame):
    raise CaseTimeout()


# Budgets and per-case timeouts are measured in CPU time of the worker (ITIMER_PROF / process_time), so
# that a loaded machine (several checks at once) explores the same cases as an idle one; a generous
# wall-clock limit (WALL_FACTOR x) stays as a safety net.
WALL_FACTOR = 6


def _arm(seconds):
    signal.setitimer(signal.ITIMER_PROF, seconds)
    signal.alarm(int(seconds * WALL_FACTOR) + 1)


def _disarm():
    signal.setitimer(signal.ITIMER_PROF, 0)
    signal.alarm(0)


class Ambient:
    """Process-global settings of an application that uses the library, switched on for one case in four (decided by
    seed, class and index alone, so a replay meets the same settings): DEBUG logging with a handler that formats every
    record (lazy log arguments are evaluated), short numpy print options, a short decimal context, and a global numpy
    random state that was seeded by the application.  None of them is the library's to depend on or to disturb: results
    must be the same, and after the case the global numpy random state must not have been RESEEDED to a fixed state
    (consuming random numbers is fine)."""

    EVERY = 4

    def __init__(self):
        self.saved = None

    def enter(self, token):
        import decimal
        import io
        import logging

        import numpy as np

        root = logging.getLogger()
        buf = io.StringIO()
        handler = logging.StreamHandler(buf)
        handler.setFormatter(logging.Formatter("%(name)s %(levelname)s %(message)s"))
        self.saved = (root.level, handler, buf, np.get_printoptions(), decimal.getcontext().prec, logging.root.manager.disable)
        logging.disable(logging.NOTSET)
        root.setLevel(logging.DEBUG)
        root.addHandler(handler)
        np.set_printoptions(precision=3, threshold=5, edgeitems=1, linewidth=40, suppress=True)
        decimal.getcontext().prec = 7
        np.random.seed(token % (2**32))
        return self

    def exit(self):
        import decimal
        import logging

        import numpy as np

        level, handler, buf, popts, prec, disabled = self.saved
        root = logging.getLogger()
        root.removeHandler(handler)
        root.setLevel(level)
        logging.disable(disabled)
        np.set_printoptions(**popts)
        decimal.getcontext().prec = prec
        self.saved = None
        buf.close()


def run_shard(prop, tier, seed, shard, nshards, budget_s, max_cases, only=None, echo_only=False):
    """Returns the shard's result dict.  ``only`` = (cls, index) replays one case."""
    t0 = time.time()
    src = boot.setup()
    mod = importlib.import_module(f"rv.props.{prop}")
    mon = Monitor(prop)
    reach = Reach()
    mod.install(mon, reach)
    classes = list(mod.classes(tier))
    per_case_timeout = getattr(mod, "CASE_TIMEOUT", {}).get(tier, 10 if tier == "quick" else 30)
    signal.signal(signal.SIGALRM, _alarm_handler)
    signal.signal(signal.SIGPROF, _alarm_handler)
    c0 = time.process_time()

    res = {
        "prop": prop,
        "tier": tier,
        "seed": seed,
        "shard": shard,
        "nshards": nshards,
        "hashseed": os.environ.get("PYTHONHASHSEED", ""),
        "src": src,
        "evaluations": 0,
        "classes": {},
        "nontrivial_hashes": [],
        "samples": [],
        "inconclusive_cases": [],
        "case_errors": [],
        "exhausted": [],
        "time_capped": False,
    }
    nontrivial = set()
    samples_per_class = {}
    exhausted = set()
    n_case_errors = 0

    def one(cls, index, echo=False):
        nonlocal n_case_errors
        ctx = Ctx(mon, prop, seed, tier, cls, index)
        mon.case = {"cls": cls, "index": index, "echo": True} if echo else {"cls": cls, "index": index}
        mon.case_desc = None
        mon.reset_guard()
        token = case_seed(seed, "ambient", cls, index)
        amb = Ambient().enter(token) if ambient_on and token % Ambient.EVERY == 0 else None
        if amb is not None:
            mon.notes["ambient:cases under DEBUG logging / short print options / seeded global RNG"] = \
                mon.notes.get("ambient:cases under DEBUG logging / short print options / seeded global RNG", 0) + 1
        _arm(per_case_timeout)
        try:
            try:
                mod.run_case(ctx)
            finally:
                if amb is not None:
                    amb.exit()
        except Exhausted:
            _disarm()
            return "exhausted"
        except CaseTimeout:
            _disarm()
            mon.reset_guard()
            if len(res["inconclusive_cases"]) < 30:
                res["inconclusive_cases"].append(
                    {"cls": cls, "index": index, "reason": "timeout", "desc": ctx.desc}
                )
            res["classes"].setdefault(cls, [0, 0, 0])[2] += 1
            return "timeout"
        except Exception:
            _disarm()
            mon.reset_guard()
            # A driver error is a harness problem or an unexpected library
            # exception that the case did not anticipate: never a pass.
            n_case_errors += 1
            if len(res["case_errors"]) < 20:
                res["case_errors"].append(
                    {
                        "cls": cls,
                        "index": index,
                        "desc": ctx.desc,
                        "trace": traceback.format_exc(limit=8)[-2000:],
                    }
                )
            return "error"
        finally:
            _disarm()
            mon.case = None
        if echo:
            res["echo_cases"] += 1
            return "ok"
        res["evaluations"] += 1
        c = res["classes"].setdefault(cls, [0, 0, 0])
        c[0] += 1
        if ctx.desc is not None and ctx.nontrivial:
            c[1] += 1
            h = hashlib.sha1(ctx.desc.encode()).hexdigest()[:16]
            nontrivial.add(h)
            k = samples_per_class.get(cls, 0)
            if k < 2:
                samples_per_class[cls] = k + 1
                res["samples"].append({"cls": cls, "index": index, "case": ctx.desc[:500]})
        return "ok"

    # "echo": every ECHO-th case is run, then every object that an outermost hooked call handed to the driver is
    # modified in place (a caller owns what a value-returning operation gave it), then the same case - equal
    # inputs, fresh objects - is run again under the same monitors.  A library that kept an alias of something
    # it handed out (a memo table returning the cached object, a module-level constant returned by reference)
    # now answers from the caller's scribbles, and the monitors see it.
    ambient_on = getattr(mod, "AMBIENT", True)
    echo_every = getattr(mod, "ECHO", {}).get(tier, 3)
    res["echo_cases"] = 0
    res["echo_scribbled"] = 0

    def with_echo(cls, index):
        from .gen.scribble import scribble

        mon.collect = []
        try:
            out = one(cls, index)
            got = mon.collect
        finally:
            mon.collect = None
        if out != "ok":
            return out
        n = 0
        for r in got:
            n += scribble(r)
        del got
        res["echo_scribbled"] += n
        one(cls, index, echo=True)
        return out

    if only is not None:
        if echo_only:
            with_echo(*only)
        else:
            one(*only)
    else:
        r = 0
        done = 0
        while True:
            live = [c for c in classes if c not in exhausted]
            if not live:
                break
            stop = False
            for cls in live:
                if time.process_time() - c0 > budget_s or time.time() - t0 > WALL_FACTOR * budget_s:
                    res["time_capped"] = True
                    stop = True
                    break
                if done >= max_cases:
                    stop = True
                    break
                index = shard + r * nshards
                out = with_echo(cls, index) if echo_every and case_seed(seed, "echo", cls, index) % echo_every == 0 \
                    else one(cls, index)
                if out == "exhausted":
                    exhausted.add(cls)
                else:
                    done += 1
            if stop:
                break
            r += 1

    if hasattr(mod, "finish"):
        try:
            mod.finish(mon, res)
        except Exception:
            mon._monitor_error("finish", "finish")
    res["exhausted"] = sorted(exhausted)
    res["nontrivial_hashes"] = sorted(nontrivial)
    res["n_case_errors"] = n_case_errors
    res["hits"] = dict(mon.hits)
    res["judged"] = dict(mon.judged)
    res["ood"] = dict(mon.ood)
    res["checks"] = dict(mon.checks)
    res["notes"] = dict(mon.notes)
    res["violations"] = mon.violations
    res["n_violations"] = mon.n_violations
    res["known"] = dict(mon.known)
    res["known_samples"] = mon.known_samples
    res["monitor_errors"] = mon.monitor_errors
    res["n_monitor_errors"] = mon.n_monitor_errors
    res["reach"] = reach.report()
    res["wall_s"] = round(time.time() - t0, 3)
    res["cpu_s"] = round(time.process_time() - c0, 3)
    return res


def run_piggyback(prop, tier, seed, only=None):
    """Second workload: the repository's own test suite, run from a scratch copy of /repo/tests (the suite
    writes and deletes files relative to its cwd) against the working-tree sources, with the passive
    monitors of ``prop`` installed.  Violations are recorded, never raised, so test outcomes are unchanged."""
    import shutil
    import tempfile

    t0 = time.time()
    src = boot.setup()
    mod = importlib.import_module(f"rv.props.{prop}")
    mon = Monitor(prop)
    reach = Reach()
    mod.install(mon, reach)
    if hasattr(mod, "piggyback_setup"):
        mod.piggyback_setup(mon)
    import pytest

    from .pytest_plugin import Plugin

    repo_root = os.path.dirname(src)
    scratch = tempfile.mkdtemp(prefix=f"rv-piggy-{prop}-")
    plugin = Plugin(mon)
    try:
        shutil.copytree(os.path.join(repo_root, "tests"), os.path.join(scratch, "tests"),
                        ignore=shutil.ignore_patterns("__pycache__", "*.pyc"))
        cwd = os.getcwd()
        os.chdir(scratch)
        try:
            args = ["-q", "-x" if False else "-q", "-p", "no:cacheprovider", "--timeout=900", "--rootdir", scratch,
                    "-W", "ignore", "--no-header", "-o", "console_output_style=classic"]
            args += [only] if only else ["tests"]
            import contextlib
            import io as _io

            buf = _io.StringIO()
            with contextlib.redirect_stdout(buf):
                rc = pytest.main(args, plugins=[plugin])
        finally:
            os.chdir(cwd)
    finally:
        shutil.rmtree(scratch, ignore_errors=True)
    mon.active = False
    res = {
        "prop": prop, "tier": tier, "seed": seed, "shard": "piggyback", "nshards": 0,
        "hashseed": os.environ.get("PYTHONHASHSEED", ""), "src": src, "evaluations": 0, "classes": {},
        "nontrivial_hashes": [], "samples": [], "inconclusive_cases": [], "case_errors": [], "exhausted": [],
        "time_capped": False, "n_case_errors": 0,
        "piggyback": {"tests_run": plugin.tests, "tests_skipped_by_monitors_because_mocked": plugin.mocked_tests,
                      "outcomes": plugin.outcomes, "pytest_exit": int(rc),
                      "monitor_evaluations": int(sum(mon.hits.values())),
                      "monitor_verdicts": int(sum(mon.judged.values())),
                      "out_of_domain": int(sum(mon.ood.values()))},
    }
    if hasattr(mod, "finish"):
        try:
            mod.finish(mon, res)
        except Exception:
            pass
    res["hits"] = dict(mon.hits)
    res["judged"] = dict(mon.judged)
    res["ood"] = dict(mon.ood)
    res["checks"] = dict(mon.checks)
    res["notes"] = {}
    res["violations"] = mon.violations
    res["n_violations"] = mon.n_violations
    res["known"] = dict(mon.known)
    res["known_samples"] = mon.known_samples
    res["monitor_errors"] = mon.monitor_errors
    res["n_monitor_errors"] = mon.n_monitor_errors
    res["reach"] = reach.report()
    res["wall_s"] = round(time.time() - t0, 3)
    return res


def main(argv=None):
    import argparse

    ap = argparse.ArgumentParser()
    ap.add_argument("prop")
    ap.add_argument("--tier", default="quick")
    ap.add_argument("--seed", type=int, default=0)
    ap.add_argument("--shard", type=int, default=0)
    ap.add_argument("--nshards", type=int, default=1)
    ap.add_argument("--budget", type=float, default=30)
    ap.add_argument("--max-cases", type=int, default=10**9)
    ap.add_argument("--only", default=None, help="cls:index")
    ap.add_argument("--out", required=True)
    ap.add_argument("--piggyback", action="store_true")
    ap.add_argument("--echo", action="store_true", help="with --only: run the case, scribble on its results, run it again")
    a = ap.parse_args(argv)
    if a.piggyback:
        try:
            res = run_piggyback(a.prop, a.tier, a.seed, a.only)
        except Exception:
            res = {"fatal": traceback.format_exc()[-3000:], "prop": a.prop, "shard": "piggyback"}
        with open(a.out, "w") as f:
            json.dump(res, f, default=str)
        return 0
    only = None
    if a.only:
        cls, idx = a.only.rsplit(":", 1)
        only = (cls, int(idx))
    try:
        res = run_shard(a.prop, a.tier, a.seed, a.shard, a.nshards, a.budget, a.max_cases, only, a.echo)
    except Exception:
        res = {"fatal": traceback.format_exc()[-3000:], "prop": a.prop, "shard": a.shard}
    with open(a.out, "w") as f:
        json.dump(res, f, default=str)


