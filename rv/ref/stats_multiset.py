"""Brute-force sample statistics over a multiset of shots (plain Python, exact integer
tallies): the same quantities as rv/ref/stats.py, computed once per DISTINCT outcome and
weighted by its multiplicity, so that 70 000 shots, 250-qubit registers and 40-term
operators stay affordable.  Each outcome's term values are found by walking over the
term's qubits one by one - no packing, no vectorisation."""


def term_value(qubits, shot):
    v = 1
    for q in qubits:
        if int(shot[q]) == 1:
            v = -v
    return v


def _tallies(terms, multiset):
    """multiset: iterable of (shot, multiplicity) -> (n, S[i] = sum of values of term i,
    P[i][j] = sum of products of the values of terms i and j); all exact integers"""
    k = len(terms)
    n = 0
    S = [0] * k
    P = [[0] * k for _ in range(k)]
    for shot, m in multiset:
        m = int(m)
        n += m
        v = [term_value(qs, shot) for qs, _c in terms]
        for i in range(k):
            vi = v[i]
            S[i] += m * vi
            row = P[i]
            for j in range(k):
                row[j] += m * vi * v[j]
    return n, S, P


def expectation_values(terms, multiset):
    """-> (values, correlations, covariance numerators), as rv.ref.stats.expectation_values;
    coefficients may be complex: products are plain products (nothing is conjugated)"""
    k = len(terms)
    n, S, P = _tallies(terms, multiset)
    vals = [terms[i][1] * S[i] / n for i in range(k)]
    corr = [[terms[i][1] * terms[j][1] * P[i][j] / n + 0j for j in range(k)] for i in range(k)]
    cov_num = [[corr[i][j] - vals[i] * vals[j] for j in range(k)] for i in range(k)]
    return vals, corr, cov_num


def parities(terms, multiset):
    """even/odd tallies per term and per ordered pair, as rv.ref.stats.parities"""
    k = len(terms)
    n, S, P = _tallies(terms, multiset)
    # S = even - odd and n = even + odd
    vals = [[(n + S[i]) // 2, (n - S[i]) // 2] for i in range(k)]
    corr = [[[(n + P[i][j]) // 2, (n - P[i][j]) // 2] for j in range(k)] for i in range(k)]
    return vals, corr
