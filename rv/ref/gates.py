"""Textbook gate matrices and a bit-level state simulator, written from the
definitions (imports nothing from the library under test).

Convention (from the property statements): qubit 0 is the MOST significant bit
of a basis-state index; a measured tuple b = (b_0 ... b_{n-1}) is basis index
sum_q b_q 2^(n-1-q).
"""
import cmath
import math

import numpy as np

from . import linalg as L

_S2 = 1 / math.sqrt(2)


def fixed(name):
    if name == "I":
        return np.eye(2, dtype=complex)
    if name == "X":
        return np.array([[0, 1], [1, 0]], dtype=complex)
    if name == "Y":
        return np.array([[0, -1j], [1j, 0]], dtype=complex)
    if name == "Z":
        return np.array([[1, 0], [0, -1]], dtype=complex)
    if name == "H":
        return np.array([[_S2, _S2], [_S2, -_S2]], dtype=complex)
    if name == "S":
        return np.array([[1, 0], [0, 1j]], dtype=complex)
    if name == "T":
        return np.array([[1, 0], [0, cmath.exp(1j * math.pi / 4)]], dtype=complex)
    if name == "CNOT":  # first qubit controls
        return np.array([[1, 0, 0, 0], [0, 1, 0, 0], [0, 0, 0, 1], [0, 0, 1, 0]], dtype=complex)
    if name == "CZ":
        return np.diag([1, 1, 1, -1]).astype(complex)
    if name == "SWAP":
        return np.array([[1, 0, 0, 0], [0, 0, 1, 0], [0, 1, 0, 0], [0, 0, 0, 1]], dtype=complex)
    raise KeyError(name)


def rotation(name, theta):
    c, s = math.cos(theta / 2), math.sin(theta / 2)
    if name == "RX":  # exp(-i theta X / 2)
        return np.array([[c, -1j * s], [-1j * s, c]], dtype=complex)
    if name == "RY":  # exp(-i theta Y / 2)
        return np.array([[c, -s], [s, c]], dtype=complex)
    if name == "RZ":  # exp(-i theta Z / 2)
        return np.array([[cmath.exp(-1j * theta / 2), 0], [0, cmath.exp(1j * theta / 2)]], dtype=complex)
    if name == "PHASE":
        return np.array([[1, 0], [0, cmath.exp(1j * theta)]], dtype=complex)
    if name == "CPHASE":
        return np.diag([1, 1, 1, cmath.exp(1j * theta)]).astype(complex)
    raise KeyError(name)


def matrix(name, param=None):
    return fixed(name) if param is None else rotation(name, param)


def run(spec, n, state=None):
    """spec: list of (name, param or None, qubit tuple).  Returns the state vector."""
    if state is None:
        state = np.zeros(2**n, dtype=complex)
        state[0] = 1.0
    for name, param, qubits in spec:
        state = L.apply(matrix(name, param), tuple(qubits), n, state)
    return state


def index_of(bits):
    """basis index of a measured tuple (qubit 0 = most significant bit)"""
    n = len(bits)
    i = 0
    for q, b in enumerate(bits):
        i |= (int(b) & 1) << (n - 1 - q)
    return i


def bits_of(index, n):
    return tuple((index >> (n - 1 - q)) & 1 for q in range(n))


def classical_run(spec, n):
    """bit-level execution of a circuit of X / CNOT / SWAP gates on |0...0>"""
    bits = [0] * n
    for name, _param, qubits in spec:
        if name == "X":
            bits[qubits[0]] ^= 1
        elif name == "CNOT":
            bits[qubits[1]] ^= bits[qubits[0]]
        elif name == "SWAP":
            a, b = qubits
            bits[a], bits[b] = bits[b], bits[a]
        else:
            raise ValueError(name)
    return tuple(bits)


def z_parity(qubits, bits):
    s = 1
    for q in qubits:
        if bits[q]:
            s = -s
    return s


def z_expectation(probs, terms, n):
    """sum_b p(b) sum_t c_t prod_{q in t} (-1)^{b_q}; terms = [(qubits, coeff)]"""
    total = 0.0
    for i, p in enumerate(probs):
        if p == 0:
            continue
        b = bits_of(i, n)
        total += p * sum(c * z_parity(qs, b) for qs, c in terms)
    return total
