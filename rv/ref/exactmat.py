"""Exact matrix arithmetic over the Gaussian rationals Q(i), plain Python (fractions.Fraction / int).

Used where a property promises a result for EVERY integer (e.g. an integer power with an exponent beyond 2**53,
where floating point cannot even represent the exponent): the reference is computed by binary exponentiation on
exact entries.  Imports nothing from the library under test and does no sympy arithmetic; sympy objects are only
READ (``from_sympy``) to obtain the exact entries of a given matrix.

A matrix is a pair (Re, Im) of square lists of lists of ``Fraction`` (or ``int`` when every entry is integral).
"""
from fractions import Fraction


class TooBig(Exception):
    """entries outgrew the bit budget: the exact reference declines (caller: out of domain)"""


def eye(d):
    return ([[Fraction(int(i == j)) for j in range(d)] for i in range(d)], [[Fraction(0)] * d for _ in range(d)])


def _intify(M):
    re, im = M
    if all(x.denominator == 1 for row in re for x in row) and all(x.denominator == 1 for row in im for x in row):
        return [[int(x) for x in row] for row in re], [[int(x) for x in row] for row in im], True
    return re, im, False


def _fracify(M):
    re, im = M
    return [[Fraction(x) for x in row] for row in re], [[Fraction(x) for x in row] for row in im]


def mul(A, B):
    ar, ai = A
    br, bi = B
    d = len(ar)
    cr = [[0] * d for _ in range(d)]
    ci = [[0] * d for _ in range(d)]
    real_only = not any(x for row in ai for x in row) and not any(x for row in bi for x in row)
    for i in range(d):
        ari, aii = ar[i], ai[i]
        for k in range(d):
            xr, xi = ari[k], aii[k]
            if not xr and not xi:
                continue
            brk, bik = br[k], bi[k]
            cri, cii = cr[i], ci[i]
            if real_only:
                for j in range(d):
                    y = brk[j]
                    if y:
                        cri[j] += xr * y
            else:
                for j in range(d):
                    yr, yi = brk[j], bik[j]
                    if yr or yi:
                        cri[j] += xr * yr - xi * yi
                        cii[j] += xr * yi + xi * yr
    return cr, ci


def _bits(M):
    m = 0
    for part in M:
        for row in part:
            for x in row:
                if isinstance(x, Fraction):
                    b = max(x.numerator.bit_length(), x.denominator.bit_length())
                else:
                    b = int(x).bit_length()
                if b > m:
                    m = b
    return m


def inverse(M):
    """Gauss-Jordan over Q(i); raises ZeroDivisionError when singular"""
    re, im = _fracify(M)
    d = len(re)
    # complex Fractions as pairs
    A = [[(re[i][j], im[i][j]) for j in range(d)] + [(Fraction(int(i == j)), Fraction(0)) for j in range(d)] for i in range(d)]

    def cmul(x, y):
        return (x[0] * y[0] - x[1] * y[1], x[0] * y[1] + x[1] * y[0])

    def cinv(x):
        n = x[0] * x[0] + x[1] * x[1]
        if n == 0:
            raise ZeroDivisionError("singular")
        return (x[0] / n, -x[1] / n)

    for c in range(d):
        p = next((r for r in range(c, d) if A[r][c][0] != 0 or A[r][c][1] != 0), None)
        if p is None:
            raise ZeroDivisionError("singular")
        A[c], A[p] = A[p], A[c]
        inv = cinv(A[c][c])
        A[c] = [cmul(x, inv) for x in A[c]]
        for r in range(d):
            if r != c and (A[r][c][0] != 0 or A[r][c][1] != 0):
                f = A[r][c]
                A[r] = [(x[0] - (f[0] * y[0] - f[1] * y[1]), x[1] - (f[0] * y[1] + f[1] * y[0])) for x, y in zip(A[r], A[c])]
    return ([[A[i][d + j][0] for j in range(d)] for i in range(d)], [[A[i][d + j][1] for j in range(d)] for i in range(d)])


def power(M, e, max_bits=20000):
    """M**e for any Python int e (inverse for e < 0) by binary exponentiation; raises TooBig when an entry
    needs more than ``max_bits`` bits (matrices whose powers grow exponentially cannot be raised to 2**64),
    ZeroDivisionError when e < 0 and M is singular"""
    e = int(e)
    if e < 0:
        M = inverse(M)
        e = -e
    d = len(M[0])
    br, bi, _ = _intify(_fracify(M))
    base = (br, bi)
    rr, ri, _ = _intify(eye(d))
    result = (rr, ri)
    first = True
    while e:
        if e & 1:
            result = base if first else mul(result, base)
            first = False
            if _bits(result) > max_bits:
                raise TooBig()
        e >>= 1
        if e:
            base = mul(base, base)
            if _bits(base) > max_bits:
                raise TooBig()
    return _fracify(result)


def adjoint(M):
    re, im = M
    d = len(re)
    return ([[re[j][i] for j in range(d)] for i in range(d)], [[-im[j][i] for j in range(d)] for i in range(d)])


def controlled(M, k):
    re, im = _fracify(M)
    d = len(re)
    D = d * 2**k
    R, I = eye(D)
    for i in range(d):
        for j in range(d):
            R[D - d + i][D - d + j] = re[i][j]
            I[D - d + i][D - d + j] = im[i][j]
    return R, I


def equal(A, B):
    return _fracify(A) == _fracify(B)


def to_complex(M):
    """nested lists of Python complex (for tolerance comparisons and messages; may overflow to inf)"""
    re, im = M

    def f(x):
        try:
            return float(x)
        except OverflowError:
            return float("inf") if x > 0 else float("-inf")

    return [[complex(f(a), f(b)) for a, b in zip(rr, ri)] for rr, ri in zip(re, im)]


def from_sympy(S, allow_float=True):
    """((Re, Im), exact) when every entry of the sympy matrix is a Gaussian rational: sympy Integer / Rational real
    and imaginary parts (exact = True) or, with ``allow_float``, binary floating point numbers, which are dyadic
    rationals and are taken at their exact value (exact = False); else None.  Reads the entries only."""
    import sympy

    rows, cols = S.shape
    if rows != cols:
        return None
    re = [[None] * cols for _ in range(rows)]
    im = [[None] * cols for _ in range(rows)]
    exact = True

    def conv(a):
        nonlocal exact
        if a.is_Rational:
            return Fraction(int(a.p), int(a.q))
        if allow_float and a.is_Float:
            f = float(a)
            if f != f or f in (float("inf"), float("-inf")) or sympy.Float(f, a._prec) != a:
                return None
            exact = False
            return Fraction(f)
        return None

    for i in range(rows):
        for j in range(cols):
            x = sympy.sympify(S[i, j])
            if x.free_symbols:
                return None
            if x.is_Rational or x.is_Float:
                a, b = x, sympy.Integer(0)
            else:
                if not (x.is_Add or x.is_Mul or x is sympy.I) or not x.is_number:
                    return None
                if any(not (t.is_Rational or t.is_Float or t is sympy.I) for t in sympy.preorder_traversal(x) if t.is_Atom):
                    return None
                if any(not (t.is_Atom or t.is_Add or t.is_Mul) for t in sympy.preorder_traversal(x)):
                    return None
                a, b = x.as_real_imag()
            a, b = conv(a), conv(b)
            if a is None or b is None:
                return None
            re[i][j], im[i][j] = a, b
    return (re, im), exact
