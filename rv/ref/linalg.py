"""Reference linear algebra. Imports nothing from the library under test.

Convention (from the property statements): qubit 0 is the MOST significant bit
of a basis-state index.
"""
import numpy as np
import scipy.linalg


def _bits_of(idx, qubits, n):
    """sub-index formed by the bits of ``idx`` at ``qubits`` (first listed qubit
    becomes the most significant bit of the sub-index)."""
    sub = np.zeros_like(idx)
    for q in qubits:
        sub = (sub << 1) | ((idx >> (n - 1 - q)) & 1)
    return sub


def _spread(sub, qubits, n):
    """inverse of _bits_of for a scalar sub-index: bit pattern in the n-bit word"""
    k = len(qubits)
    word = 0
    for j, q in enumerate(qubits):
        bit = (sub >> (k - 1 - j)) & 1
        word |= bit << (n - 1 - q)
    return word


def embed(U, qubits, n):
    """Matrix acting as ``U`` on the ordered tuple ``qubits`` of an n-qubit
    register and as identity elsewhere, by bit arithmetic on basis indices."""
    U = np.asarray(U, dtype=complex)
    k = len(qubits)
    assert U.shape == (2**k, 2**k), (U.shape, k)
    assert len(set(qubits)) == k and all(0 <= q < n for q in qubits), (qubits, n)
    N = 2**n
    cols = np.arange(N)
    sub = _bits_of(cols, qubits, n)
    mask = 0
    for q in qubits:
        mask |= 1 << (n - 1 - q)
    rest = cols & ~mask
    out = np.zeros((N, N), dtype=complex)
    for subcol in range(2**k):
        sel = sub == subcol
        c = cols[sel]
        r0 = rest[sel]
        for subrow in range(2**k):
            a = U[subrow, subcol]
            if a == 0:
                continue
            out[r0 | _spread(subrow, qubits, n), c] += a
    return out


def apply(U, qubits, n, state):
    """U (on ``qubits``) applied to a state vector of length 2**n."""
    state = np.asarray(state, dtype=complex)
    return embed(U, qubits, n) @ state


def controlled(M, k):
    """k controls first: identity on the first 2^n(2^k-1) basis states, then M."""
    M = np.asarray(M, dtype=complex)
    d = M.shape[0]
    D = d * 2**k
    out = np.eye(D, dtype=complex)
    out[D - d :, D - d :] = M
    return out


def adjoint(M):
    return np.asarray(M, dtype=complex).conj().T


def expm(M):
    return scipy.linalg.expm(np.asarray(M, dtype=complex))


def is_unitary(M, tol=1e-9):
    M = np.asarray(M, dtype=complex)
    return np.allclose(M.conj().T @ M, np.eye(M.shape[0]), atol=tol)


def maxdiff(A, B):
    A = np.asarray(A, dtype=complex)
    B = np.asarray(B, dtype=complex)
    if A.shape != B.shape:
        return float("inf")
    if A.size == 0:
        return 0.0
    d = np.abs(A - B)
    if np.isnan(d).any():
        return float("inf")
    return float(d.max())


def close(A, B, tol=1e-9):
    scale = max(1.0, float(np.abs(np.asarray(B, dtype=complex)).max()) if np.size(B) else 1.0)
    return maxdiff(A, B) <= tol * scale


def phase_between(A, B):
    """phase p with A ~ p*B chosen from the largest entry of B (None if B==0)"""
    A = np.asarray(A, dtype=complex)
    B = np.asarray(B, dtype=complex)
    if A.shape != B.shape:
        return None
    i = np.unravel_index(np.argmax(np.abs(B)), B.shape)
    if abs(B[i]) < 1e-12:
        return None
    p = A[i] / B[i]
    if abs(abs(p) - 1) > 1e-6:
        return None
    return p


def equal_up_to_phase(A, B, tol=1e-8):
    p = phase_between(A, B)
    if p is None:
        return False
    return maxdiff(A, p * np.asarray(B, dtype=complex)) <= tol


def pad(U, n_from, n_to):
    """U on the first n_from qubits of an n_to register (identity on the rest)"""
    U = np.asarray(U, dtype=complex)
    if n_to == n_from:
        return U
    return np.kron(U, np.eye(2 ** (n_to - n_from)))


def bit_reversal_perm(n):
    """index array r with r[i] = bit-reversed i on n bits"""
    out = np.zeros(2**n, dtype=int)
    for i in range(2**n):
        r = 0
        for b in range(n):
            if (i >> b) & 1:
                r |= 1 << (n - 1 - b)
        out[i] = r
    return out


def random_unitary(rng, d):
    """Haar-ish random unitary from a numpy Generator"""
    z = rng.normal(size=(d, d)) + 1j * rng.normal(size=(d, d))
    q, r = np.linalg.qr(z)
    ph = np.diag(r) / np.abs(np.diag(r))
    return q * ph


def random_state(rng, d, normalised=True):
    v = rng.normal(size=d) + 1j * rng.normal(size=d)
    if normalised:
        v = v / np.linalg.norm(v)
    return v
