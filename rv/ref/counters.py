"""Executable model of the work counters of circuit runners (C14).

Imports nothing from the library under test.  The model is driven with the
client-side log of public calls and answers, for every call, whether the
request is valid and how far the two counters (circuits, jobs) must move.

Rules (from the property statement / the runner base classes' docstrings):

* a sample count is valid iff it is a positive ``int``; a per-circuit list is
  valid iff it has one positive entry per circuit;
* a rejected call moves nothing;
* ``base`` runner: every executed circuit is one circuit and one job;
* ``sim`` (wavefunction simulator): one wavefunction computation splits the
  operation list into maximal runs of constant "native" flag; every run is a
  job, every native run is a circuit (an operation-free circuit has no runs);
* ``tracker``: only monotonicity and "a rejected call moves nothing" are
  specified; a successful single run goes through the base class (+1/+1).
"""


def runs(flags):
    """maximal runs of equal consecutive flags: [(flag, length), ...]"""
    out = []
    for f in flags:
        f = bool(f)
        if out and out[-1][0] == f:
            out[-1][1] += 1
        else:
            out.append([f, 1])
    return [(f, n) for f, n in out]


def wavefunction_cost(flags):
    """(circuits, jobs) of one wavefunction computation over operations with
    the given native flags"""
    r = runs(flags)
    return sum(1 for f, _ in r if f), len(r)


def native_slices(flags):
    """index ranges [(start, stop), ...] of the native runs, in order"""
    out = []
    i = 0
    for f, n in runs(flags):
        if f:
            out.append((i, i + n))
        i += n
    return out


def is_count(n):
    return isinstance(n, int) and not isinstance(n, bool)


def single_request(n):
    """'ok' | 'nonpositive' | None (outside the model: not an int)"""
    if not is_count(n):
        return None
    return "ok" if n > 0 else "nonpositive"


def batch_request(k, n):
    """'ok' | 'nonpositive' | 'length' | 'entry' | None for a batch of k circuits"""
    if is_count(n):
        return "ok" if n > 0 else "nonpositive"
    if not isinstance(n, (list, tuple)) or not all(is_count(x) for x in n):
        return None
    if len(n) != k:
        return "length"
    if any(x <= 0 for x in n):
        return "entry"
    return "ok"


def per_circuit(k, n):
    return [n] * k if is_count(n) else list(n)


class CounterModel:
    """Running totals for one runner.  ``kind`` in base | sim | tracker."""

    def __init__(self, kind):
        assert kind in ("base", "sim", "tracker")
        self.kind = kind
        self.circuits = 0
        self.jobs = 0
        self.exact = True  # False once a tracker batch made the totals under-determined

    def executed(self, flags_per_circuit, failed_after=None):
        """account for the execution of the given circuits (each a list of
        native flags).  ``failed_after`` = number of circuits that completed
        before the runner itself failed (base runner only)."""
        if self.kind in ("base", "tracker"):
            n = len(flags_per_circuit) if failed_after is None else failed_after
            self.circuits += n
            self.jobs += n
        else:
            for flags in flags_per_circuit:
                c, j = wavefunction_cost(flags)
                self.circuits += c
                self.jobs += j

    def tracker_batch(self, k):
        """a successful tracker batch: growth is not specified, only monotone"""
        self.exact = False

    def resync(self, circuits, jobs):
        """after an under-determined step: accept any monotone observation"""
        ok = circuits >= self.circuits and jobs >= self.jobs
        self.circuits, self.jobs = circuits, jobs
        self.exact = True
        return ok
