"""Brute-force per-shot statistics (plain loops)."""


def term_value(qubits, shot):
    v = 1
    for q in qubits:
        if int(shot[q]) == 1:
            v = -v
    return v


def expectation_values(terms, shots):
    """terms: list of (sorted qubit list, coefficient); shots: list of tuples.
    returns (values, correlations, covariance_numerators) as nested lists."""
    n = len(shots)
    k = len(terms)
    vals = []
    for qs, c in terms:
        s = 0
        for shot in shots:
            s += term_value(qs, shot)
        vals.append(c * s / n)
    corr = [[0j] * k for _ in range(k)]
    for i, (qi, ci) in enumerate(terms):
        for j, (qj, cj) in enumerate(terms):
            s = 0
            for shot in shots:
                s += term_value(qi, shot) * term_value(qj, shot)
            corr[i][j] = ci * cj * s / n
    cov_num = [[corr[i][j] - vals[i] * vals[j] for j in range(k)] for i in range(k)]
    return vals, corr, cov_num


def counts(shots):
    out = {}
    for shot in shots:
        key = "".join(str(int(b)) for b in shot)
        out[key] = out.get(key, 0) + 1
    return out


def parities(terms, shots):
    """even/odd tallies per term and per ordered pair"""
    vals = []
    for qs, _c in terms:
        even = sum(1 for s in shots if term_value(qs, s) == 1)
        vals.append([even, len(shots) - even])
    k = len(terms)
    corr = [[[0, 0] for _ in range(k)] for _ in range(k)]
    for i, (qi, _) in enumerate(terms):
        for j, (qj, _) in enumerate(terms):
            same = sum(
                1 for s in shots if term_value(qi, s) == term_value(qj, s)
            )
            corr[i][j] = [same, len(shots) - same]
    return vals, corr
