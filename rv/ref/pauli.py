"""Reference dense Pauli-string matrices, filled entry by entry from
P|b> = phase(b) |b xor flipmask>  (qubit 0 = most significant bit / leftmost
tensor factor).  No Kronecker products, no multiplication tables."""
import numpy as np


def string_matrix(ops, coeff, n):
    """ops: iterable of (qubit, 'X'|'Y'|'Z'|'I'); returns coeff * P on n qubits"""
    ops = [(int(q), str(o)) for q, o in ops if o != "I"]
    N = 2**n
    out = np.zeros((N, N), dtype=complex)
    for q, _ in ops:
        if not 0 <= q < n:
            raise ValueError(f"qubit {q} outside register of {n}")
    for b in range(N):
        tgt = b
        ph = 1.0 + 0j
        for q, o in ops:
            bit = (b >> (n - 1 - q)) & 1
            if o == "X":
                tgt ^= 1 << (n - 1 - q)
            elif o == "Y":
                tgt ^= 1 << (n - 1 - q)
                ph *= 1j if bit == 0 else -1j
            elif o == "Z":
                if bit:
                    ph = -ph
            else:
                raise ValueError(o)
        out[tgt, b] += ph
    return coeff * out


def terms_of(op):
    """Public view of a library PauliTerm/PauliSum: list of (ops, coefficient)"""
    return [(sorted(t.operations), complex(t.coefficient)) for t in op.terms]


def width_of(op):
    w = 0
    for ops, _ in terms_of(op):
        for q, _o in ops:
            w = max(w, q + 1)
    return w


def matrix(op, n=None):
    """Dense matrix denoted by a library operator (number, PauliTerm, PauliSum)."""
    if isinstance(op, (int, float, complex)):
        assert n is not None
        return complex(op) * np.eye(2**n, dtype=complex)
    if n is None:
        n = max(width_of(op), 1)
    out = np.zeros((2**n, 2**n), dtype=complex)
    for ops, c in terms_of(op):
        out += string_matrix(ops, c, n)
    return out


def z_eigenvalue(qubits, bits):
    """eigenvalue of prod Z_q on the basis state given as a tuple of bits"""
    s = 1
    for q in qubits:
        if bits[q]:
            s = -s
    return s
