"""Reference state-vector arithmetic that never builds a 2^n x 2^n matrix, for
registers too wide for ``rv.ref.linalg.embed`` / ``rv.ref.pauli.string_matrix``.
Imports nothing from the library under test.

Convention (from the property statements): qubit 0 is the MOST significant bit
of a basis-state index, i.e. axis q of ``state.reshape([2] * n)`` is qubit q.
"""
import numpy as np


def apply(U, qubits, n, state):
    """``U`` (2^k x 2^k, first listed qubit = most significant bit of its own
    index) applied to the ordered tuple ``qubits`` of an n-qubit state vector."""
    U = np.asarray(U, dtype=complex)
    k = len(qubits)
    assert U.shape == (2**k, 2**k), (U.shape, k)
    assert len(set(qubits)) == k and all(0 <= q < n for q in qubits), (qubits, n)
    psi = np.asarray(state, dtype=complex).reshape([2] * n)
    # contract the gate's input axes with the axes of its qubits; the gate's output axes come first
    out = np.tensordot(U.reshape([2] * (2 * k)), psi, axes=(list(range(k, 2 * k)), list(qubits)))
    out = np.moveaxis(out, list(range(k)), list(qubits))
    return np.ascontiguousarray(out).reshape(2**n)


def bit(indices, q, n):
    """value of qubit q in every basis index of an n-qubit register"""
    return (np.asarray(indices) >> (n - 1 - q)) & 1


def pauli_apply(ops, n, state):
    """P|psi> for the Pauli string ``ops`` = iterable of (qubit, 'X'|'Y'|'Z'|'I'):
    P|b> = phase(b) |b xor flipmask>"""
    state = np.asarray(state, dtype=complex)
    idx = np.arange(2**n)
    tgt = idx.copy()
    phase = np.ones(2**n, dtype=complex)
    for q, o in ops:
        q = int(q)
        if not 0 <= q < n:
            raise ValueError(f"qubit {q} outside register of {n}")
        b = bit(idx, q, n)
        if o == "X":
            tgt ^= 1 << (n - 1 - q)
        elif o == "Y":
            tgt ^= 1 << (n - 1 - q)
            phase = phase * np.where(b == 0, 1j, -1j)
        elif o == "Z":
            phase = phase * np.where(b == 0, 1.0, -1.0)
        elif o != "I":
            raise ValueError(o)
    out = np.zeros(2**n, dtype=complex)
    out[tgt] = phase * state
    return out


def pauli_expectation(state, terms, n):
    """<psi| sum_t c_t P_t |psi>; terms = [(ops, coefficient)]"""
    state = np.asarray(state, dtype=complex)
    total = 0j
    for ops, c in terms:
        total += c * np.vdot(state, pauli_apply(ops, n, state))
    return total


def z_expectation(probs, terms, n):
    """sum_b p(b) sum_t c_t prod_{q in t} (-1)^{b_q}; terms = [(qubits, coefficient)];
    only the support of ``probs`` is visited"""
    probs = np.asarray(probs, dtype=float)
    idx = np.nonzero(probs)[0]
    p = probs[idx]
    total = 0.0
    for qs, c in terms:
        sign = np.ones(len(idx))
        for q in qs:
            sign = sign * (1 - 2 * bit(idx, q, n))
        total += c * float(np.dot(sign, p))
    return total
