"""Dense matrices of Pauli operators on a *relabelled* register (reference model).

Independent of the library: a Pauli string is placed by bit arithmetic on the
basis-state index (qubit 0 = most significant bit = leftmost tensor factor),
P|b> = phase(b) |b xor flipmask>; no Kronecker products, no multiplication
table.  The vectorised filler below is cross-checked against the entry-by-entry
``ref.pauli.string_matrix`` by ``selfcheck()``.

Operators that act on far-apart qubits (index 12, ...) are compared on the
order-preserving relabelling of the qubits that are actually used: identity
factors on unused qubits do not change any identity between the denoted
matrices, and the relabelling is monotone so "qubit 0 leftmost" is kept.
"""
import cmath

import numpy as np

from . import pauli as P


def string_matrix(ops, coeff, n):
    """coeff * P on n qubits; ops = iterable of (qubit, 'X'|'Y'|'Z'|'I')"""
    N = 2**n
    b = np.arange(N)
    tgt = b.copy()
    ph = np.ones(N, dtype=complex)
    for q, o in ops:
        q = int(q)
        if o == "I":
            continue
        if not 0 <= q < n:
            raise ValueError(f"qubit {q} outside register of {n}")
        shift = n - 1 - q
        bit = (b >> shift) & 1
        if o == "X":
            tgt = tgt ^ (1 << shift)
        elif o == "Y":
            tgt = tgt ^ (1 << shift)
            ph = ph * np.where(bit == 0, 1j, -1j)
        elif o == "Z":
            ph = ph * (1 - 2 * bit)
        else:
            raise ValueError(o)
    out = np.zeros((N, N), dtype=complex)
    out[tgt, b] = complex(coeff) * ph
    return out


def is_number(x):
    return isinstance(x, (bool, int, float, complex)) or isinstance(x, np.number)


def term_list(op):
    """[(sorted ops, complex coefficient)] of a library PauliTerm/PauliSum through its
    public attributes; None if a coefficient is not a finite plain number or an
    operation is malformed (outside every oracle's domain)."""
    out = []
    try:
        for t in op.terms:
            c = t.coefficient
            if not is_number(c):
                return None
            c = complex(c)
            if not cmath.isfinite(c):
                return None
            ops = sorted((int(q), str(o)) for q, o in t.operations)
            if any(o not in ("X", "Y", "Z") or q < 0 for q, o in ops):
                return None
            out.append((ops, c))
    except Exception:
        return None
    return out


def qubits_of(*term_lists):
    qs = set()
    for tl in term_lists:
        for ops, _ in tl or ():
            for q, _o in ops:
                qs.add(q)
    return qs


def compress(*term_lists):
    """order-preserving relabelling of the used qubits -> (qmap, n) with n >= 1"""
    qs = sorted(qubits_of(*term_lists))
    return {q: i for i, q in enumerate(qs)}, max(1, len(qs))


def dense(terms, n, qmap=None):
    """sum of the term matrices on n qubits (qubits relabelled through qmap)"""
    out = np.zeros((2**n, 2**n), dtype=complex)
    for ops, c in terms:
        if qmap is not None:
            ops = [(qmap[q], o) for q, o in ops]
        out += string_matrix(ops, c, n)
    return out


def scalar(c, n):
    return complex(c) * np.eye(2**n, dtype=complex)


def coeff_l2(D, n):
    """l2 norm of the Pauli-basis coefficient vector of D (= Frobenius / 2^(n/2))"""
    return float(np.linalg.norm(D)) / 2 ** (n / 2)


def abs_sum(terms):
    """sum of |coefficients| - an upper bound of the operator norm"""
    return float(sum(abs(c) for _, c in terms))


_CHECKED = False


def selfcheck():
    """the vectorised filler agrees with the entry-by-entry reference (run once)"""
    global _CHECKED
    if _CHECKED:
        return
    import itertools

    for n in (1, 2, 3):
        for letters in itertools.product("IXYZ", repeat=n):
            ops = [(q, o) for q, o in enumerate(letters)]
            a = string_matrix(ops, 0.5 - 2j, n)
            b = P.string_matrix(ops, 0.5 - 2j, n)
            if np.abs(a - b).max() > 0:
                raise AssertionError(f"reference models disagree on {letters}")
    _CHECKED = True
