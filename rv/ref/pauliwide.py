"""Matrix-free reference for Pauli operators on WIDE registers (9 .. 14 qubits).

M v is computed from P|b> = phase(b) |b xor flipmask> (qubit 0 = most significant bit), vectorised over the basis
index; no 2^n x 2^n array is built, no Kronecker product, no multiplication table.  Used where the dense reference
(rv.ref.paulidense) would need hundreds of megabytes.
"""
import numpy as np


def _string_action(ops, n):
    """(tgt, ph): P|b> = ph[b] |tgt[b]> for every basis index b"""
    N = 2**n
    b = np.arange(N, dtype=np.int64)
    tgt = b.copy()
    ph = np.ones(N, dtype=complex)
    for q, o in ops:
        q = int(q)
        if o == "I":
            continue
        if not 0 <= q < n:
            raise ValueError(f"qubit {q} outside register of {n}")
        shift = n - 1 - q
        bit = (b >> shift) & 1
        if o == "X":
            tgt = tgt ^ (1 << shift)
        elif o == "Y":
            tgt = tgt ^ (1 << shift)
            ph = ph * np.where(bit == 0, 1j, -1j)
        elif o == "Z":
            ph = ph * (1 - 2 * bit)
        else:
            raise ValueError(o)
    return tgt, ph


def apply(tl, n, v):
    """(sum_k c_k P_k) v for a term list [(ops, coefficient)]"""
    v = np.asarray(v, dtype=complex)
    out = np.zeros(2**n, dtype=complex)
    for ops, c in tl:
        tgt, ph = _string_action(ops, n)
        np.add.at(out, tgt, complex(c) * ph * v)
    return out


def probes(nprng, n, k=3):
    """k random complex vectors plus two basis vectors at the ends of the register"""
    N = 2**n
    vs = [nprng.normal(size=N) + 1j * nprng.normal(size=N) for _ in range(k)]
    e0 = np.zeros(N, dtype=complex)
    e0[0] = 1
    e1 = np.zeros(N, dtype=complex)
    e1[N - 1] = 1
    return vs + [e0, e1]
