"""Exact Pauli algebra over the Gaussian rationals (reference model, no floating point).

Independent of the library: a Pauli string is a pair of bit masks (x, z) over the qubit
indices, letter I/X/Z/Y = (0,0)/(1,0)/(0,1)/(1,1) with Y = i X Z, so that

    P(x1, z1) P(x2, z2) = i^e P(x1 ^ x2, z1 ^ z2),
    e = |x1 & z1| + |x2 & z2| - |x3 & z3| + 2 |z1 & x2|   (mod 4),   x3 = x1 ^ x2, z3 = z1 ^ z2

(no multiplication table, no matrices).  Coefficients are pairs (re, im) of ``fractions.Fraction``:
Python ints of any size and binary64 floats are represented exactly, nothing overflows,
nothing is rounded.  ``selfcheck()`` compares the string product with the dense matrices of
``ref.paulidense`` for every ordered pair of strings on two qubits.

An *operator* is a dict  key -> [re, im, weight]  where key = (x mask, z mask) and weight is
the sum of the |re| + |im| products of everything that contributed to the key (the value the
coefficient would have if nothing cancelled).  A floating point evaluation of the same
expression is off by at most (a few units in the last place) x weight on that key, whatever
cancels, which makes weight the right scale for a per-string tolerance.
"""
import math
from fractions import Fraction

ZERO = Fraction(0)
_I_POW = ((1, 0), (0, 1), (-1, 0), (0, -1))  # i^e as (re, im)


def key_of(ops):
    """(x mask, z mask) of an iterable of (qubit, letter)"""
    x = z = 0
    for q, o in ops:
        q = int(q)
        if q < 0:
            raise ValueError(q)
        if o == "X":
            x |= 1 << q
        elif o == "Z":
            z |= 1 << q
        elif o == "Y":
            x |= 1 << q
            z |= 1 << q
        elif o != "I":
            raise ValueError(o)
    return x, z


def ops_of(key):
    x, z = key
    out, q, m = [], 0, x | z
    while m >> q:
        b = ((x >> q) & 1, (z >> q) & 1)
        if b != (0, 0):
            out.append((q, {(1, 0): "X", (0, 1): "Z", (1, 1): "Y"}[b]))
        q += 1
    return out


def fmt_key(key):
    return "*".join(f"{o}{q}" for q, o in ops_of(key)) or "I"


def _pc(v):
    return bin(v).count("1")


def string_product(k1, k2):
    """(key, e) with P(k1) P(k2) = i^e P(key)"""
    x1, z1 = k1
    x2, z2 = k2
    x3, z3 = x1 ^ x2, z1 ^ z2
    e = (_pc(x1 & z1) + _pc(x2 & z2) - _pc(x3 & z3) + 2 * _pc(z1 & x2)) % 4
    return (x3, z3), e


def number(c):
    """exact (re, im) of a plain Python / numpy number; None if it is not a finite number"""
    try:
        import numpy as np

        if isinstance(c, np.generic):
            if isinstance(c, (np.bool_, np.integer)):
                c = int(c)
            elif isinstance(c, np.floating):
                c = float(c)
            elif isinstance(c, np.complexfloating):
                c = complex(c)
            else:
                return None
    except ImportError:  # pragma: no cover
        pass
    if isinstance(c, bool):
        return Fraction(int(c)), ZERO
    if isinstance(c, int):
        return Fraction(c), ZERO
    if isinstance(c, float):
        return (Fraction(c), ZERO) if math.isfinite(c) else None
    if isinstance(c, complex):
        if not (math.isfinite(c.real) and math.isfinite(c.imag)):
            return None
        return Fraction(c.real), Fraction(c.imag)
    return None


def mag(c):
    """|re| + |im| (an upper bound of the modulus, exact)"""
    return abs(c[0]) + abs(c[1])


def is_integral(c):
    return c[0].denominator == 1 and c[1].denominator == 1


def term_list(op):
    """[(key, (re, im))] of a library PauliTerm / PauliSum through its public attributes, coefficients kept
    exact; None if a coefficient is not a finite plain number or an operation is malformed"""
    out = []
    try:
        for t in op.terms:
            c = number(t.coefficient)
            if c is None:
                return None
            ops = [(int(q), str(o)) for q, o in t.operations]
            if any(o not in ("X", "Y", "Z") or q < 0 for q, o in ops) or len({q for q, _ in ops}) != len(ops):
                return None
            out.append((key_of(ops), c))
    except Exception:
        return None
    return out


# ----------------------------------------------------------------------------- operators
def operator(terms):
    """operator of a term list (like terms merged, weights accumulated)"""
    out = {}
    for key, c in terms:
        e = out.get(key)
        if e is None:
            out[key] = [c[0], c[1], mag(c)]
        else:
            e[0] += c[0]
            e[1] += c[1]
            e[2] += mag(c)
    return out


def constant(c):
    return {(0, 0): [c[0], c[1], mag(c)]}


def add(a, b, sign=1):
    out = {k: list(v) for k, v in a.items()}
    for k, v in b.items():
        e = out.get(k)
        if e is None:
            out[k] = [sign * v[0], sign * v[1], v[2]]
        else:
            e[0] += sign * v[0]
            e[1] += sign * v[1]
            e[2] += v[2]
    return out


def mul(a, b):
    out = {}
    for k1, (r1, i1, w1) in a.items():
        for k2, (r2, i2, w2) in b.items():
            k, e = string_product(k1, k2)
            re, im = r1 * r2 - i1 * i2, r1 * i2 + i1 * r2
            pr, pi = _I_POW[e]
            re, im = pr * re - pi * im, pr * im + pi * re
            t = out.get(k)
            if t is None:
                out[k] = [re, im, w1 * w2]
            else:
                t[0] += re
                t[1] += im
                t[2] += w1 * w2
    return out


def scale(a, c, divide=False):
    """a * c (or a / c) for an exact number c"""
    if divide:
        n = c[0] * c[0] + c[1] * c[1]
        inv = (c[0] / n, -c[1] / n)
        w = 1 / _modulus_lower(c)
        return {k: [v[0] * inv[0] - v[1] * inv[1], v[0] * inv[1] + v[1] * inv[0], v[2] * w] for k, v in a.items()}
    m = mag(c)
    return {k: [v[0] * c[0] - v[1] * c[1], v[0] * c[1] + v[1] * c[0], v[2] * m] for k, v in a.items()}


def _modulus_lower(c):
    """an exact lower bound of |c| within a factor sqrt(2): max(|re|, |im|)"""
    return max(abs(c[0]), abs(c[1]))


def power(a, n):
    """a ** n by repeated squaring (weights follow the expansion without cancellation)"""
    result = constant((Fraction(1), ZERO))
    base = a
    while n:
        if n & 1:
            result = mul(result, base)
        n >>= 1
        if n:
            base = mul(base, base)
    return result


def total_weight(a):
    return sum((v[2] for v in a.values()), ZERO)


def all_integral(*term_lists_or_numbers):
    for x in term_lists_or_numbers:
        if isinstance(x, tuple):
            if not is_integral(x):
                return False
        else:
            for _, c in x:
                if not is_integral(c):
                    return False
    return True


def compare(result_terms, expected, rel, slack):
    """None if the result (an exact term list, like terms added up) agrees with the expected operator on every
    string, each to  rel * weight(string) + slack ; otherwise (key, got, want, error, tolerance) of the worst one.
    All arithmetic is exact, so magnitudes up to anything are compared without overflow."""
    got = operator(result_terms)
    worst = None
    for k in set(got) | set(expected):
        g = got.get(k, (ZERO, ZERO, ZERO))
        w = expected.get(k, (ZERO, ZERO, ZERO))
        err = max(abs(g[0] - w[0]), abs(g[1] - w[1]))
        tol = rel * w[2] + slack
        if err > tol:
            ratio = err / tol if tol else None
            if worst is None or (ratio is None and worst[5] is not None) or (
                    ratio is not None and worst[5] is not None and ratio > worst[5]):
                worst = (k, (g[0], g[1]), (w[0], w[1]), err, tol, ratio)
    return worst[:5] if worst else None


def show(c):
    """short text of an exact number"""
    def one(f):
        if f.denominator == 1:
            n = f.numerator
            return str(n) if abs(n) < 10**24 else f"{n:.6e}".replace("e+", "e") if abs(n) < 10**300 else f"~1e{len(str(abs(n))) - 1}"
        return f"{float(f):.17g}" if abs(f) < 10**300 else "huge"
    return one(c[0]) if c[1] == 0 else f"({one(c[0])} + {one(c[1])}j)"


_CHECKED = False


def selfcheck():
    """the string product (bit arithmetic on masks) agrees with the dense reference for every ordered pair of
    Pauli strings on two qubits (run once)"""
    global _CHECKED
    if _CHECKED:
        return
    import itertools

    import numpy as np

    from . import paulidense as D

    strings = [[(q, o) for q, o in enumerate(letters) if o != "I"] for letters in itertools.product("IXYZ", repeat=2)]
    for a in strings:
        for b in strings:
            k, e = string_product(key_of(a), key_of(b))
            lhs = D.string_matrix(a, 1, 2) @ D.string_matrix(b, 1, 2)
            rhs = (1j) ** e * D.string_matrix(ops_of(k), 1, 2)
            if np.abs(lhs - rhs).max() > 0:
                raise AssertionError(f"exact Pauli reference disagrees with the dense one on {a} * {b}")
    three = operator([(key_of([(0, "X")]), (Fraction(3), ZERO)), (key_of([(0, "Z")]), (ZERO, Fraction(5)))])
    # (3X + 5iZ)^2 = 9 - 25 + 15i(XZ + ZX) = -16
    sq = power(three, 2)
    if {k: (v[0], v[1]) for k, v in sq.items() if v[0] or v[1]} != {(0, 0): (Fraction(-16), ZERO)}:
        raise AssertionError("exact Pauli reference: (3X + 5iZ)^2 != -16")
    _CHECKED = True
