"""Entry point of a shard process (kept separate so that rv.core is imported
under its real name and its exception classes are unique)."""
import sys

from rv.core import main

if __name__ == "__main__":
    sys.exit(main())
