"""C02 - every built-in gate is a valid unitary that keeps its textbook identities."""
import math
import numbers

import numpy as np
import sympy

from ..core import Exhausted
from ..gen import circuits as GC
from ..gen import real_spellings as RS
from ..ref import linalg as L

ID = "C02"
LEVEL = "other"
LEVEL_TEXT = (
    "Runtime monitoring of the real matrix factories in two tiers: (1) every factory is executed on "
    "sympy real symbols and the observed output expression is checked against the stated identities "
    "(unitarity, flag=>Hermitian, additive group law, zero angle = identity) by a fixed CAS pipeline AND "
    "by evaluating the residual at 64 random real points - a finite, completely enumerated obligation list "
    "that covers all real parameter values as far as sympy's simplifier is trusted; (2) a monitor hooked on "
    "MatrixFactoryGate.matrix judges every numeric evaluation (special angles, random angles, angle pairs, "
    "fixed relations at 1e-12), including gate objects arrived at through re-parametrisation histories "
    "(replace_params / bind of gates, operations, wrapped gates and circuits, before and after their matrices "
    "were read and the returned matrices modified by the caller). Held = no refuting execution among those "
    "listed in the evidence."
)
LEVEL_NOTE = "trusted: sympy's simplifier for the symbolic tier (each closed obligation is also confirmed numerically at 64 points), numpy; tolerances 1e-9 (unitarity, group law) and 1e-12 (fixed relations)"
TECHNIQUE = "runtime monitoring: post-condition oracle on the hooked matrix property; symbolic-valued execution of the real factories judged by a CAS identity check plus dense numeric sweep"
EXPLANATION = (
    "Each built-in matrix factory is run on symbolic real parameters; the monitor closes the residual "
    "M^H M - I (and M - M^H when flagged self-adjoint, M(a)M(b)-M(a+b), M(0)-I for the one-parameter "
    "rotation/phase gates) to the zero matrix with rewrite(exp)/expand/simplify and confirms it at 64 "
    "random points; 'obligations'/'discharged' count these. A numeric sweep over special and random "
    "angles is judged by the hook on MatrixFactoryGate.matrix. 'history' cases reach the gates with angles "
    "a, b, a+b and 0 from earlier gate objects (numeric or symbolic templates) by replace_params / bind, "
    "directly or through operations, dagger / controlled / power / exp wrappers and circuits, reading (and "
    "overwriting the returned copies of) matrices in between; every such gate must satisfy the same clauses. "
    "'spelling' cases hand the prototypes real values as fractions.Fraction, int / float subclasses, sympy Integer / "
    "Rational / Float and exact constants, small, tiny and beyond 2**53 / 2**64: the matrix must be computable "
    "(spell-computable), pass the hook's clauses, and obey the additive law and the zero angle across spellings."
)
RULE = (
    "enumerated obligation list over the gate table (27 entries asserted) x {computable+shape, unitary, "
    "flag=>hermitian, group law, zero angle} executed on real symbols, enumerated fixed relations, plus a "
    "numeric sweep: every gate at {0,+-pi/4,+-pi/2,+-pi,+-2pi,+-4pi,1e-9,1e3} and random angles in (-10,10), "
    "random angle pairs (also near-identical ones, b = +-1e-3..1e-7) for the group law; 'history': a random "
    "parametric gate (4 of 5 a group gate), a numeric or symbolic template (bare symbol, scaled, shifted, sum "
    "of two symbols), the gates for a, b, a+b, 0 derived from any earlier gate object of the case by "
    "replace_params / bind (plain, via GateOperation, Dagger, ControlledGate, Power, Exponential, Circuit; "
    "numeric -> symbolic -> numeric chains; two-step binds) with matrix reads and caller-side overwrites of the "
    "returned matrices interleaved, every gate re-read at the end; 'spelling': every parametric gate x every "
    "spelling of a real number (int, float, subclasses of both, fractions.Fraction, sympy Integer / Rational / "
    "Float at 15 and 30 digits, exact real constants) enumerated first, then random gates with parameters in "
    "random spellings over magnitudes 1e-30 .. 2**501 (integers beyond 2**53 / 2**63 / 2**64 with at most 53 "
    "significant bits), the additive law with a, b and the exact sum a+b in three independent spellings (b a "
    "neighbour of a at the resolution of a float, -a, or unrelated), zero in 12 spellings; impostor = user-defined "
    "gates that share a built-in gate's name and parameter count with an unrelated (non-unitary) matrix are "
    "evaluated first, the built-in gate of that name at the same parameters afterwards: once per process for every "
    "table entry before any built-in gate was evaluated, then per case for four parametric gates at fresh values; "
    "non-trivial = parametric gate at a "
    "non-special parameter, a symbolic obligation or a history; distinct = distinct canonical case strings"
)
ASSUMPTIONS = [
    "sympy simplify/expand/rewrite are sound (a closed symbolic obligation is additionally confirmed at 64 random real points < 1e-10)",
    "parameters are numbers.Real instances (int, float, fractions.Fraction and subclasses; not bool) or sympy objects; "
    "numpy scalars cannot be ingested by sympy 1.9 (environment)",
    "an angle is a binary64 quantity for the library (it divides / multiplies the parameter in the type it was handed: "
    "Python int / 2, 1j * angle), so the additive law is demanded for a, b, a+b that 53 bits hold (to 1e-12 absolutely) "
    "and magnitudes stay below 2**501 (<= ~1e3 for the factories that add several angles: U3, MS); matrices of exact parameters above 2**40 are evaluated with log10|p| + 25 digits",
]
DECIDING = ["MFG.matrix", "sym-unitary", "sym-grouplaw", "fixed-relation", "num-grouplaw", "table-size", "hist-grouplaw",
            "hist-zero-angle", "spell-computable", "spell-grouplaw", "spell-zero-angle"]
EXHAUSTIVE = {"sym": "all (gate, obligation) pairs over the 27-entry gate table on symbolic real parameters",
              "fixed": "the fixed relations named in the property", "grid": "every gate at the special-angle grid",
              "group_int": "the additive law a,b -> a+b for every one-parameter group gate at all integer angle pairs "
                           "in -3..3 (given alternately as Python int and float)"}
BUDGET = {"quick": (4, 40, 800), "thorough": (16, 150, 4000)}
CASE_TIMEOUT = {"quick": 25, "thorough": 60}

GROUP_GATES = ["RX", "RY", "RZ", "RH", "PHASE", "CPHASE", "XX", "YY", "ZZ", "XY"]
GRID = [0, math.pi / 4, -math.pi / 4, math.pi / 2, -math.pi / 2, math.pi, -math.pi, 2 * math.pi,
        -2 * math.pi, 4 * math.pi, -4 * math.pi, 1e-9, 1e3, -3, -2, -1, 1, 2, 3]


def classes(tier):
    return ["sym", "fixed", "grid", "num_random", "num_group", "group_int", "history", "spelling", "impostor", "exprparams"]


# ------------------------------------------------------------------ CAS pipeline
def _clean(e):
    reps = {}
    for f in e.atoms(sympy.Float):
        r = round(float(f))
        if abs(float(f) - r) < 1e-12:
            reps[f] = sympy.Integer(r)
    return e.xreplace(reps) if reps else e


def _entry_zero(e):
    if e == 0:
        return True
    for step in (
        lambda x: sympy.expand(x.rewrite(sympy.exp)),
        lambda x: sympy.simplify(x),
        lambda x: sympy.simplify(_clean(x)),
        lambda x: sympy.simplify(sympy.expand_complex(x)),
        lambda x: sympy.simplify(_clean(sympy.expand(sympy.expand_complex(x).rewrite(sympy.cos)))),
    ):
        e = step(e)
        if e == 0:
            return True
        if not e.free_symbols:
            try:
                if abs(complex(sympy.N(e))) < 1e-12:
                    return True
            except TypeError:
                pass
    return False


def residual_status(R, symbols, nprng):
    """'refuted' (numeric counterexample), 'closed' (CAS + numeric), 'open' (numeric only)"""
    symbols = list(symbols)
    f = sympy.lambdify(symbols, R, modules=["numpy"]) if symbols else None
    worst = 0.0
    for _ in range(64 if symbols else 1):
        vals = [float(v) for v in nprng.uniform(-10, 10, size=len(symbols))]
        M = np.array(f(*vals), dtype=complex) if f else GC.to_np(R)
        worst = max(worst, float(np.abs(M).max()))
    if not worst < 1e-10:
        return "refuted", worst
    for e in R:
        if not _entry_zero(e):
            return "open", worst
    return "closed", worst


# ------------------------------------------------------------------ monitor
def _is_real_number(p):
    """a real parameter value in any spelling the library's Parameter type (sympy object or numbers.Number)
    admits; numpy scalars are left out (sympy 1.9 cannot ingest them: environment), bool is not an angle"""
    if isinstance(p, (bool, np.generic, np.ndarray)):
        return False
    if isinstance(p, sympy.Expr):
        return bool(p.is_number and p.is_real)
    if isinstance(p, numbers.Rational):  # int, fractions.Fraction and subclasses: finite, however large
        return True
    if isinstance(p, numbers.Real):  # float and subclasses
        try:
            return math.isfinite(p)
        except (TypeError, ValueError, OverflowError):
            return False
    return False


def _post_matrix(mon, call):
    gate = call.args[0]
    name = "MFG.matrix"
    tab = GC.builtin_table()
    e = tab.get(getattr(gate, "name", None))
    if e is None:
        mon.out_of_domain(name)
        return
    # a gate that only shares a built-in's name (a user's MatrixFactoryGate) is not judged: built-in gates are the
    # ones made by the table entry itself, i.e. equal to what the entry makes from the same parameters
    if len(gate.params) not in e.get("arities", [e["nparams"]]):
        mon.out_of_domain(name)
        return
    try:
        twin = e["ref"] if e["kind"] == "fixed" else e["ref"](*gate.params)
        same = twin.matrix_factory is gate.matrix_factory or twin.matrix_factory == gate.matrix_factory
    except Exception:
        same = False
    if not same:
        mon.out_of_domain(name)
        return
    if not all(_is_real_number(p) for p in gate.params):
        if all(isinstance(p, sympy.Expr) and p.is_real is not False for p in gate.params) and call.exc is not None:
            mon.violation("matrix-not-computable", f"{gate.name}{gate.params}.matrix raised {call.exc!r}")
        else:
            mon.out_of_domain(name)
        return
    if call.exc is not None:
        mon.violation("matrix-not-computable", f"{gate.name}{gate.params}.matrix raised {call.exc!r}",
                      known=None)
        return
    M = call.result
    d = 2 ** gate.num_qubits
    if gate.num_qubits != e["nq"] or tuple(M.shape) != (d, d):
        mon.violation("matrix-shape", f"{gate.name}{gate.params}: shape {M.shape}, declares {gate.num_qubits} qubits")
        return
    try:
        A = _to_np_precise(M, gate.params)
    except (TypeError, ValueError):
        # all parameters are real numbers, yet the matrix does not evaluate to numbers (left-over symbols)
        free = sorted(map(str, getattr(M, "free_symbols", ())))
        mon.violation("not-unitary", f"{gate.name}{gate.params}: the matrix for these real parameters is not numeric "
                                     f"(free symbols {free}), so M^H M = I does not hold")
        return
    if not L.is_unitary(A, 1e-9):
        mon.violation("not-unitary", f"{gate.name}{gate.params}: |M^H M - I| = {L.maxdiff(A.conj().T @ A, np.eye(d))}")
        return
    if gate.name == "Delay" and L.maxdiff(A, np.eye(d)) > 1e-12:
        mon.violation("delay-not-identity", f"Delay{gate.params}: matrix is not the identity")
        return
    if gate.is_hermitian and L.maxdiff(A, A.conj().T) > 1e-9:
        mon.violation("flagged-hermitian-but-not", f"{gate.name}{gate.params}: |M - M^H| = {L.maxdiff(A, A.conj().T)}")
        return
    mon.ok(name)


def install(mon, reach):
    from orquestra.quantum.circuits import _gates as G
    from orquestra.quantum.circuits import _matrices as MX

    for fname in sorted(vars(MX)):
        if fname.endswith("_matrix"):
            reach.watch(getattr(MX, fname), fname)
    reach.watch(G.MatrixFactoryGate.matrix, "MatrixFactoryGate.matrix")
    reach.watch(G.MatrixFactoryGate.dagger, "MatrixFactoryGate.dagger")
    reach.watch(G.MatrixFactoryGate.replace_params, "MatrixFactoryGate.replace_params")
    reach.watch(G.MatrixFactoryGate.bind, "MatrixFactoryGate.bind")
    mon.hook_method(G.MatrixFactoryGate, "matrix", post=_post_matrix, name="MFG.matrix")


# ------------------------------------------------------------------ cases
def _obligations():
    tab = GC.builtin_table()
    out = []
    for name in sorted(tab):
        e = tab[name]
        out.append((name, "unitary"))
        for k in e.get("arities", [])[1:]:
            out.append((name, f"unitary/{k}"))  # the gate given its optional parameters as well
        if e["hermitian"]:
            out.append((name, "hermitian"))
        if name in GROUP_GATES:
            out.append((name, "grouplaw"))
            out.append((name, "zero"))
    return out


FIXED = ["table", "S*S=Z", "T*T=S", "SX*SX=X", "H*Z*H=X", "CNOT=cX", "CZ=cZ", "SWAP", "Delay=I"]


def _make(name, params):
    e = GC.builtin_table()[name]
    return e["ref"] if e["kind"] == "fixed" else e["ref"](*params)


# ------------------------------------------------------------------ histories of gate objects
# The property speaks about "the gate's matrix" for real parameter values, whatever way the gate object with
# those parameters came into being.  A 'history' case reaches the gates for a, b, a+b and 0 from EARLIER gate
# objects of the same case through the public re-parametrisation API (replace_params / bind on the gate, on an
# operation, on dagger / controlled / power / exp wrappers, on a circuit; numeric -> symbolic -> numeric chains;
# two-step binds), reads matrices before and after each step and overwrites the matrices it was handed (they
# belong to the caller).  State that travels with or between gate objects (per-instance memos, memos shared
# through dataclasses.replace, matrices handed out by reference) then shows up in the stated clauses:
# unitarity / flag => Hermitian in the hook, the additive law and the zero angle in the driver.
WRAP_REPLACE_NUM = ("gate", "gate", "op", "dagger", "controlled", "power", "exp")
WRAP_REPLACE_SYM = ("gate", "gate", "op", "dagger", "controlled")
WRAP_BIND = ("gate", "gate", "op", "dagger", "controlled", "circuit")


def _unwrap(g):
    if hasattr(g, "gate") and hasattr(g, "qubit_indices"):
        g = g.gate
    while hasattr(g, "wrapped_gate"):
        g = g.wrapped_gate
    return g


def _through(g, wrapper, f):
    """f(<g seen through wrapper>) -> the MatrixFactoryGate inside the result"""
    if wrapper == "gate":
        r = f(g)
    elif wrapper == "op":
        r = f(g(*range(g.num_qubits)))
    elif wrapper == "dagger":
        r = f(g.dagger)
    elif wrapper == "controlled":
        r = f(g.controlled(1))
    elif wrapper == "power":
        r = f(g.power(2))
    elif wrapper == "exp":
        r = f(g.exp)
    elif wrapper == "circuit":
        from orquestra.quantum.circuits import Circuit

        r = f(Circuit([g(*range(g.num_qubits))])).operations[0]
    else:
        raise ValueError(wrapper)
    return _unwrap(r)


def _real_value(rng):
    u = rng.random()
    if u < 0.55:
        return rng.uniform(-10, 10)
    if u < 0.8:
        return rng.randint(-6, 6)
    if u < 0.87:
        return rng.choice(GRID)
    if u < 0.94:
        # the same kind of value in the other types a caller holds real numbers in (moderate magnitudes: the
        # driver forms a+b in the arithmetic of these types)
        return RS.rand_spelled(rng, magnitude=rng.choice(("moderate", "dyadic", "small_int")))[0]
    return sympy.Rational(rng.randint(-8, 8), rng.randint(1, 6)) * rng.choice((sympy.pi, 1))


def _sym_exprs(rng, nparams, tag):
    """symbolic parameters as users write them (plain symbols, no assumptions) and, per parameter, the symbol
    map that makes it equal a requested value"""
    exprs, solvers = [], []
    for k in range(nparams):
        th = sympy.Symbol(f"th{tag}_{k}")
        kind = rng.choice(("bare", "bare", "scaled", "shifted", "sum"))
        if kind == "bare":
            exprs.append(th)
            solvers.append(lambda t, th=th: {th: t})
        elif kind == "scaled":
            c = rng.choice((2, -1, 4))  # division by these is exact in binary floating point
            exprs.append(c * th)
            solvers.append(lambda t, th=th, c=c: {th: t / c})
        elif kind == "shifted":
            c = rng.choice((1, -2, 3))
            exprs.append(th + c)
            solvers.append(lambda t, th=th, c=c: {th: t - c})
        else:
            ph = sympy.Symbol(f"ph{tag}_{k}")
            r = round(rng.uniform(-5, 5), 3)
            exprs.append(th + ph)
            solvers.append(lambda t, th=th, ph=ph, r=r: {th: r, ph: t - r})
    exprs = tuple(exprs)

    def solve(target):
        m = {}
        for s, t in zip(solvers, target):
            m.update(s(t))
        return m

    return exprs, solve


def _history_plan(rng, tab):
    """All random decisions of a history case (no library call): the gate, the target parameters by label, the
    template and the list of steps over a growing pool of gate objects."""
    if rng.random() < 0.8:
        name = rng.choice(GROUP_GATES)
    else:
        # the other parametric gates (only the clauses judged by the hook apply); a factory that runs sympy's
        # simplifier on every call (three-parameter gates) is drawn less often to keep a case cheap
        others = sorted(n for n in tab if tab[n]["nparams"] and n not in GROUP_GATES)
        name = rng.choices(others, weights=[1 if tab[n]["nparams"] >= 3 else 5 for n in others])[0]
    npar = tab[name]["nparams"]
    group = name in GROUP_GATES
    if group:
        a, b = _real_value(rng), _real_value(rng)
        u = rng.random()
        if u < 0.15:
            b = -a
        elif u < 0.35:
            b = rng.choice((-1, 1)) * 10.0 ** -rng.randint(3, 7)
        targets = {"a": (a,), "b": (b,), "a+b": (a + b,), "0": (rng.choice((0, 0.0, sympy.Integer(0))),)}
    else:
        targets = {"p": tuple(_real_value(rng) for _ in range(npar)), "q": tuple(_real_value(rng) for _ in range(npar))}
    labels = list(targets)
    rng.shuffle(labels)
    pool = []  # entries: dict(kind='num'|'sym', label=..., params=..., solve=...)
    steps = []

    def inspect_step(i, p=0.65):
        if rng.random() < p:
            steps.append(("read", i, rng.random() < 0.5))
            if rng.random() < 0.15:
                steps.append(("read", i, rng.random() < 0.5))

    u = rng.random()
    if u < 0.3:  # numeric template that is none of the gates the clauses are about
        pool.append(dict(kind="num", label=None, params=tuple(_real_value(rng) for _ in range(npar))))
    elif u < 0.5:  # the first target itself, made by the prototype
        lab = labels.pop(0)
        pool.append(dict(kind="num", label=lab, params=targets[lab]))
    else:
        ex, solve = _sym_exprs(rng, npar, 0)
        pool.append(dict(kind="sym", label=None, params=ex, solve=solve))
    template = pool[0]
    for lab in labels:
        i = rng.randrange(len(pool))
        inspect_step(i)
        src = pool[i]
        if src["kind"] == "num" and rng.random() < 0.35:
            # numeric -> symbolic -> numeric
            ex, solve = _sym_exprs(rng, npar, len(pool))
            steps.append(("replace", i, rng.choice(WRAP_REPLACE_SYM), ex, len(pool)))
            pool.append(dict(kind="sym", label=None, params=ex, solve=solve))
            i = len(pool) - 1
            inspect_step(i, 0.5)
            src = pool[i]
        if src["kind"] == "sym" and rng.random() < 0.75:
            m = src["solve"](targets[lab])
            keys = list(m)
            if len(keys) > 1 and rng.random() < 0.5:
                rng.shuffle(keys)
                cut = rng.randint(1, len(keys) - 1)
                maps = [{k: m[k] for k in keys[:cut]}, {k: m[k] for k in keys[cut:]}]
            else:
                maps = [m]
            steps.append(("bind", i, tuple(rng.choice(WRAP_BIND) for _ in maps), maps, rng.random() < 0.5, len(pool)))
        else:
            wr = WRAP_REPLACE_NUM if src["kind"] == "num" else WRAP_REPLACE_SYM
            steps.append(("replace", i, rng.choice(wr), targets[lab], len(pool)))
        pool.append(dict(kind="num", label=lab, params=targets[lab]))
        inspect_step(len(pool) - 1, 0.35)
    final = [i for i, e in enumerate(pool) if e["label"] is not None]
    rng.shuffle(final)
    for i in final:  # every gate the clauses are about is read (again) once all the others exist
        steps.append(("read", i, False))
    return name, group, targets, template, pool, steps


def _same_params(got, want):
    if len(got) != len(want):
        return False
    try:
        return all(abs(complex(sympy.N(g)) - complex(sympy.N(w))) <= 1e-12 * max(1.0, abs(complex(sympy.N(w))))
                   for g, w in zip(got, want))
    except TypeError:
        return False


class _NotNumeric(Exception):
    pass


def _history_case(ctx):
    from ..gen.scribble import scribble

    tab = GC.builtin_table()
    rng = ctx.rng
    name, group, targets, template, pool, steps = _history_plan(rng, tab)

    def show(st):
        if st[0] == "read":
            return f"read g{st[1]}" + ("+overwrite" if st[2] else "")
        if st[0] == "replace":
            return f"g{st[4]}=g{st[1]}.{st[2]}.replace_params{st[3]}"
        return f"g{st[5]}=g{st[1]}." + ".".join(f"{w}.bind({m})" for w, m in zip(st[2], st[3])) + \
            (" (read between)" if st[4] and len(st[3]) > 1 else "")

    ctx.describe(f"history {name} targets={targets} g0={name}{template['params']}; " + "; ".join(show(s) for s in steps), True)
    ctx.mon.note(f"history:template-{template['kind']}")
    d = 2 ** tab[name]["nq"]
    try:
        gates = [_make(name, template["params"])]
    except Exception as ex:
        ctx.check("hist-computable", False, f"{name}{template['params']!r}: {type(ex).__name__} {ex}")
        return
    reads = {lab: [] for lab in targets}

    def read(i, overwrite):
        g = gates[i]
        M = g.matrix  # judged by the hook when the parameters are real numbers
        entry = pool[i]
        if entry["label"] is not None:
            try:
                reads[entry["label"]].append(GC.to_np(M))
            except (TypeError, ValueError):
                raise _NotNumeric()  # real parameters, matrix with left-over symbols: reported by the hook
        if overwrite:
            scribble(M)  # the caller owns what .matrix returned

    try:
        for st in steps:
            if st[0] == "read":
                read(st[1], st[2])
                continue
            if st[0] == "replace":
                _, i, wrapper, params, j = st
                g = _through(gates[i], wrapper, lambda o: o.replace_params(params))
                ctx.mon.note(f"history:replace-via-{wrapper}")
            else:
                _, i, wrappers, maps, between, j = st
                g = gates[i]
                for k, (w, m) in enumerate(zip(wrappers, maps)):
                    if k and between:
                        g.matrix
                    g = _through(g, w, lambda o: o.bind(m))
                    ctx.mon.note(f"history:bind-via-{w}")
            gates.append(g)
            if pool[j]["kind"] == "num" and not _same_params(g.params, pool[j]["params"]):
                # re-parametrisation itself is not this property's subject: without the requested gate the
                # clauses cannot be evaluated on this history
                ctx.mon.note("history:params-differ-from-request")
                return
    except _NotNumeric:
        ctx.mon.note("history:matrix-not-numeric")
        return
    except Exception as ex:
        ctx.check("hist-computable", False, f"{name}: {type(ex).__name__} {ex} in history {ctx.desc}")
        return
    ctx.check("hist-computable", True)
    if not group:
        return
    worst, wi = 0.0, None
    for x, A in enumerate(reads["a"]):
        for y, B in enumerate(reads["b"]):
            for z, C in enumerate(reads["a+b"]):
                dd = L.maxdiff(A @ B, C)
                if not dd <= worst:
                    worst, wi = dd, (x, y, z)
    ctx.check("hist-grouplaw", worst <= 1e-9,
              lambda: f"{name}: read #{wi[0]} of angle a={targets['a'][0]!r} times read #{wi[1]} of angle b={targets['b'][0]!r} differs "
                      f"from read #{wi[2]} of angle a+b={targets['a+b'][0]!r} by {worst}; history: {ctx.desc}")
    z = max(L.maxdiff(Z, np.eye(d)) for Z in reads["0"])
    ctx.check("hist-zero-angle", z <= 1e-12, f"{name}({targets['0'][0]!r}) differs from the identity by {z}; history: {ctx.desc}")


# ------------------------------------------------------------------ real values in every spelling
# "Every real value of its parameters": the library's Parameter type is "sympy object or numbers.Number", so the
# real number 3/4 reaches a gate as 0.75, Fraction(3, 4), sympy.Rational(3, 4), sympy.Float(0.75), an int / float
# subclass ...; integers also beyond 2**53 (no float holds them) and beyond the float range.  A 'spelling' case
# makes a gate from parameters in these types (the first cases enumerate gate x spelling), and for the group
# gates demands the additive law with a, b and the EXACT sum a+b in three independently chosen spellings (b often
# +-1, +-2 next to a big a: the neighbours that a conversion to float or a key derived from one cannot tell
# apart) and the zero angle in a random spelling of zero.
ZEROS = [0, 0.0, -0.0, RS.Fraction(0), sympy.Integer(0), sympy.Float(0), sympy.Float(0, 30), RS.IntSub(0),
         RS.FloatSub(0.0), sympy.Rational(0, 5), 0 * sympy.pi, RS.Fraction(0, 7)]


def _to_sym_exact(p):
    if isinstance(p, sympy.Expr) and not isinstance(p, sympy.Float):
        return p
    v = RS.exact_of(p)
    return sympy.Rational(v.numerator, v.denominator)


def _to_np_precise(M, params):
    """numeric sympy Matrix -> complex ndarray, evaluated with enough digits that an entry such as
    exp(I*r) / cos(r) with an exact r of magnitude 2**100 is reduced correctly (own conversion)"""
    big = 0
    for p in params:
        try:
            big = max(big, abs(int(p)).bit_length())
        except (TypeError, ValueError, OverflowError):
            pass
    if big <= 40:
        return GC.to_np(M)
    digits = 25 + int(big * 0.30103) + 1
    return np.array([[complex(sympy.N(e, digits)) for e in row] for row in M.tolist()], dtype=complex)


def _spelling_case(ctx):
    tab = GC.builtin_table()
    rng = ctx.rng
    parametric = sorted(n for n in tab if tab[n]["nparams"])
    combos = [(n, k) for k in RS.KINDS for n in parametric]
    if ctx.index < len(combos):
        name, kind = combos[ctx.index]  # every parametric gate in every spelling (all its parameters alike)
    else:
        kind = None
        if rng.random() < 0.65:
            name = rng.choice(GROUP_GATES)
        else:
            name = rng.choices(parametric, weights=[1 if tab[n]["nparams"] >= 3 else 5 for n in parametric])[0]
    e = tab[name]
    d = 2 ** e["nq"]

    def mat(params, what):
        """the numeric matrix of the gate made by the prototype, or None after recording why there is none"""
        try:
            M = _make(name, params).matrix  # unitarity, shape, flag => Hermitian: judged by the hook
        except Exception as ex:
            ctx.check("spell-computable", False,
                      f"{name}({', '.join(RS.show(p) for p in params)}) [{what}]: {type(ex).__name__}: {ex}")
            return None
        ctx.check("spell-computable", True)
        try:
            return _to_np_precise(M, params)
        except (TypeError, ValueError):
            ctx.mon.note("spelling:matrix-not-numeric")  # reported by the hook
            return None

    if name not in GROUP_GATES:
        # a factory that combines several angles (U3: phi + lambda, MS: phi0 +- phi1) does so in binary64: the
        # phases it returns are good to ulp(largest angle), so its angles stay moderate (as in the grid: <= ~1e3)
        mags = (None,) if e["nparams"] == 1 else ("moderate", "dyadic", "small_int", "tiny", "zero")
        params = tuple(RS.rand_spelled(rng, kind, rng.choice(mags))[0] for _ in range(e["nparams"]))
        ctx.describe(f"spelling {name}({', '.join(RS.show(p) for p in params)})", True)
        for p in params:
            ctx.mon.note(f"spelling:{type(p).__name__}")
        mat(params, "params")
        return
    a, ka = RS.rand_spelled(rng, kind)
    if ka == "sconst":
        b = RS.rand_spelled(rng, magnitude=rng.choice(("moderate", "dyadic", "small_int", "tiny", "zero")))[0]
        c = _to_sym_exact(a) + _to_sym_exact(b)  # exact constants and rationals
        if c.is_Rational:
            v = RS.Fraction(int(c.p), int(c.q))
            c = RS.spell(v, rng.choice(RS.kinds_for(v)))
    else:
        # the library does its arithmetic on an angle in the type it was handed (Python int / float: 53 bits),
        # so a, b and the exact sum a+b are values that 53 bits hold (to 1e-12 absolutely)
        va = RS.exact_of(a)
        for attempt in range(6):
            u = rng.random()
            if attempt == 5 or u < 0.12:
                vb = -va
            elif u < 0.55 or attempt >= 3:
                vb = RS.rand_neighbour(rng, va)  # for a big a: values that agree in their leading bits
            else:
                vb = RS.exact_of(RS.rand_spelled(rng, rng.choice(RS.EXACT_KINDS))[0])
            if RS.float_exact_enough(va + vb):
                break
        b = RS.spell(vb, rng.choice(RS.kinds_for(vb)))
        vc = va + RS.exact_of(b)
        c = RS.spell(vc, rng.choice(RS.kinds_for(vc))) if RS.float_exact_enough(vc) else None
    if rng.random() < 0.5:
        a, b = b, a
    z = rng.choice(ZEROS)
    ctx.describe(f"spelling {name} a={RS.show(a)} b={RS.show(b)} a+b={RS.show(c)} zero={RS.show(z)}", True)
    for p in (a, b, c):
        ctx.mon.note(f"spelling:{type(p).__name__}")
    if any(isinstance(p, (int, RS.Fraction)) and abs(p) > 2 ** 53 for p in (a, b, c)):
        ctx.mon.note("spelling:beyond-2**53")
    A, B, Z = mat((a,), "a"), mat((b,), "b"), mat((z,), "zero")
    C = mat((c,), "a+b") if c is not None else None
    if A is not None and B is not None and C is not None:
        dd = L.maxdiff(A @ B, C)
        ctx.check("spell-grouplaw", dd <= 1e-9,
                  f"{name}({RS.show(a)})*{name}({RS.show(b)}) differs from {name}({RS.show(c)}) [the exact sum] by {dd}")
    if Z is not None:
        dz = L.maxdiff(Z, np.eye(d))
        ctx.check("spell-zero-angle", dz <= 1e-12, f"{name}({RS.show(z)}) differs from the identity by {dz}")


_IMPOSTORS_DONE = False


def _impostor_gate(name, e, params):
    """a user-defined gate that merely SHARES the name (and parameter count) of a built-in gate: legal ("defining
    different gates with the same name as built-in ones is discouraged", not refused), with a matrix of the right size
    that is nothing like the built-in's - upper triangular, not unitary, not hermitian"""
    from orquestra.quantum.circuits import CustomGateDefinition

    d = 2 ** e["nq"]
    syms = sympy.symbols(f"u0:{len(params)}") if params else ()
    M = sympy.eye(d) * 2
    for i in range(d - 1):
        M[i, i + 1] = 3
    if syms:
        M[0, d - 1] = 5 + sum(syms)
    return CustomGateDefinition(gate_name=name, matrix=M, params_ordering=tuple(syms))(*params)


def _impostors(ctx, names, fresh_params):
    """evaluate an impostor of each named built-in gate FIRST, then the built-in gate itself at the same parameters
    (judged by the hook like any other evaluation), then the impostor again"""
    tab = GC.builtin_table()
    plan = []
    for name in names:
        e = tab[name]
        params = tuple(fresh_params(name, e)) if e["kind"] == "param" else ()
        imp = _impostor_gate(name, e, params)
        try:
            imp.matrix
        except Exception:
            ctx.mon.note("impostor:matrix-raised")  # a custom gate's own matrix is C07's business
        plan.append((name, e, params, imp))
    for name, e, params, imp in plan:
        g = e["ref"](*params) if e["kind"] == "param" else e["ref"]
        try:
            g.matrix
        except Exception:
            pass  # judged by the hook
        ctx.mon.note("impostor:built-in-evaluated-after-a-namesake")
    for name, e, params, imp in plan[:3]:
        try:
            imp.matrix
        except Exception:
            pass


def run_case(ctx):
    global _IMPOSTORS_DONE
    tab = GC.builtin_table()
    rng, nprng = ctx.rng, ctx.nprng
    cls = ctx.cls
    if not _IMPOSTORS_DONE:
        # once per process, before any built-in gate of this process has been asked for its matrix: a namesake of
        # EVERY built-in gate is evaluated first (anything kept per gate name is then filled by the namesake)
        _IMPOSTORS_DONE = True
        _impostors(ctx, sorted(tab), lambda name, e: [round(0.137 * (i + 1) + 0.001 * len(name), 6) for i in range(e["nparams"])])
        ctx.mon.note("impostor:prelude-run")
    if cls == "impostor":
        # namesakes of the parametric gates at FRESH parameter values (what a per-(name, parameters) table would
        # key on), the built-in gate asked afterwards, several gates per case
        pn = sorted(n for n, e in tab.items() if e["kind"] == "param")
        names = rng.sample(pn, min(4, len(pn)))
        vals = {}

        def fresh(name, e):
            vals[name] = [rng.choice([round(rng.uniform(-6, 6), 5), rng.randint(-5, 5), rng.choice(GRID)]) for _ in range(e["nparams"])]
            return vals[name]
        ctx.describe(f"impostor namesakes of {names} first, then the built-in gates at the same parameters", True)
        _impostors(ctx, names, fresh)
        return
    if cls == "sym":
        obs = _obligations()
        if ctx.index >= len(obs):
            raise Exhausted()
        name, kind = obs[ctx.index]
        e = tab[name]
        npar = e["nparams"]
        if "/" in kind:
            kind, npar = kind.split("/")[0], int(kind.split("/")[1])
        syms = sympy.symbols(f"t0:{npar}", real=True) if npar else ()
        ctx.describe(f"sym {name} {kind} params={syms}", True)
        g = _make(name, syms)
        try:
            M = g.matrix
        except Exception as ex:
            ctx.check("sym-unitary", False, f"{name}{tuple(syms)}.matrix raised {ex!r}")
            return
        d = 2 ** e["nq"]
        if tuple(M.shape) != (d, d) or g.num_qubits != e["nq"]:
            ctx.check("sym-unitary", False, f"{name}: shape {M.shape} / num_qubits {g.num_qubits}")
            return
        if kind == "unitary":
            R, cname = M.H * M - sympy.eye(d), "sym-unitary"
        elif kind == "hermitian":
            R, cname = M - M.H, "sym-hermitian"
        elif kind == "grouplaw":
            a, b = sympy.symbols("a b", real=True)
            R = _make(name, (a,)).matrix * _make(name, (b,)).matrix - _make(name, (a + b,)).matrix
            syms, cname = (a, b), "sym-grouplaw"
        else:
            R, syms, cname = _make(name, (0,)).matrix - sympy.eye(d), (), "sym-zero-angle"
        status, worst = residual_status(R, syms, nprng)
        ctx.mon.note(f"obligation:{status}")
        if status == "refuted":
            ctx.check(cname, False, f"{name} {kind}: residual reaches {worst} at a random real point")
        elif status == "closed":
            ctx.check(cname, True)
        else:
            ctx.mon.note(f"cas-open:{name}:{kind}")
            ctx.mon.checks[cname + "(numeric-only)"] += 1
        return
    if cls == "fixed":
        if ctx.index >= len(FIXED):
            raise Exhausted()
        rel = FIXED[ctx.index]
        ctx.describe(f"fixed relation {rel}", True)
        m = lambda n, *p: GC.to_np(_make(n, p).matrix)
        if rel == "table":
            ctx.check("table-size", len(tab) == 27, f"gate table has {len(tab)} entries: {sorted(tab)}")
            return
        try:
            if rel == "S*S=Z":
                ok = L.maxdiff(m("S") @ m("S"), m("Z")) <= 1e-12
            elif rel == "T*T=S":
                ok = L.maxdiff(m("T") @ m("T"), m("S")) <= 1e-12
            elif rel == "SX*SX=X":
                ok = L.maxdiff(m("SX") @ m("SX"), m("X")) <= 1e-12
            elif rel == "H*Z*H=X":
                ok = L.maxdiff(m("H") @ m("Z") @ m("H"), m("X")) <= 1e-12
            elif rel == "CNOT=cX":
                ok = L.maxdiff(m("CNOT"), L.controlled(m("X"), 1)) <= 1e-12
            elif rel == "CZ=cZ":
                ok = L.maxdiff(m("CZ"), L.controlled(m("Z"), 1)) <= 1e-12
            elif rel == "SWAP":
                S = m("SWAP")
                ok = True
                for a in (0, 1):
                    for b in (0, 1):
                        col = np.zeros(4)
                        col[2 * a + b] = 1
                        exp = np.zeros(4)
                        exp[2 * b + a] = 1
                        ok = ok and L.maxdiff(S @ col, exp) <= 1e-12
            else:
                ok = all(L.maxdiff(m("Delay", d), np.eye(2)) <= 1e-12 for d in (0, 1, 2.5, 1000, -3))
                ok = ok and _make("Delay", (sympy.Symbol("dur"),)).matrix == sympy.eye(2)
        except Exception as ex:
            ctx.check("fixed-relation", False, f"{rel}: raised {ex!r}")
            return
        ctx.check("fixed-relation", ok, f"relation {rel} fails")
        return
    if cls == "grid":
        combos = [(n, a) for n in sorted(tab) if tab[n]["nparams"] for a in GRID] + \
                 [(n, None) for n in sorted(tab) if not tab[n]["nparams"]]
        if ctx.index >= len(combos):
            raise Exhausted()
        name, a = combos[ctx.index]
        e = tab[name]
        params = tuple([a] + [rng.choice(GRID) for _ in range(e["nparams"] - 1)]) if e["nparams"] else ()
        ctx.describe(f"grid {name}{params}", False)
        g = _make(name, params)
        try:
            g.matrix  # judged by the hook
        except Exception:
            pass
        return
    if cls == "num_random":
        name = rng.choice(sorted(n for n in tab if tab[n]["nparams"]))
        e = tab[name]
        npar = e["nparams"]
        if len(e.get("arities", ())) > 1 and rng.random() < 0.5:
            npar = rng.choice(e["arities"][1:])
        params = tuple(rng.uniform(-10, 10) if rng.random() < 0.8 else rng.randint(-6, 6) for _ in range(npar))
        ctx.describe(f"num {name}{params}", True)
        try:
            _make(name, params).matrix
        except Exception:
            pass
        return
    if cls == "exprparams":
        # parameters that are EXPRESSIONS in a real symbol (2*x, -x, x + 1/2, x/3; none of them a bare symbol), mixed with
        # numbers: the matrix can be computed, and at every real value of x it is the matrix of the gate built with the
        # numbers - "for every real value of its parameters" however the parameter is written
        names_ = sorted(n for n in tab if tab[n]["nparams"])
        name = names_[(ctx.index // 4) % len(names_)]
        if name == "U3" and (ctx.index // 4) // len(names_) % 3:
            name = "RX"  # U3 goes through sympy.simplify (0.2 - 1 s per matrix): one round in three
        e = tab[name]
        npar = e["nparams"]
        x = sympy.Symbol("x", real=True)
        forms = [2 * x, -x, x + sympy.Rational(1, 2), x / 3, 1 - x, x * sympy.pi]
        params = []
        for j in range(npar):
            params.append(rng.choice(forms) if (j == 0 or rng.random() < 0.5) else round(rng.uniform(-3, 3), 3))
        params = tuple(params)
        ctx.describe(f"exprparams {name}{params}", True)
        try:
            Ms = _make(name, params).matrix
        except Exception as ex:
            ctx.check("expr-computable", False, f"{name}{params}.matrix raised {ex!r}")
            return
        for v in (round(rng.uniform(-3, 3), 4), 0, rng.choice([1, -2, 0.5])):
            at = tuple(float(p.xreplace({x: v})) if isinstance(p, sympy.Basic) else p for p in params)
            A = GC.to_np(Ms.xreplace({x: sympy.Float(v) if isinstance(v, float) else sympy.Integer(v)}))
            B = GC.to_np(_make(name, at).matrix)
            d = L.maxdiff(A, B)
            ctx.check("expr-value", d <= 1e-9, lambda: f"{name}{params} at x={v} differs from {name}{at} by {d}")
            ctx.check("expr-unitary", L.maxdiff(A.conj().T @ A, np.eye(A.shape[0])) <= 1e-9,
                      lambda: f"{name}{params} at x={v} is not unitary")
        return
    if cls == "num_group":
        name = rng.choice(GROUP_GATES)
        a, b = rng.uniform(-10, 10), rng.uniform(-10, 10)
        u = rng.random()
        if u < 0.2:
            b = -a
        elif u < 0.35:
            # near-identical angles a and a+b within one process (keys rounded / formatted too coarsely)
            b = rng.choice((-1, 1)) * 10.0 ** -rng.randint(3, 7)
        ctx.describe(f"group {name} a={a} b={b}", True)
        m = lambda p: GC.to_np(_make(name, (p,)).matrix)
        d = L.maxdiff(m(a) @ m(b), m(a + b))
        ctx.check("num-grouplaw", d <= 1e-9, f"{name}({a})*{name}({b}) differs from {name}({a + b}) by {d}")
        ctx.check("num-zero-angle", L.maxdiff(m(0), np.eye(2 ** tab[name]['nq'])) <= 1e-12, f"{name}(0) is not the identity")
        return
    if cls == "group_int":
        # small integers are where hashing / caching / modular-reduction slips collide (hash(-1) == hash(-2),
        # 1 == 1.0 == True as dictionary keys); each gate is evaluated at a, b and a+b within one process
        ints = list(range(-3, 4))
        combos = [(n, a, b) for n in GROUP_GATES for a in ints for b in ints]
        if ctx.index >= len(combos):
            raise Exhausted()
        name, a, b = combos[ctx.index]
        as_float = ctx.index % 2 == 1
        pa, pb, pab = (float(a), float(b), float(a + b)) if as_float else (a, b, a + b)
        ctx.describe(f"group-int {name} a={pa!r} b={pb!r}", a != 0 and b != 0)
        m = lambda p: GC.to_np(_make(name, (p,)).matrix)
        d = L.maxdiff(m(pa) @ m(pb), m(pab))
        ctx.check("num-grouplaw", d <= 1e-9, f"{name}({pa!r})*{name}({pb!r}) differs from {name}({pab!r}) by {d}")
        # the same angle given as int and as float denotes the same matrix
        d2 = L.maxdiff(m(int(a)), m(float(a)))
        ctx.check("num-int-float-agree", d2 <= 1e-12, f"{name}({int(a)!r}) differs from {name}({float(a)!r}) by {d2}")
        return
    if cls == "history":
        _history_case(ctx)
        return
    if cls == "spelling":
        _spelling_case(ctx)
        return
    raise ValueError(cls)
