"""C04 - every view of a simulated state agrees on which qubit is which."""
import math
import weakref
from collections import Counter

import numpy as np

from ..gen import circuits as GC
from ..ref import gates as G
from ..ref import linalg as L
from ..ref import pauli as P
from ..ref import statevec as S

ID = "C04"
LEVEL = "exploration"
RULE = (
    "seeded circuits by class: classical (X/CNOT/SWAP on permuted qubits, outcome computed bit by bit), "
    "product (RY(theta_q) with well separated theta_q, optional X/RZ), entangled (RY + CNOT chains on "
    "permuted qubits, H/RX/RZ/CZ/SWAP/CPHASE), two-outcome superpositions on an asymmetric support, "
    "general Pauli operators; widths 1-6 quick / 1-8 thorough; for every circuit: amplitudes, exact "
    "distribution, exact and measured expectation of Z-type operators (all single qubits + random subsets), "
    "samples and count strings in BOTH sampling regimes (n_samples <= 2^n and > 2^n) against one reference "
    "simulation built from textbook matrices and bit arithmetic. Further classes: symbolic (gates with free "
    "symbols - also controlled / XX / YY / ZZ / doubly controlled gates on permuted, non-adjacent qubits, widths "
    "2-4 quick / 2-6 thorough - simulated symbolically, bound afterwards in one or two steps, and the circuit "
    "with numbers bound through the numeric path), history (ONE simulator object, optionally one operator "
    "object, driven through a sequence of near-identical circuits: same gates on a wider / narrower register, "
    "one parameter changed, one gate's qubits exchanged, qubits relabelled / mirrored, gate dropped / appended, "
    "the same circuit again, each new circuit made right after the earlier one was dropped so that it often "
    "takes over its id(); every view at every step), wide (registers of 9-17 qubits: sparse asymmetric states "
    "given directly, or made by a short circuit on 9-10 (thorough 11) qubits whose two-qubit gates span up to "
    "the whole register; Z-type and general operators that touch the qubits on both sides of the 8/16-bit "
    "boundaries of the basis index; measurement records of width 9-100 built from tuples); in a quarter of all "
    "circuits the simulator is also started from an explicit asymmetric initial state. scales (widths 1-5: Z-type "
    "operators whose coefficients are all tiny (1e-8 ... 1e-200), all huge (1e8 ... 1e100), ordinary with one or two "
    "tiny / huge ones among them, or whole numbers up to 2^62, each spelled as float / int / numpy float / numpy "
    "integer / complex with zero imaginary part, made in one step by PauliSum([...]); whole operator and term by "
    "term, exact and measured in both regimes, tolerances relative to the size of the coefficients; in 40 % of the "
    "superpositions one outcome has probability 1e-8 ... 1e-10; operator qubit indices and sample counts sometimes "
    "numpy integers). record (ONE Measurements object - from run_and_measure, from tuples (also of numpy integers, "
    "widths up to 65), from_counts, or empty and assigned - read through get_counts / get_distribution / "
    "get_expectation_values with two operators, then 2-5 times modified through its public attribute bitstrings or "
    "its methods (reassigned with the same number of shots: reversed / qubits permuted / complemented / shots of "
    "another state / other multiplicities of the same outcomes; items and slices replaced in place; cleared and "
    "refilled; extended; add_counts; shortened; widened; shuffled) or the operator object modified (a term's "
    "coefficient reassigned, terms replaced, reordered) and read again, what a read returned being overwritten by "
    "the caller in a third of the steps; or ONE Wavefunction object whose amplitudes are replaced by those of a "
    "sibling circuit between reads of probabilities, distribution, expectation and samples of both regimes). "
    "Non-trivial = the reference probability vector (or the multiset of measured "
    "tuples) is not invariant under bit reversal; distinct = distinct canonical circuit strings"
)
ASSUMPTIONS = [
    "reference: rv/ref/gates.py (textbook matrices) + rv/ref/linalg.py (embedding by bit arithmetic), qubit 0 = "
    "most significant bit; tuple (b_0..b_{n-1}) <-> basis index sum b_q 2^(n-1-q)",
    "tolerances: 1e-9 amplitudes/expectations, 1e-12 exact distribution per key; a sampled outcome must have "
    "reference probability > 1e-12",
    "statistical checks (marginals, measured expectations) use 7 standard deviations + 1/N with N >= 4000 and "
    "fixed seeds: deterministic per VERIF_SEED, false-alarm probability < 1e-8 per run",
    "Wavefunction.get_outcome_probs and bitstring_to_tuple are intermediate conventions: they are judged "
    "through their composition (sample_from_wavefunction), individually only for being bijective relabellings",
    "register width 0 (an empty circuit) is outside the workload",
    "registers wider than 8 qubits: the reference applies gates and Pauli strings by index arithmetic on the state "
    "vector (rv/ref/statevec.py) instead of dense 2^n x 2^n matrices",
    "symbolic circuits: the library's exact expectation value of a wavefunction with unbound symbols raises a "
    "TypeError in this environment and is not requested; symbolic wavefunctions are judged after Wavefunction.bind",
    "scales / record: expectation values are compared relative to the size of the coefficients (exact: 1e-12 x "
    "sum |c_t| for the workload's own circuits, 1e-9 x sum |c_t| in the monitor; measured per term: 1e-12 x |c_t|); "
    "observed rounding is below 1e-15 of that size",
    "coefficients spelled as fractions.Fraction, sympy numbers or Python integers beyond 2^63 make scipy.sparse "
    "raise on the unchanged tree (coefficient is annotated ``complex``) and are not generated; numpy integers "
    "are generated only where the products of two coefficients fit the fixed width",
    "operators with tiny coefficients are built by PauliSum([terms]): the library's own ``+`` simplifies terms "
    "away whose coefficient is close to zero (operator algebra, not this property)",
    "controlled gates list their control qubits first (gate.controlled(k)(*controls, *targets)); "
    "XX/YY/ZZ(theta) = exp(-i theta/2 P(x)P)",
]
DECIDING = [
    "get_wavefunction", "get_measurement_outcome_distribution", "run_and_measure",
    "sample_from_wavefunction:few", "sample_from_wavefunction:many", "Measurements.get_counts",
    "create_bitstring_distribution", "get_exact_expectation_values", "Measurements.get_expectation_values",
    "get_sparse_operator", "amplitudes", "exact-distribution", "exact-expectation",
    "exact-expectation-vs-own-distribution", "deterministic-samples", "marginals:few", "marginals:many",
    "measured-expectation:few", "measured-expectation:many", "count-strings", "support:few", "support:many",
    "bound-amplitudes", "wide-shots", "scaled-expectation", "record-history",
]
BRANCHES = ["sample_from_wavefunction:many-samples", "sample_from_wavefunction:few-samples"]
BUDGET = {"quick": (4, 35, 150), "thorough": (16, 200, 100000)}
CASE_TIMEOUT = {"quick": 20, "thorough": 60}

P_MIN = 1e-12
W_MAX = 12  # widest register whose circuits the reference simulates
D_MAX = 2**17  # longest state vector the sampling / relabelling monitors look at


def _apply(U, qubits, n, state):
    """reference application of a gate: dense embedding up to 8 qubits, index arithmetic above"""
    if n <= 8:
        return L.apply(U, qubits, n, state)
    return S.apply(U, qubits, n, state)


def classes(tier):
    return ["classical", "product", "entangled", "two_outcome", "operators", "symbolic", "history", "wide", "scales", "record"]


# ----------------------------------------------------------------------------- reference from a circuit object
_REF_CACHE = {}


def _circuit_ref(circuit, initial_state=None):
    """Reference state of a library circuit: the gates' own matrices placed by the
    independent bit-arithmetic embedding.  None = outside the oracle's domain."""
    key = (id(circuit), None if initial_state is None else id(initial_state))
    hit = _REF_CACHE.get(key)
    if hit is not None and hit[0]() is circuit and hit[1] is initial_state:
        return hit[2]
    try:
        n = circuit.n_qubits
        if not 1 <= n <= W_MAX or circuit.free_symbols:
            return None
        if initial_state is None:
            state = np.zeros(2**n, dtype=complex)
            state[0] = 1.0
        else:
            state = np.asarray(initial_state, dtype=complex).flatten()
            if len(state) != 2**n:
                return None
        for op in circuit.operations:
            gate = getattr(op, "gate", None)
            qubits = getattr(op, "qubit_indices", None)
            if gate is None or qubits is None:
                return None
            state = _apply(GC.to_np(gate.matrix), tuple(int(q) for q in qubits), n, state)
    except Exception:
        return None
    if len(_REF_CACHE) > 32:
        _REF_CACHE.clear()
    try:
        # weak: the monitor must not keep a circuit alive (a later circuit may then take over its identity,
        # which is exactly what a table keyed by id() in the library would stumble over)
        _REF_CACHE[key] = (weakref.ref(circuit), initial_state, state)
    except TypeError:
        pass
    return state


def _probs(state):
    return np.abs(np.asarray(state, dtype=complex)) ** 2


_REV = {}


def _rev(n):
    """index array r with r[i] = i with its n bits reversed"""
    r = _REV.get(n)
    if r is None:
        idx = np.arange(2**n)
        r = np.zeros(2**n, dtype=int)
        for b in range(n):
            r |= ((idx >> b) & 1) << (n - 1 - b)
        _REV[n] = r
    return r


def _reversal_hint(got, ref, n):
    rev = _rev(n)
    if np.allclose(np.asarray(got), np.asarray(ref)[rev], atol=1e-9) and not np.allclose(np.asarray(ref), np.asarray(ref)[rev], atol=1e-9):
        return " (equals the reference with the qubit order reversed)"
    return ""


def _numeric_amplitudes(wf):
    try:
        a = np.asarray(wf.amplitudes)
        if a.dtype.kind not in "cfiu":
            a = np.asarray(a.tolist(), dtype=complex)
        return a.astype(complex).flatten()
    except Exception:
        return None


def _is_tuple_of_bits(t, n=None):
    try:
        return (n is None or len(t) == n) and all(int(b) in (0, 1) and int(b) == b for b in t)
    except Exception:
        return False


# ----------------------------------------------------------------------------- monitors
def _arg(call, pos, name, default=None):
    if len(call.args) > pos:
        return call.args[pos]
    return call.kwargs.get(name, default)


def _effective_circuit(call):
    """the circuit whose state the receiver reports: a user's simulator that redefines get_wavefunction to run
    every circuit after a preparation of its own (rv_preparation, see _prepared_simulator) answers for both"""
    circuit = _arg(call, 1, "circuit")
    pre = getattr(call.args[0], "rv_preparation", None) if call.args else None
    return circuit if pre is None else pre + circuit


def _post_get_wavefunction(mon, call):
    name = "get_wavefunction"
    circuit = _arg(call, 1, "circuit")
    init = _arg(call, 2, "initial_state")
    ref = _circuit_ref(circuit, init)
    if ref is None or call.exc is not None:
        mon.out_of_domain(name)
        return
    got = _numeric_amplitudes(call.result)
    if got is None or len(got) != len(ref):
        mon.violation("amplitudes-disagree-with-reference", f"{len(ref)} reference amplitudes, got {None if got is None else len(got)}")
        return
    if not L.close(got, ref, 1e-9):
        i = int(np.argmax(np.abs(got - ref)))
        n = circuit.n_qubits
        mon.violation(
            "amplitudes-disagree-with-reference",
            f"{circuit!r}: amplitude of |{''.join(map(str, G.bits_of(i, n)))}> is {got[i]!r}, reference {ref[i]!r}"
            + _reversal_hint(got, ref, n),
        )
        return
    mon.ok(name)


def _check_distribution_dict(d, p, n):
    """returns None or a description of the first disagreement"""
    seen = set()
    for key, v in d.items():
        if not _is_tuple_of_bits(key, n):
            return f"key {key!r} is not a tuple of {n} bits"
        i = G.index_of(key)
        seen.add(i)
        if abs(float(v) - p[i]) > 1e-12:
            return f"outcome {tuple(key)} has probability {float(v)!r}, reference |psi[{i}]|^2 = {p[i]!r}"
    for i in range(len(p)):
        if i not in seen and p[i] > P_MIN:
            return f"outcome {G.bits_of(i, n)} (reference probability {p[i]!r}) is missing"
    return None


def _post_get_dist(mon, call):
    name = "get_measurement_outcome_distribution"
    circuit = _effective_circuit(call)
    n_samples = _arg(call, 2, "n_samples")
    if call.exc is not None:
        mon.out_of_domain(name)
        return
    if n_samples is not None:
        # the sampled variant of the same entry point: an empirical distribution over measured tuples - every outcome
        # it lists with positive weight is a possible outcome of the circuit, of register length
        ref = _circuit_ref(circuit) if isinstance(n_samples, (int, np.integer)) and n_samples >= 1 else None
        if ref is None:
            mon.out_of_domain(name)
            return
        n = circuit.n_qubits
        keys = [k for k, v in call.result.distribution_dict.items() if float(v) > 0]
        bad = _judge_samples(keys, _probs(ref), n, f"get_measurement_outcome_distribution(.., {n_samples})")
        if bad:
            mon.violation(bad[0] + ":sampled-distribution", f"{circuit!r}: {bad[1]}")
        else:
            mon.ok(name + "(sampled)")
        return
    ref = _circuit_ref(circuit)
    if ref is None:
        mon.out_of_domain(name)
        return
    n = circuit.n_qubits
    bad = _check_distribution_dict(call.result.distribution_dict, _probs(ref), n)
    if bad:
        mon.violation("exact-distribution-disagrees-with-reference", f"{circuit!r}: {bad}")
    else:
        mon.ok(name)


def _judge_samples(samples, p, n, what):
    """None or description; every distinct sampled tuple must be a possible outcome of width n"""
    for t, cnt in Counter(map(tuple, samples)).items():
        if len(t) != n:
            return "sample-wrong-length", f"{what}: sample {t} has {len(t)} entries on a {n}-qubit register"
        if not _is_tuple_of_bits(t):
            return "sample-not-bits", f"{what}: sample {t}"
        i = G.index_of(t)
        if not p[i] > P_MIN:
            return ("sample-of-zero-probability",
                    f"{what}: outcome {t} sampled {cnt}x but its reference probability |psi[{i}]|^2 is {p[i]!r}")
    return None


def _post_run_and_measure(mon, call):
    name = "run_and_measure"
    circuit = _effective_circuit(call)
    n_samples = _arg(call, 2, "n_samples")
    if call.exc is not None:
        mon.out_of_domain(name)
        return
    ref = _circuit_ref(circuit)
    if ref is None:
        mon.out_of_domain(name)
        return
    shots = call.result.bitstrings
    if len(shots) != n_samples:
        mon.violation("sample-count", f"{n_samples} samples requested, {len(shots)} delivered")
        return
    bad = _judge_samples(shots, _probs(ref), circuit.n_qubits, f"run_and_measure({circuit!r}, {n_samples})")
    if bad:
        mon.violation(*bad)
    else:
        mon.ok(name)


def _post_sample(mon, call):
    wf = _arg(call, 0, "wavefunction")
    n_samples = _arg(call, 1, "n_samples")
    if call.exc is not None:
        mon.out_of_domain("sample_from_wavefunction")
        return
    a = _numeric_amplitudes(wf)
    if a is None or len(a) < 2 or len(a) & (len(a) - 1) or len(a) > D_MAX:
        mon.out_of_domain("sample_from_wavefunction")
        return
    n = len(a).bit_length() - 1
    regime = "few" if n_samples <= len(a) else "many"
    res = call.result
    if len(res) != n_samples:
        mon.violation("sample-count", f"{n_samples} samples requested, {len(res)} delivered ({regime} regime)")
        return
    bad = _judge_samples(res, _probs(a), n, f"sample_from_wavefunction(n_samples={n_samples}; {regime}-samples regime, {n} qubits)")
    if bad:
        mon.violation(bad[0] + ":" + regime, bad[1])
        return
    mon.ok("sample_from_wavefunction:" + regime)


def _pre_amps(mon, call):
    return _numeric_amplitudes(call.args[0])


_OP_LAST = {}


def _post_outcome_probs(mon, call):
    name = "Wavefunction.get_outcome_probs"
    a = call.pre
    if a is None or call.exc is not None or len(a) < 2 or len(a) > D_MAX:
        mon.out_of_domain(name)
        return
    n = len(a).bit_length() - 1
    d = call.result
    keys = list(d.keys())
    sig = (a.tobytes(), tuple(keys), tuple(float(np.asarray(v).flatten()[0]) for v in d.values()))
    if _OP_LAST.get("sig") == sig:  # same state, same answer as the call judged just before
        mon.ok(name)
        return
    _OP_LAST["sig"] = sig
    if len(set(keys)) != len(a) or not all(isinstance(k, str) and len(k) == n and set(k) <= {"0", "1"} for k in keys):
        mon.violation("outcome-probs-keys", f"keys are not the {len(a)} distinct {n}-bit strings: {keys[:6]}")
        return
    vals = sorted(float(np.asarray(v).flatten()[0]) for v in d.values())
    if not np.allclose(vals, sorted(_probs(a)), atol=1e-12):
        mon.violation("outcome-probs-values", "the probabilities are not a relabelling of |a|^2")
        return
    p = _probs(a)
    if len(a) <= 2**10 and not np.allclose(p, p[_rev(n)], atol=1e-9):
        by_rev = all(abs(float(np.asarray(d[format(i, f"0{n}b")[::-1]]).flatten()[0]) - p[i]) < 1e-12 for i in range(len(a)))
        mon.note("outcome_probs:key=" + ("reversed-index-string" if by_rev else "other-convention"))
    mon.ok(name)


_B2T_SEEN = set()


def _post_b2t(mon, call):
    name = "bitstring_to_tuple"
    s = _arg(call, 0, "bitstring")
    if call.exc is not None or not isinstance(s, str) or not s or set(s) - {"0", "1"}:
        mon.out_of_domain(name)
        return
    if s in _B2T_SEEN:
        mon.ok(name)
        return
    t = call.result
    _B2T_SEEN.add(s)
    if len(t) != len(s) or sorted(t) != sorted(int(c) for c in s):
        mon.violation("bitstring-to-tuple-not-a-relabelling", f"{s!r} -> {t!r}")
        return
    if s != s[::-1]:
        mon.note("bitstring_to_tuple:" + ("reverses" if tuple(int(c) for c in s[::-1]) == tuple(t) else "keeps-order"))
    mon.ok(name)


def _post_get_counts(mon, call):
    name = "Measurements.get_counts"
    self = call.args[0]
    if call.exc is not None:
        mon.out_of_domain(name)
        return
    shots = getattr(self, "bitstrings", None)
    if not isinstance(shots, (list, tuple)) or not all(_is_tuple_of_bits(t) for t in shots[:2000]) or len(shots) > 200000:
        mon.out_of_domain(name)
        return
    exp = {}
    for t in shots:
        k = "".join(str(int(b)) for b in t)  # position q of the string = qubit q of the tuple
        exp[k] = exp.get(k, 0) + 1
    got = dict(call.result)
    if got != exp:
        diff = [(k, got.get(k), exp.get(k)) for k in sorted(set(got) | set(exp)) if got.get(k) != exp.get(k)][:4]
        mon.violation("count-strings-disagree-with-tuples", f"(string, counted, expected from tuples): {diff}")
    else:
        mon.ok(name)


def _post_create_dist(mon, call):
    name = "create_bitstring_distribution"
    probs = _arg(call, 0, "prob_distribution")
    if call.exc is not None:
        mon.out_of_domain(name)
        return
    try:
        p = np.asarray(probs, dtype=float).flatten()
    except Exception:
        mon.out_of_domain(name)
        return
    if len(p) < 2 or len(p) & (len(p) - 1) or len(p) > 2**13 or not np.all(np.isfinite(p)) or np.any(p < 0) or abs(p.sum() - 1) > 1e-9:
        mon.out_of_domain(name)
        return
    n = len(p).bit_length() - 1
    bad = _check_distribution_dict(call.result.distribution_dict, p, n)
    if bad:
        mon.violation("distribution-keys-disagree-with-basis-index", bad)
    else:
        mon.ok(name)


def _terms(op):
    return [(ops, c) for ops, c in P.terms_of(op)]


def _pauli_expectation(psi, terms, n):
    if n > 8:
        return S.pauli_expectation(psi, terms, n)
    total = 0j
    for ops, c in terms:
        total += np.vdot(psi, P.string_matrix(ops, c, n) @ psi)
    return total


def _post_exact_expect(mon, call):
    name = "get_exact_expectation_values"
    circuit = _effective_circuit(call)
    op = _arg(call, 2, "operator")
    ref = _circuit_ref(circuit)
    if ref is None:
        mon.out_of_domain(name)
        return
    n = circuit.n_qubits
    try:
        terms = _terms(op)
    except Exception:
        mon.out_of_domain(name)
        return
    if any(q >= n or q < 0 for ops, _ in terms for q, _o in ops) or any(abs(c.imag) > 0 for _, c in terms) or len(terms) > 64:
        mon.out_of_domain(name)
        return
    if not math.isfinite(sum(abs(c) for _, c in terms)):
        mon.out_of_domain(name)
        return
    if call.exc is not None:
        mon.violation("exact-expectation-raises", f"{op} on {circuit!r} raised {call.exc!r}")
        return
    exp = _pauli_expectation(ref, terms, n).real
    got = complex(call.result)
    # relative to the size of the coefficients: an operator of tiny coefficients is an operator like any other
    if not abs(got - exp) <= 1e-9 * sum(abs(c) for _, c in terms):
        mon.violation("exact-expectation-disagrees-with-reference",
                      f"<{op}> on {circuit!r} = {got!r}, reference {exp!r}")
    else:
        mon.ok(name)


def _shot_average(terms, shots):
    """per term: coefficient * mean over shots of prod_{q} (-1)^{b_q} (fold over distinct outcomes)"""
    cnt = Counter(map(tuple, shots))
    N = sum(cnt.values())
    out = []
    for qs, c in terms:
        s = 0
        for t, k in cnt.items():
            s += k * G.z_parity(qs, t)
        out.append(c * s / N)
    return out


def _post_meas_expect(mon, call):
    name = "Measurements.get_expectation_values"
    self = call.args[0]
    op = _arg(call, 1, "ising_operator")
    if call.exc is not None:
        mon.out_of_domain(name)
        return
    shots = getattr(self, "bitstrings", None)
    try:
        terms = _terms(op)
    except Exception:
        mon.out_of_domain(name)
        return
    if not shots or not all(_is_tuple_of_bits(t) for t in shots[:2000]) or any(o != "Z" for ops, _ in terms for _q, o in ops):
        mon.out_of_domain(name)
        return
    width = len(shots[0])
    if any(q >= width for ops, _ in terms for q, _o in ops):
        mon.out_of_domain(name)
        return
    zt = [([q for q, _o in ops], c) for ops, c in terms]
    exp = _shot_average(zt, shots)
    got = np.asarray(call.result.values).flatten()
    if len(got) != len(exp):
        mon.violation("measured-expectation-shape", f"{len(got)} values for {len(exp)} terms")
        return
    for i, (g, e) in enumerate(zip(got, exp)):
        if not abs(complex(g) - e) <= 1e-12 * abs(zt[i][1]):  # |average| <= 1: relative to the coefficient
            mon.violation("measured-expectation-disagrees-with-shots",
                          f"term {i} ({zt[i][1]} * Z on qubits {zt[i][0]}): {complex(g)!r}, average over the {len(shots)} tuples gives {e!r}")
            return
    mon.ok(name)


def _post_sparse(mon, call):
    name = "get_sparse_operator"
    op = _arg(call, 0, "operator")
    nq = _arg(call, 1, "n_qubits")
    if call.exc is not None:
        mon.out_of_domain(name)
        return
    try:
        terms = _terms(op)
        n = nq if nq is not None else op.n_qubits
    except Exception:
        mon.out_of_domain(name)
        return
    if not isinstance(n, (int, np.integer)) or not 1 <= n <= 6 or len(terms) > 40 or not terms:
        mon.out_of_domain(name)
        return
    ref = sum(P.string_matrix(ops, c, n) for ops, c in terms)
    got = np.asarray(call.result.todense())
    size = sum(abs(c) for _, c in terms)
    if not math.isfinite(size):
        mon.out_of_domain(name)
        return
    # every entry is a signed sum of coefficients: tolerance relative to their total size
    if got.shape != ref.shape or not np.all(np.abs(got - ref) <= 1e-12 * size):
        mon.violation("sparse-operator-disagrees-with-reference", f"{op} on {n} qubits")
    else:
        mon.ok(name)


def install(mon, reach):
    from orquestra.quantum import utils as U
    from orquestra.quantum import wavefunction as W
    from orquestra.quantum.api import wavefunction_simulator as WS
    from orquestra.quantum.circuits import _unitary_tools as UT
    from orquestra.quantum.distributions import _measurement_outcome_distribution as MD
    from orquestra.quantum.measurements import measurements as MM
    from orquestra.quantum.measurements import parities as MP
    from orquestra.quantum.operators._openfermion_utils import sparse_tools as ST

    import orquestra.quantum.runners.symbolic_simulator  # noqa: F401  (so that its overrides of the base class are hooked too)

    Sim = WS.BaseWavefunctionSimulator
    reach.watch(W.Wavefunction.get_outcome_probs, "Wavefunction.get_outcome_probs")
    reach.watch(W.sample_from_wavefunction, "sample_from_wavefunction", markers={
        "many-samples": r"outcome_tuples \+= \[0\]",
        "few-samples": r"string_samples = rng\.choice",
    })
    reach.watch(U.bitstring_to_tuple, "bitstring_to_tuple")
    reach.watch(U.tuple_to_bitstring, "tuple_to_bitstring")
    reach.watch(MD.create_bitstring_distribution_from_probability_distribution, "create_bitstring_distribution")
    reach.watch(ST.get_sparse_operator, "get_sparse_operator")
    reach.watch(MM.get_expectation_value_from_frequencies, "get_expectation_value_from_frequencies")
    reach.watch(MP.check_parity_of_vector, "check_parity_of_vector")
    reach.watch(getattr(UT, "_lift_matrix", None), "_lift_matrix")
    reach.watch(Sim.get_wavefunction, "get_wavefunction")
    reach.watch(Sim.get_exact_expectation_values, "get_exact_expectation_values")
    reach.watch(Sim.get_measurement_outcome_distribution, "get_measurement_outcome_distribution")
    reach.watch(Sim.run_and_measure, "run_and_measure")
    reach.watch(MM.Measurements.get_counts, "Measurements.get_counts")
    reach.watch(MM.Measurements.get_expectation_values, "Measurements.get_expectation_values")

    mon.hook_method(Sim, "get_wavefunction", post=_post_get_wavefunction, name="get_wavefunction", overrides=True)
    mon.hook_method(Sim, "get_measurement_outcome_distribution", post=_post_get_dist,
                    name="get_measurement_outcome_distribution", overrides=True)
    mon.hook_method(Sim, "run_and_measure", post=_post_run_and_measure, name="run_and_measure", overrides=True)
    mon.hook_method(Sim, "get_exact_expectation_values", post=_post_exact_expect, name="get_exact_expectation_values", overrides=True)
    mon.hook_func(W, "sample_from_wavefunction", post=_post_sample, name="sample_from_wavefunction")
    mon.hook_method(W.Wavefunction, "get_outcome_probs", post=_post_outcome_probs, pre=_pre_amps,
                    name="Wavefunction.get_outcome_probs")
    mon.hook_func(U, "bitstring_to_tuple", post=_post_b2t, name="bitstring_to_tuple")
    mon.hook_method(MM.Measurements, "get_counts", post=_post_get_counts, name="Measurements.get_counts")
    mon.hook_method(MM.Measurements, "get_expectation_values", post=_post_meas_expect,
                    name="Measurements.get_expectation_values")
    mon.hook_func(MD, "create_bitstring_distribution_from_probability_distribution", post=_post_create_dist,
                  name="create_bitstring_distribution")
    mon.hook_func(ST, "get_sparse_operator", post=_post_sparse, name="get_sparse_operator")


# ----------------------------------------------------------------------------- generators
def _r(x):
    return round(x, 6)


def rand_width(ctx):
    rng = ctx.rng
    if ctx.quick:
        return rng.choice([1, 2, 2, 3, 3, 3, 4, 4, 4, 5, 5, 6])
    return rng.choice([1, 2, 3, 3, 4, 4, 5, 5, 6, 6, 7, 8])


def asymmetric_bits(rng, n):
    """a bit pattern that differs from its mirror image (n >= 2)"""
    while True:
        b = tuple(rng.randint(0, 1) for _ in range(n))
        if n < 2 or b != b[::-1]:
            return b


def classical_spec(rng, n):
    target = asymmetric_bits(rng, n)
    spec = [("X", None, (q,)) for q in range(n) if target[q]]
    rng.shuffle(spec)
    for _ in range(rng.randint(0, 4) if n >= 2 else 0):
        a, b = rng.sample(range(n), 2)
        spec.append((rng.choice(["CNOT", "SWAP", "CNOT"]), None, (a, b)))
        if rng.random() < 0.3:
            spec.append(("X", None, (rng.randrange(n),)))
    out = G.classical_run(spec, n)
    if n >= 2 and out == out[::-1]:
        q = 0 if out[0] == out[-1] else None
        if q is not None:
            spec.append(("X", None, (0,)))
    return spec


def separated_probabilities(rng, n):
    """p_q(1) for every qubit: distinct, at least 1/(n+2) apart from each other"""
    grid = [(k + 1) / (n + 2) for k in range(n + 1)]
    ps = rng.sample(grid, n)
    return ps


def product_spec(rng, n):
    ps = separated_probabilities(rng, n)
    order = list(range(n))
    rng.shuffle(order)
    spec = []
    for q in order:
        theta = 2 * math.asin(math.sqrt(ps[q]))
        if rng.random() < 0.25:  # the same marginal through X then RY(pi - theta)
            spec.append(("X", None, (q,)))
            spec.append(("RY", _r(-(math.pi - theta)), (q,)))
        else:
            spec.append(("RY", _r(theta * rng.choice([1, -1])), (q,)))
        if rng.random() < 0.3:
            spec.append((rng.choice(["RZ", "PHASE"]), _r(rng.uniform(-3, 3)), (q,)))
    return spec


def entangled_spec(rng, n, rich=False):
    spec = []
    order = list(range(n))
    rng.shuffle(order)
    for q in order:
        spec.append(("RY", _r(rng.uniform(0.3, 2.8)), (q,)))
    if n >= 2:
        for _ in range(rng.randint(1, n)):
            a, b = rng.sample(range(n), 2)
            spec.append(("CNOT", None, (a, b)))
            if rng.random() < 0.4:
                spec.append(("RY", _r(rng.uniform(-2.5, 2.5)), (rng.randrange(n),)))
    if rich:
        for _ in range(rng.randint(1, 4)):
            g = rng.choice(["H", "RX", "RZ", "CZ", "SWAP", "CPHASE", "S", "T", "Y", "Z"])
            if g in ("CZ", "SWAP", "CPHASE"):
                if n < 2:
                    continue
                qs = tuple(rng.sample(range(n), 2))
            else:
                qs = (rng.randrange(n),)
            spec.append((g, _r(rng.uniform(-3, 3)) if g in ("RX", "RZ", "CPHASE") else None, qs))
    return spec


def two_outcome_spec(rng, n):
    """cos|s> + sin|s xor mask> with an asymmetric pattern s and a random flip mask"""
    s = asymmetric_bits(rng, n)
    spec = [("X", None, (q,)) for q in range(n) if s[q]]
    rng.shuffle(spec)
    k = rng.randint(1, n)
    sub = rng.sample(range(n), k)
    head = sub[0]
    theta = _r(rng.uniform(0.6, 2.5))
    spec.append(("RY", theta if not s[head] else -theta, (head,)))
    # after RY on the head qubit its value differs between the two branches; CNOTs copy the difference
    for q in sub[1:]:
        spec.append(("CNOT", None, (head, q)))
    return spec


def z_terms(rng, n, k=None):
    """Z-type operator: every single qubit with its own coefficient + random subsets + (sometimes) a constant"""
    terms = []
    coeffs = rng.sample([0.5, -0.75, 1.25, 2.0, -1.5, 0.3, -2.25, 1.0, 3.5, -0.4], min(10, n))
    for q in range(n):
        terms.append(((q,), coeffs[q % len(coeffs)] + 0.01 * q))
    for _ in range(rng.randint(1, 3) if k is None else k):
        size = rng.randint(1, n)
        qs = tuple(sorted(rng.sample(range(n), size)))
        if any(qs == t[0] for t in terms):
            continue  # one term per support: the library merges like terms
        terms.append((qs, _r(rng.uniform(-2, 2)) or 0.5))
    if rng.random() < 0.3:
        terms.append(((), _r(rng.uniform(-1, 1)) or 0.25))
    rng.shuffle(terms)
    return terms


def build_operator(terms):
    from orquestra.quantum.operators import PauliSum, PauliTerm

    out = PauliSum()
    for qs, c in terms:
        if isinstance(qs, dict):
            ops = dict(qs)
        else:
            ops = {q: "Z" for q in qs}
        out = out + (PauliTerm(ops, c) if ops else PauliTerm("I0", c))
    return out


def _gate(C, name, param):
    """library gate of a spec entry; 'c:NAME' / 'cc:NAME' = NAME with 1 / 2 control qubits listed first"""
    if ":" in name:
        ctl, base = name.split(":", 1)
        return _gate(C, base, param).controlled(len(ctl))
    g = getattr(C, name)
    return g if param is None else g(param)


def build_circuit(spec, n):
    from orquestra.quantum import circuits as C

    return C.Circuit([_gate(C, name, param)(*qubits) for name, param, qubits in spec], n_qubits=n)


def ref_matrix(name, param):
    """textbook matrix of a spec entry (nothing of the library is consulted)"""
    if ":" in name:
        ctl, base = name.split(":", 1)
        return L.controlled(ref_matrix(base, param), len(ctl))
    if name in ("XX", "YY", "ZZ"):  # exp(-i theta/2 P(x)P) = cos(theta/2) 1 - i sin(theta/2) P(x)P
        pauli = G.fixed(name[0])
        return math.cos(param / 2) * np.eye(4, dtype=complex) - 1j * math.sin(param / 2) * np.kron(pauli, pauli)
    return G.matrix(name, param)


def run_spec(spec, n, state=None):
    """reference state of a spec on |0...0> (or on ``state``)"""
    if state is None:
        state = np.zeros(2**n, dtype=complex)
        state[0] = 1.0
    for name, param, qubits in spec:
        state = _apply(ref_matrix(name, param), tuple(qubits), n, state)
    return state


def used_width(spec):
    return max((q for _n, _p, qs in spec for q in qs), default=-1) + 1


def spec_str(spec):
    return " ".join(f"{nm}{'' if p is None else '(' + repr(p) + ')'}{list(q)}" for nm, p, q in spec)


def within(freq, p, N, scale=1.0):
    return abs(freq - p) <= scale * (7 * math.sqrt(max(p * (1 - p), 0.0) / N) + 1.0 / N)


# ----------------------------------------------------------------------------- cases
def _sample_regimes(ctx, n):
    """(few, many): a request not larger than 2^n and one larger"""
    rng = ctx.rng
    dim = 2**n
    few = rng.choice([1, dim, rng.randint(1, dim), max(1, dim - 1)])
    many = dim + rng.choice([1, 2, rng.randint(3, 60)])
    if ctx.cls == "classical" and ctx.index % 12 == 7 and n <= 6:
        # one record of 100 000+ shots: counting may switch method with the number of shots
        many = rng.choice([100000, 150000, 131073])
        ctx.mon.note("samples:100000+")
    return few, many


def _nontrivial(p, n):
    return not np.allclose(p, p[_rev(n)], atol=1e-6)


def _prepared_simulator(pre_circuit, seed):
    """a user's simulator built on the provided classes that REDEFINES the public get_wavefunction: every circuit is
    run after a fixed preparation of its own.  All the other views (exact distribution, exact expectation, samples,
    sampled distribution) are inherited - they have to describe the state this simulator reports"""
    from orquestra.quantum.runners import SymbolicSimulator

    class PreparedSimulator(SymbolicSimulator):
        rv_preparation = pre_circuit

        def get_wavefunction(self, circuit, initial_state=None):
            return super().get_wavefunction(pre_circuit + circuit, initial_state)

    return PreparedSimulator(seed=seed)


def _views(ctx, spec, n, stats=False, classical=None, operators_general=False, *,
           sim=None, circuit=None, psi=None, shared_op=None, describe=True, pre_spec=None):
    """every view of one circuit against one reference state.  ``sim`` / ``shared_op``: objects that lived
    through earlier circuits of the same case (histories); ``circuit`` / ``psi``: a circuit that was not
    built from the spec alone (bound symbolic circuit) and its reference state"""
    from orquestra.quantum.operators import get_expectation_value
    from orquestra.quantum.runners import SymbolicSimulator
    from orquestra.quantum.wavefunction import sample_from_wavefunction

    rng = ctx.rng
    mon = ctx.mon
    full_spec = spec if pre_spec is None else list(pre_spec) + list(spec)
    if psi is None:
        psi = run_spec(full_spec, n)
    p = _probs(psi)
    terms = z_terms(rng, n)
    few, many = _sample_regimes(ctx, n)
    seed = rng.randrange(2**31)
    if describe:
        ctx.describe(f"{ctx.cls} n={n} [{spec_str(spec)}] op={terms} few={few} many={many} seed={seed}", _nontrivial(p, n))
    mon.note(f"width:{n}")

    if circuit is None:
        circuit = build_circuit(spec, n)
    if sim is None:
        if pre_spec is None:
            sim = SymbolicSimulator(seed=seed)
        else:
            sim = _prepared_simulator(build_circuit(pre_spec, n), seed)
            mon.note("user-simulator-redefining-get_wavefunction")

    # 1 amplitudes
    wf = sim.get_wavefunction(circuit)
    got = _numeric_amplitudes(wf)
    ok = got is not None and len(got) == len(psi) and L.close(got, psi, 1e-9)
    ctx.check("amplitudes", ok, lambda: (
        f"amplitudes {np.round(got, 6).tolist() if got is not None and len(got) <= 16 else '...'} differ from the "
        f"reference {np.round(psi, 6).tolist() if len(psi) <= 16 else '...'}" + (_reversal_hint(got, psi, n) if got is not None and len(got) == len(psi) else "")))
    if not ok:
        return
    if rng.random() < 0.25:
        # the other way into the simulator: an explicit initial state (asymmetric basis state or superposition)
        init = np.zeros(2**n, dtype=complex)
        b0 = asymmetric_bits(rng, n)
        init[G.index_of(b0)] = 1.0
        if rng.random() < 0.5:
            b1 = asymmetric_bits(rng, n)
            if b1 != b0:
                init[G.index_of(b0)], init[G.index_of(b1)] = 0.6, 0.8j
        psi_i = run_spec(full_spec, n, init)
        got_i = _numeric_amplitudes(sim.get_wavefunction(circuit, init.copy()))
        mon.note("initial-state-given")
        ctx.check("amplitudes", got_i is not None and len(got_i) == len(psi_i) and L.close(got_i, psi_i, 1e-9),
                  lambda: f"started from initial state with support {sorted(np.nonzero(init)[0].tolist())}: amplitudes "
                          f"{np.round(got_i, 6).tolist() if got_i is not None and len(got_i) <= 16 else '...'} differ from the "
                          f"reference {np.round(psi_i, 6).tolist() if len(psi_i) <= 16 else '...'}"
                          + (_reversal_hint(got_i, psi_i, n) if got_i is not None and len(got_i) == len(psi_i) else ""))

    # 2 exact distribution
    dist = sim.get_measurement_outcome_distribution(circuit)
    dd = dist.distribution_dict
    bad = _check_distribution_dict(dd, p, n)
    ctx.check("exact-distribution", bad is None, lambda: f"exact distribution: {bad}")

    # 3 exact expectation of Z-type operators
    op = build_operator(terms) if shared_op is None else shared_op
    # the library's own term order (public view) decides which measured value belongs to which term
    terms = [(tuple(q for q, _o in ops), c.real) for ops, c in P.terms_of(op)]
    e_ref = G.z_expectation(p, terms, n)
    e_lib = sim.get_exact_expectation_values(circuit, op)
    if n <= 6:
        # the operator's matrix on this register, asked for directly (the hook judges its qubit order): whether the
        # expectation value above is computed from it or without it is the library's business
        from orquestra.quantum.operators import get_sparse_operator

        try:
            get_sparse_operator(op, n)
        except Exception:
            pass  # recorded by the hook
    scale = max(1.0, sum(abs(c) for _, c in terms))
    ctx.check("exact-expectation", abs(e_lib - e_ref) <= 1e-9 * scale,
              lambda: f"exact <{op}> = {e_lib!r}, reference sum_b p(b) eig(b) = {e_ref!r}")
    if bad is None:
        e_own = 0.0
        for key, v in dd.items():
            e_own += float(v) * sum(c * G.z_parity(qs, key) for qs, c in terms)
        ctx.check("exact-expectation-vs-own-distribution", abs(e_lib - e_own) <= 1e-9 * scale,
                  lambda: f"exact <{op}> = {e_lib!r} but the library's own exact distribution averages to {e_own!r}")
    for q in range(n):
        single = build_operator([((q,), 1.0)])
        e1 = complex(get_expectation_value(single, wf)).real
        r1 = G.z_expectation(p, [((q,), 1.0)], n)
        ctx.check("exact-expectation", abs(e1 - r1) <= 1e-9, lambda: f"exact <Z{q}> = {e1!r}, reference {r1!r}")
    if operators_general:
        gen_terms = []
        for _ in range(rng.randint(1, 3)):
            size = rng.randint(1, n)
            qs = sorted(rng.sample(range(n), size))
            gen_terms.append(({q: rng.choice("XYZ") for q in qs}, _r(rng.uniform(-2, 2)) or 1.0))
        gop = build_operator(gen_terms)
        e_gen = sim.get_exact_expectation_values(circuit, gop)
        r_gen = _pauli_expectation(psi, [(sorted(d.items()), complex(c)) for d, c in gen_terms], n).real
        ctx.check("exact-expectation-general", abs(e_gen - r_gen) <= 1e-9 * max(1.0, sum(abs(c) for _, c in gen_terms)),
                  lambda: f"exact <{gop}> = {e_gen!r}, reference {r_gen!r}")

    # 4 sampling, both regimes, through the simulator and directly
    for regime, k in (("few", few), ("many", many)):
        m = sim.run_and_measure(circuit, k)
        shots = [tuple(t) for t in m.bitstrings]
        bad_s = _judge_samples(shots, p, n, f"run_and_measure(.., {k}) [{regime}]")
        ctx.check("support:" + regime, bad_s is None and len(shots) == k, lambda: bad_s[1] if bad_s else f"{len(shots)} samples for {k}")
        counts = m.get_counts()
        exp_counts = Counter("".join(str(b) for b in t) for t in shots)
        ctx.check("count-strings", dict(counts) == dict(exp_counts),
                  lambda: f"count strings {dict(counts)} vs tuples {dict(exp_counts)}")
        # the helper that turns count strings into <Z..Z> on marked qubits, asked directly, the qubits in every kind
        # of iterable its annotation allows (a one-shot iterable may be walked only once)
        from orquestra.quantum.measurements.measurements import get_expectation_value_from_frequencies as _gevf

        marked = sorted(rng.sample(range(n), rng.randint(1, n)))
        spelling = rng.choice(["list", "tuple", "set", "iterator", "generator", "map", "array", "range"])
        if spelling == "range":
            marked = list(range(marked[0], marked[-1] + 1))
        as_given = {"list": list, "tuple": tuple, "set": set, "iterator": iter, "generator": lambda q: (x for x in q),
                    "map": lambda q: map(int, q), "array": np.array, "range": lambda q: range(q[0], q[-1] + 1)}[spelling](marked)
        try:
            f_val = complex(_gevf(as_given, dict(counts)))
            f_exp = sum(G.z_parity(tuple(marked), t) for t in shots) / len(shots)
            ctx.check("frequencies-expectation", abs(f_val - f_exp) <= 1e-12,
                      lambda: f"get_expectation_value_from_frequencies(<{spelling}> {marked}, counts of {len(shots)} shots) = {f_val!r}, "
                              f"the shots give {f_exp!r}")
        except Exception as e:
            ctx.check("frequencies-expectation", False, f"get_expectation_value_from_frequencies(<{spelling}> {marked}, ..) raised {e!r}")
        mon.note("marked-qubits-as:" + spelling)
        if classical is None:
            # judged by the monitor against the very tuples; a second operator on the same record
            m.get_expectation_values(op)
            m.get_expectation_values(build_operator([((rng.randrange(n),), 1.0)]))
        else:
            ctx.check("deterministic-samples", all(t == classical for t in shots),
                      lambda: f"[{regime}-samples regime] expected every sample to be {classical}, got {sorted(set(shots))[:4]}")
            ev = m.get_expectation_values(op)
            exp_vals = [c * G.z_parity(qs, classical) for qs, c in terms]
            ctx.check("measured-expectation:" + regime,
                      np.allclose(np.asarray(ev.values, dtype=complex), exp_vals, atol=1e-12),
                      lambda: f"[{regime}] measured {list(ev.values)} expected {exp_vals}")
        # the sampled distribution asked of the simulator directly (judged by the monitor; exact for a basis state)
        sd = sim.get_measurement_outcome_distribution(circuit, k)
        if classical is not None:
            got_sd = {tuple(kk): float(v) for kk, v in sd.distribution_dict.items() if float(v) > 0}
            ctx.check("deterministic-samples", got_sd.keys() == {classical} and abs(got_sd[classical] - 1) < 1e-12,
                      lambda: f"[{regime}-samples regime, sampled distribution] expected {{{classical}: 1.0}}, got {got_sd}")
        direct = sample_from_wavefunction(wf, k, rng.randrange(2**31))
        bad_d = _judge_samples(direct, p, n, f"sample_from_wavefunction(.., {k}) [{regime}]")
        ctx.check("support:" + regime, bad_d is None, lambda: bad_d[1])
        if classical is not None:
            ctx.check("deterministic-samples", all(tuple(t) == classical for t in direct),
                      lambda: f"[{regime}-samples regime, direct] expected {classical}, got {sorted(set(map(tuple, direct)))[:4]}")

    if classical is not None:
        ctx.check("exact-distribution", abs(p[G.index_of(classical)] - 1) < 1e-12 and
                  abs(float(dd.get(classical, 0.0)) - 1) < 1e-12,
                  lambda: f"outcome {classical} should be certain; library gives {dd.get(classical)}")

    # 5 statistics, both regimes
    if stats:
        N = 4000 if n <= 5 else 8000
        dim = 2**n
        pools = {}
        # many-samples regime: one large request (N > 2^n for every width used)
        m_many = SymbolicSimulator(seed=rng.randrange(2**31)).run_and_measure(circuit, N)
        pools["many"] = ([tuple(t) for t in m_many.bitstrings], m_many)
        # few-samples regime: repeated requests of at most 2^n samples, fresh seeds
        chunk = dim
        shots_few = []
        while len(shots_few) < N:
            shots_few.extend(map(tuple, sample_from_wavefunction(wf, chunk, rng.randrange(2**31))))
        from orquestra.quantum.measurements import Measurements

        pools["few"] = (shots_few, Measurements(list(shots_few)))
        marg = [sum(p[i] for i in range(dim) if G.bits_of(i, n)[q]) for q in range(n)]
        # the sampled distribution of N shots: its per-qubit marginals are the exact ones within sampling error
        sdist = SymbolicSimulator(seed=rng.randrange(2**31)).get_measurement_outcome_distribution(circuit, N)
        for q in range(n):
            f = sum(float(v) for kk, v in sdist.distribution_dict.items() if tuple(kk)[q] == 1)
            ctx.check("marginals:sampled-distribution", within(f, marg[q], N),
                      lambda: f"[sampled distribution of {N} shots] qubit {q}: weight of 1 = {f:.4f}, exact {marg[q]:.4f} "
                              f"(exact marginals {[round(x, 3) for x in marg]})")
        for regime, (shots, meas) in pools.items():
            Ns = len(shots)
            for q in range(n):
                f = sum(t[q] for t in shots) / Ns
                ctx.check("marginals:" + regime, within(f, marg[q], Ns),
                          lambda: f"[{regime}-samples regime] qubit {q}: frequency of 1 = {f:.4f} over {Ns} samples, exact {marg[q]:.4f} "
                                  f"(exact marginals {[round(x, 3) for x in marg]})")
            ev = meas.get_expectation_values(op)
            vals = np.asarray(ev.values, dtype=complex)
            for (qs, c), v in zip(terms, vals):
                e = G.z_expectation(p, [(qs, 1.0)], n)
                tol = abs(c) * (7 * math.sqrt(max(1 - e * e, 0.0) / Ns) + 1.0 / Ns)
                ctx.check("measured-expectation:" + regime, abs(v.real - c * e) <= tol and abs(v.imag) < 1e-12,
                          lambda: f"[{regime}] measured <{c}*Z{list(qs)}> = {v!r} over {Ns} samples, exact {c * e!r} (tolerance {tol:.4g})")


# ----------------------------------------------------------------------------- symbolic circuits
TWO_QUBIT = ["CNOT", "c:RY", "c:RX", "c:PHASE", "c:RZ", "XX", "YY", "ZZ", "CPHASE", "SWAP", "CZ"]
THREE_QUBIT = ["cc:X", "cc:RY", "c:SWAP", "c:XX", "cc:PHASE", "c:CNOT"]
FOUR_QUBIT = ["cc:SWAP", "cc:CNOT", "ccc:X", "cc:CZ", "ccc:Z", "c:c:SWAP"]
PARAMETRIC = {"RX", "RY", "RZ", "PHASE", "CPHASE", "XX", "YY", "ZZ"}


def _is_parametric(name):
    return name.split(":")[-1] in PARAMETRIC


def spread_qubits(rng, k, n):
    """k distinct qubits in a random ORDER; biased towards far apart / descending tuples (the permutation that
    brings them next to each other is then neither trivial nor its own inverse)"""
    qs = rng.sample(range(n), k)
    if k >= 4 and rng.random() < 0.4:
        # a block of neighbouring qubits listed with both ends in place and the interior in another order
        # ("first is the smallest, last is the largest, no gaps" does not make a tuple ascending)
        lo = rng.randrange(n - k + 1)
        mid = list(range(lo + 1, lo + k - 1))
        while len(mid) > 1 and mid == sorted(mid):
            rng.shuffle(mid)
        return tuple([lo] + mid + [lo + k - 1])
    if n > k and rng.random() < 0.5:
        qs = rng.sample(range(n), k)
        lo, hi = 0, n - 1
        if rng.random() < 0.5:
            qs[0], qs[-1] = (hi, lo) if rng.random() < 0.6 else (lo, hi)
            mid = [q for q in range(n) if q not in (lo, hi)]
            rng.shuffle(mid)
            qs[1:-1] = mid[: k - 2]
    return tuple(qs)


def multi_qubit_spec(rng, n, k_gates=None, dense=True):
    """distinct single-qubit preparations (dense: a rotation on every qubit; otherwise a mixture of rotations,
    X and idle qubits - fewer non-zero amplitudes, which is what the library's symbolic arithmetic is paid
    by), then 2- and 3-qubit gates (controlled, two-qubit rotations, doubly controlled) on qubit tuples in
    arbitrary order"""
    spec = []
    order = list(range(n))
    rng.shuffle(order)
    rotated = set(order if dense else order[: max(1, min(2, n - 1))])
    for q in order:
        if q in rotated:
            spec.append(("RY", _r(rng.uniform(0.3, 2.8)), (q,)))
            if rng.random() < 0.3:
                spec.append((rng.choice(["RZ", "RX", "PHASE"]), _r(rng.uniform(-3, 3)), (q,)))
        elif rng.random() < 0.6:
            spec.append(("X", None, (q,)))
    for _ in range(k_gates if k_gates is not None else rng.randint(1, 3)):
        if n >= 4 and rng.random() < 0.22:
            # gates on four qubits: tuples whose INTERIOR is permuted while both ends stay in place exist only here
            name, k = rng.choice(FOUR_QUBIT), 4
        elif n >= 3 and rng.random() < 0.35:
            name, k = rng.choice(THREE_QUBIT), 3
        elif n >= 2:
            name, k = rng.choice(TWO_QUBIT), 2
        else:
            name, k = rng.choice(["RX", "RY", "RZ"]), 1
        spec.append((name, _r(rng.uniform(-3, 3)) or 0.5 if _is_parametric(name) else None, spread_qubits(rng, k, n)))
        if rng.random() < 0.3:
            spec.append(("RY", _r(rng.uniform(-2.5, 2.5)), (rng.randrange(n),)))
    return spec


def symbolise(rng, spec, max_symbolic=3):
    """(symbolic spec, assignment {Symbol: float}, numeric spec): some parameters become a*s + b of one of two
    symbols; the numeric spec carries the value the expression takes under the assignment"""
    import sympy

    names = rng.sample(["theta", "phi", "alpha", "x", "t0", "gamma"], 2)
    symbols = [sympy.Symbol(nm) for nm in names]
    values = {sym: _r(rng.uniform(-3, 3)) or 0.7 for sym in symbols}
    idx = [i for i, (nm, p, _q) in enumerate(spec) if p is not None]
    multi = [i for i in idx if len(spec[i][2]) > 1]
    chosen = set()
    if multi:
        chosen.add(rng.choice(multi))  # the point of the class: a multi-qubit gate that takes the symbolic path
    elif idx:
        chosen.add(rng.choice(idx))
    for i in rng.sample(idx, len(idx)):  # the library's cost grows steeply with the number of symbolic gates
        if len(chosen) < max_symbolic and rng.random() < 0.3:
            chosen.add(i)
    sym_spec, num_spec = [], []
    for i, (nm, p, qs) in enumerate(spec):
        if i not in chosen:
            sym_spec.append((nm, p, qs))
            num_spec.append((nm, p, qs))
            continue
        sym = rng.choice(symbols)
        a, b = rng.choice([(1, 0), (1, 0), (2, 0), (-1, 0), (1, 0.25), (sympy.Rational(1, 2), 0), (-2, 1.5)])
        expr = a * sym + b if b else a * sym
        sym_spec.append((nm, expr, qs))
        num_spec.append((nm, float(a) * values[sym] + b, qs))
    used = set()
    for _nm, prm, _qs in sym_spec:
        used |= set(getattr(prm, "free_symbols", ()))
    return sym_spec, {k: v for k, v in values.items() if k in used}, num_spec


def _symbolic_case(ctx):
    from orquestra.quantum.operators import get_expectation_value
    from orquestra.quantum.runners import SymbolicSimulator
    from orquestra.quantum.wavefunction import sample_from_wavefunction

    rng = ctx.rng
    n = rng.choice([2, 3, 3, 3, 4, 4, 4, 4] if ctx.quick else [2, 3, 4, 4, 5, 5, 6])
    sym_spec, assignment, num_spec = symbolise(rng, multi_qubit_spec(rng, n, k_gates=rng.randint(1, 2 if n >= 5 else 3),
                                                                     dense=rng.random() < (0.25 if n <= 3 else 0.1)),
                                               max_symbolic=(1 if n >= 5 else 2) if ctx.quick else 3)
    psi = run_spec(num_spec, n)
    p = _probs(psi)
    seed = rng.randrange(2**31)
    stepwise = len(assignment) > 1 and rng.random() < 0.3
    few, many = _sample_regimes(ctx, n)
    ctx.describe(f"symbolic n={n} [{spec_str(sym_spec)}] at {sorted((str(k), v) for k, v in assignment.items())} "
                 f"stepwise={stepwise} few={few} many={many} seed={seed}", _nontrivial(p, n))
    ctx.mon.note(f"width:{n}")
    for nm, prm, qs in sym_spec:
        if len(qs) > 1 and getattr(prm, "free_symbols", None):
            ctx.mon.note("symbolic-multi-qubit-gate:" + ("adjacent-ascending" if list(qs) == list(range(qs[0], qs[0] + len(qs))) else "permuted"))

    circuit = build_circuit(sym_spec, n)
    sim = SymbolicSimulator(seed=seed)
    wf = sim.get_wavefunction(circuit)
    if stepwise:
        first = rng.choice(sorted(assignment, key=str))
        bound = wf.bind({first: assignment[first]}).bind({k: v for k, v in assignment.items() if k != first})
    else:
        bound = wf.bind(dict(assignment))
    got = _numeric_amplitudes(bound)
    ok = got is not None and len(got) == len(psi) and L.close(got, psi, 1e-9)
    ctx.check("bound-amplitudes", ok, lambda: (
        f"amplitudes of the symbolic wavefunction after binding "
        f"{np.round(got, 6).tolist() if got is not None and len(got) <= 16 else '...'} differ from the reference "
        f"{np.round(psi, 6).tolist() if len(psi) <= 16 else '...'}"
        + (_reversal_hint(got, psi, n) if got is not None and len(got) == len(psi) else "")))
    if ok:
        # views of the bound symbolic wavefunction
        op = build_operator(z_terms(rng, n))
        terms = [(tuple(q for q, _o in ops), c.real) for ops, c in P.terms_of(op)]
        e_ref = G.z_expectation(p, terms, n)
        e_lib = complex(get_expectation_value(op, bound)).real
        ctx.check("exact-expectation", abs(e_lib - e_ref) <= 1e-9 * max(1.0, sum(abs(c) for _, c in terms)),
                  lambda: f"<{op}> of the bound symbolic wavefunction = {e_lib!r}, reference {e_ref!r}")
        for regime, k in (("few", few), ("many", many)):
            direct = sample_from_wavefunction(bound, k, rng.randrange(2**31))
            bad_d = _judge_samples(direct, p, n, f"sample_from_wavefunction(bound symbolic wavefunction, {k}) [{regime}]")
            ctx.check("support:" + regime, bad_d is None, lambda: bad_d[1])
    # the same circuit with numbers bound first (same simulator object): through every view, or its state only
    bound_circuit = circuit.bind(dict(assignment))
    if rng.random() < 0.5:
        return _views(ctx, num_spec, n, circuit=bound_circuit, psi=psi, sim=sim, describe=False)
    got_n = _numeric_amplitudes(sim.get_wavefunction(bound_circuit))
    ctx.check("amplitudes", got_n is not None and len(got_n) == len(psi) and L.close(got_n, psi, 1e-9),
              lambda: f"amplitudes of the circuit with numbers bound differ from the reference"
                      + (_reversal_hint(got_n, psi, n) if got_n is not None and len(got_n) == len(psi) else ""))


# ----------------------------------------------------------------------------- histories of near-identical circuits
SIBLINGS = ["wider", "wider", "narrower", "narrower", "param", "param", "flip", "flip", "relabel", "mirror", "drop",
            "append", "same"]


def sibling(rng, spec, n, kind, n_max):
    """a circuit that differs from (spec, n) in ONE respect; None if the respect does not apply"""
    spec = list(spec)
    if kind == "wider":
        return (spec, n + rng.choice([1, 1, 2])) if n + 1 <= n_max else None
    if kind == "narrower":
        w = max(used_width(spec), 1)
        return (spec, rng.randint(w, n - 1)) if w < n else None
    if kind == "same":
        return spec, n
    if kind == "param":
        idx = [i for i, e in enumerate(spec) if e[1] is not None]
        if not idx:
            return None
        i = rng.choice(idx)
        nm, prm, qs = spec[i]
        new = _r(rng.choice([prm + 1e-4, prm - 0.05, prm + 0.7, prm + 2 * math.pi, -prm, prm + math.pi]))
        if new == prm:
            return None
        spec[i] = (nm, new, qs)
        return spec, n
    if kind == "flip":
        idx = [i for i, e in enumerate(spec) if len(e[2]) > 1]
        if not idx:
            return None
        i = rng.choice(idx)
        nm, prm, qs = spec[i]
        spec[i] = (nm, prm, tuple(reversed(qs)))
        return spec, n
    if kind in ("relabel", "mirror"):
        if n < 2:
            return None
        perm = list(range(n))
        if kind == "mirror":
            perm.reverse()
        else:
            while perm == list(range(n)):
                rng.shuffle(perm)
        return [(nm, prm, tuple(perm[q] for q in qs)) for nm, prm, qs in spec], n
    if kind == "drop":
        if len(spec) < 2:
            return None
        del spec[rng.randrange(len(spec))]
        return spec, n
    if kind == "append":
        q = rng.randrange(n)
        spec.insert(rng.randint(0, len(spec)), rng.choice([("X", None, (q,)), ("RY", _r(rng.uniform(0.4, 2.6)), (q,))]))
        return spec, n
    raise ValueError(kind)


def history_steps(rng, n_max, max_siblings=4):
    w = rng.choice([1, 2, 2, 3, 3, 4])
    maker = rng.choice(["classical", "two_outcome", "entangled", "entangled", "product", "multi"])
    if maker == "classical":
        base = classical_spec(rng, w)
    elif maker == "two_outcome":
        base = two_outcome_spec(rng, w)
    elif maker == "product":
        base = product_spec(rng, w)
    elif maker == "multi":
        base = multi_qubit_spec(rng, w, k_gates=1)
    else:
        base = entangled_spec(rng, w, rich=rng.random() < 0.4)
    steps = [(list(base), w + rng.choice([0, 1, 1, 2]), "base")]
    for _ in range(rng.randint(2, max_siblings)):
        src = steps[0] if rng.random() < 0.5 else steps[-1]
        for _try in range(8):
            kind = rng.choice(SIBLINGS)
            new = sibling(rng, src[0], src[1], kind, n_max)
            if new is not None:
                break
        else:
            kind, new = "same", (src[0], src[1])
        steps.append((new[0], new[1], kind))
    if rng.random() < 0.7:  # back to an earlier circuit after the look-alikes
        back = rng.choice(steps[:-1])
        steps.append((back[0], back[1], "again"))
    return steps


def _history_case(ctx):
    from orquestra.quantum.runners import SymbolicSimulator

    rng = ctx.rng
    steps = history_steps(rng, 6 if ctx.quick else 8, 3 if ctx.quick else 5)
    seed = rng.randrange(2**31)
    share_op = rng.random() < 0.5
    n_min = min(n for _s, n, _k in steps)
    op_terms = z_terms(rng, n_min)
    refs = [run_spec(spec, n) for spec, n, _k in steps]
    ctx.describe("history seed=%d shared_op=%s :: " % (seed, op_terms if share_op else None)
                 + " | ".join(f"{kind}: n={n} [{spec_str(spec)}]" for spec, n, kind in steps),
                 any(_nontrivial(_probs(psi), n) for psi, (_s, n, _k) in zip(refs, steps)))
    sim = SymbolicSimulator(seed=seed)
    shared = build_operator(op_terms) if share_op else None
    from orquestra.quantum import circuits as C

    circuit, last_id = None, None
    for (spec, n, kind), psi in zip(steps, refs):
        ctx.mon.note("history:" + kind)
        ops = [_gate(C, name, param)(*qubits) for name, param, qubits in spec]
        # the earlier circuit is dropped just before the next one is made: the new object often takes over
        # the identity (id) of the old one
        circuit = None
        circuit = C.Circuit(ops, n_qubits=n)
        if id(circuit) == last_id:
            ctx.mon.note("history:identity-of-earlier-circuit-reused")
        last_id = id(circuit)
        _views(ctx, spec, n, sim=sim, circuit=circuit, psi=psi, shared_op=shared, describe=False)


# ----------------------------------------------------------------------------- wide registers
BOUNDARY_BITS = (8, 16, 32, 64)


def boundary_qubits(n):
    """qubits next to an 8/16/32/64-bit boundary of the basis index or of the tuple, counted from either end"""
    out = {0, n - 1}
    for b in BOUNDARY_BITS:
        out |= {b - 1, b, n - b, n - b - 1}
    return sorted(q for q in out if 0 <= q < n)


def wide_z_terms(rng, n):
    edge = boundary_qubits(n)
    singles = set(rng.sample(edge, min(len(edge), 4))) | set(rng.sample(range(n), 2))
    coeffs = rng.sample([0.5, -0.75, 1.25, 2.0, -1.5, 0.3, -2.25, 1.0, 3.5, -0.4], len(singles))
    terms = [((q,), c) for q, c in zip(sorted(singles), coeffs)]
    for _ in range(rng.randint(1, 3)):
        qs = tuple(sorted(set(rng.sample(edge, min(len(edge), rng.randint(1, 3))) + rng.sample(range(n), rng.randint(0, 2)))))
        if len(qs) > 1 and not any(qs == t[0] for t in terms):
            terms.append((qs, _r(rng.uniform(-2, 2)) or 0.5))
    if rng.random() < 0.3:
        terms.append(((), _r(rng.uniform(-1, 1)) or 0.25))
    rng.shuffle(terms)
    return terms


def wide_bits(rng, n):
    """asymmetric bit pattern whose boundary qubits are set more often than not"""
    edge = set(boundary_qubits(n))
    while True:
        b = tuple(int(rng.random() < (0.6 if q in edge else 0.35)) for q in range(n))
        if b != b[::-1]:
            return b


def wide_circuit_spec(rng, n):
    """a short circuit on a wide register (every gate costs the library a 2^n x 2^n matrix): one or two X next
    to the 8-bit boundaries / ends, rotations, up to two two-qubit gates of any span starting from a qubit that
    is not idle"""
    spec = []
    for q in rng.sample(boundary_qubits(n), rng.randint(1, 3)):
        spec.append(("X", None, (q,)))
    for _ in range(rng.randint(1, 2)):
        spec.append(("RY", _r(rng.uniform(0.6, 2.5)), (rng.randrange(n),)))
    for _ in range(rng.choice([0, 1, 1, 2])):
        # the span of a gate is a size of its own (the library permutes the qubits between its ends)
        span = rng.randint(1, 4) if rng.random() < 0.4 else rng.randint(5, n - 1)
        first = rng.choice([q for _nm, _p, qs in spec for q in qs])  # a qubit that is not idle
        second = rng.choice([q for q in (first - span, first + span) if 0 <= q < n] or [(first + 1) % n])
        name = rng.choice(["CNOT", "CNOT", "c:RY", "SWAP"])
        spec.append((name, _r(rng.uniform(0.6, 2.5)) if name == "c:RY" else None, (first, second)))
        if rng.random() < 0.3:
            spec.append(("X", None, (rng.randrange(n),)))
    return spec


def _wide_shots(ctx):
    from orquestra.quantum.measurements import Measurements

    rng = ctx.rng
    w = rng.choice([9, 12, 15, 16, 17, 24, 31, 32, 33, 48, 63, 64, 65, 70, 100])
    outcomes = []
    while len(outcomes) < rng.randint(1, 4):
        b = wide_bits(rng, w)
        if b not in outcomes:
            outcomes.append(b)
    shots = [b for b in outcomes for _ in range(rng.randint(1, 12))]
    rng.shuffle(shots)
    terms = wide_z_terms(rng, w)
    ctx.describe(f"wide shots width={w} outcomes={[''.join(map(str, b)) for b in outcomes]} "
                 f"counts={[shots.count(b) for b in outcomes]} op={terms}",
                 Counter(shots) != Counter(b[::-1] for b in shots))
    ctx.mon.note(f"wide-shots:width>{max([0] + [b for b in BOUNDARY_BITS if w > b])}")
    m = Measurements(list(shots))
    counts = m.get_counts()
    exp_counts = Counter("".join(str(b) for b in t) for t in shots)
    op = build_operator(terms)
    terms = [(tuple(q for q, _o in ops), c.real) for ops, c in P.terms_of(op)]
    ev = m.get_expectation_values(op)
    exp_vals = _shot_average(terms, shots)
    ctx.check("wide-shots", dict(counts) == dict(exp_counts), lambda: f"count strings {dict(counts)} vs tuples {dict(exp_counts)}")
    ctx.check("wide-shots", len(ev.values) == len(exp_vals) and np.allclose(np.asarray(ev.values, dtype=complex), exp_vals, atol=1e-12),
              lambda: f"measured {list(ev.values)} for terms {terms}; average over the tuples gives {exp_vals}")


def _wide_case(ctx):
    from orquestra.quantum.distributions import create_bitstring_distribution_from_probability_distribution
    from orquestra.quantum.measurements import Measurements
    from orquestra.quantum.operators import get_expectation_value
    from orquestra.quantum.runners import SymbolicSimulator
    from orquestra.quantum.wavefunction import Wavefunction, sample_from_wavefunction

    rng = ctx.rng
    kind = rng.choice(["state"] * 4 + ["circuit"] * 4 + ["shots"] * 2)
    if kind == "shots":
        return _wide_shots(ctx)
    seed = rng.randrange(2**31)
    sim = SymbolicSimulator(seed=seed)
    classical = None
    if kind == "circuit":
        n = rng.choice([9, 9, 10] if ctx.quick else [9, 10, 10, 11])
        spec = wide_circuit_spec(rng, n)
        psi = run_spec(spec, n)
        extra = rng.sample(["expectation", "distribution", "measure-few", "measure-many"], 2)
        head = f"wide circuit n={n} [{spec_str(spec)}] extra={extra}"
    else:
        n = rng.choice([9, 9, 10, 10, 11, 12, 13, 16, 17] if ctx.quick else [9, 10, 11, 12, 13, 14, 15, 16, 17])
        support = []
        while len(support) < rng.choice([1, 2, 2, 3, 4]):
            b = wide_bits(rng, n)
            if b not in support:
                support.append(b)
        amps = [complex(_r(rng.uniform(0.3, 1.0)) * rng.choice([1, -1]), _r(rng.uniform(-1, 1)) if rng.random() < 0.5 else 0.0)
                for _ in support]
        norm = math.sqrt(sum(abs(a) ** 2 for a in amps))
        psi = np.zeros(2**n, dtype=complex)
        for b, a in zip(support, amps):
            psi[G.index_of(b)] = a / norm
        if len(support) == 1:
            classical = support[0]
        head = f"wide state n={n} support={[''.join(map(str, b)) for b in support]} amplitudes={amps}"
    p = _probs(psi)
    terms = wide_z_terms(rng, n)
    dim = 2**n
    few = rng.choice([1, rng.randint(2, 40), dim if n <= 12 else 7])
    many = dim + rng.choice([1, 2, rng.randint(3, 60)])
    do_few = n <= 13 or rng.random() < (0.3 if ctx.quick else 0.6)
    do_many = n <= 12 or (not ctx.quick and n <= 16 and rng.random() < 0.3)
    ctx.describe(f"{head} op={terms} few={few if do_few else None} many={many if do_many else None} seed={seed}", _nontrivial(p, n))
    ctx.mon.note(f"width:{n}")

    if kind == "circuit":
        circuit = build_circuit(spec, n)
        wf = sim.get_wavefunction(circuit)
        got = _numeric_amplitudes(wf)
        ok = got is not None and len(got) == len(psi) and L.close(got, psi, 1e-9)
        ctx.check("amplitudes", ok, lambda: f"amplitudes differ from the reference, first at basis index "
                  f"{int(np.argmax(np.abs(got - psi))) if got is not None and len(got) == len(psi) else None}"
                  + (_reversal_hint(got, psi, n) if got is not None and len(got) == len(psi) else ""))
        if not ok:
            return
    else:
        wf = Wavefunction(psi.copy())

    # exact expectation of Z-type operators, directly and against the library's own distribution
    op = build_operator(terms)
    terms = [(tuple(q for q, _o in ops), c.real) for ops, c in P.terms_of(op)]
    scale = max(1.0, sum(abs(c) for _, c in terms))
    e_ref = S.z_expectation(p, terms, n)
    e_lib = complex(get_expectation_value(op, wf)).real
    ctx.check("exact-expectation", abs(e_lib - e_ref) <= 1e-9 * scale,
              lambda: f"exact <{op}> = {e_lib!r} on {n} qubits, reference sum_b p(b) eig(b) = {e_ref!r}")
    if n <= 13:
        dist = create_bitstring_distribution_from_probability_distribution(wf.get_probabilities())
        dd = dist.distribution_dict
        bad = _check_distribution_dict(dd, p, n)
        ctx.check("exact-distribution", bad is None, lambda: f"exact distribution: {bad}")
        if bad is None:
            e_own = sum(float(v) * sum(c * G.z_parity(qs, key) for qs, c in terms) for key, v in dd.items() if v)
            ctx.check("exact-expectation-vs-own-distribution", abs(e_lib - e_own) <= 1e-9 * scale,
                      lambda: f"exact <{op}> = {e_lib!r} but the library's own exact distribution averages to {e_own!r}")
    gen_terms = []
    for _ in range(rng.randint(1, 2)):
        qs = sorted(set(rng.sample(boundary_qubits(n), 2) + rng.sample(range(n), rng.randint(0, 2))))
        gen_terms.append(({q: rng.choice("XYZ") for q in qs}, _r(rng.uniform(-2, 2)) or 1.0))
    gop = build_operator(gen_terms)
    e_gen = complex(get_expectation_value(gop, wf)).real
    r_gen = S.pauli_expectation(psi, [(sorted(d.items()), complex(c)) for d, c in gen_terms], n).real
    ctx.check("exact-expectation-general", abs(e_gen - r_gen) <= 1e-9 * max(1.0, sum(abs(c) for _, c in gen_terms)),
              lambda: f"exact <{gop}> = {e_gen!r} on {n} qubits, reference {r_gen!r}")

    # two more requests to the simulator itself (each one simulates the circuit again)
    if kind == "circuit":
        if "expectation" in extra:
            e_sim = sim.get_exact_expectation_values(circuit, op)
            ctx.check("exact-expectation", abs(e_sim - e_ref) <= 1e-9 * scale,
                      lambda: f"simulator: exact <{op}> = {e_sim!r} on {n} qubits, reference {e_ref!r}")
        if "distribution" in extra:
            bad_s = _check_distribution_dict(sim.get_measurement_outcome_distribution(circuit).distribution_dict, p, n)
            ctx.check("exact-distribution", bad_s is None, lambda: f"simulator: exact distribution: {bad_s}")
        for regime, k in (("few", few), ("many", many)):
            if "measure-" + regime not in extra:
                continue
            m = sim.run_and_measure(circuit, k)
            bad_m = _judge_samples(m.bitstrings, p, n, f"run_and_measure(.., {k}) [{regime}]")
            ctx.check("support:" + regime, bad_m is None and len(m.bitstrings) == k,
                      lambda: bad_m[1] if bad_m else f"{len(m.bitstrings)} samples for {k}")

    # sampling from the wavefunction, both regimes; counts and measured expectation of the record
    for regime, k, do in (("few", few, do_few), ("many", many, do_many)):
        if not do:
            continue
        shots = [tuple(t) for t in sample_from_wavefunction(wf, k, rng.randrange(2**31))]
        bad_d = _judge_samples(shots, p, n, f"sample_from_wavefunction(.., {k}) [{regime}]")
        ctx.check("support:" + regime, bad_d is None and len(shots) == k, lambda: bad_d[1] if bad_d else f"{len(shots)} samples for {k}")
        if bad_d is not None:
            continue
        m = Measurements(list(shots))
        counts = m.get_counts()
        exp_counts = Counter("".join(str(b) for b in t) for t in shots)
        ctx.check("count-strings", dict(counts) == dict(exp_counts), lambda: f"count strings {dict(counts)} vs tuples {dict(exp_counts)}")
        ev = m.get_expectation_values(op)
        if classical is not None:
            ctx.check("deterministic-samples", all(t == classical for t in shots),
                      lambda: f"[{regime}-samples regime, {n} qubits] expected every sample to be {classical}, got {sorted(set(shots))[:3]}")
            exp_vals = [c * G.z_parity(qs, classical) for qs, c in terms]
            ctx.check("measured-expectation:" + regime, np.allclose(np.asarray(ev.values, dtype=complex), exp_vals, atol=1e-12),
                      lambda: f"[{regime}] measured {list(ev.values)} expected {exp_vals}")
        # (a record that is not deterministic is judged by the monitor of get_expectation_values against its tuples)


# ----------------------------------------------------------------------------- coefficient scales and number spellings
SCALE_KINDS = ["tiny", "tiny", "tiny-mixed", "tiny-mixed", "tiny-mixed", "huge", "huge-mixed", "integers"]
SPELLINGS = ["float", "float", "float", "np.float64", "complex", "int", "np.int64"]


def spell_number(rng, value, np_int_ok=True):
    """(spelling, the same real number as float / numpy float / complex with zero imaginary part, or - when the
    value is a whole number that the type holds - int / numpy integer)"""
    kind = rng.choice(SPELLINGS)
    whole = float(value).is_integer() and abs(value) < 2**62
    if kind == "int" and whole:
        return kind, int(value)
    if kind == "np.int64" and whole and abs(value) < 2**15 and np_int_ok:
        # fixed-width integers: only where the products of two coefficients (which the library forms for the
        # covariances) fit the type the caller chose
        return kind, (np.int32(int(value)) if rng.random() < 0.3 else np.int64(int(value)))
    if kind == "np.float64":
        return kind, np.float64(value)
    if kind == "complex":
        return kind, complex(value, 0.0)
    return "float", float(value)


def scaled_z_terms(rng, n, kind):
    """[(qubits, coefficient)]: a Z-type operator whose coefficients are all tiny (down to 1e-200), all huge (up
    to 1e100), ordinary with one or two tiny / huge ones among them, or whole numbers up to 2^62.  Returns the
    terms and the positions of the terms that are small next to the others"""
    base = z_terms(rng, n, k=rng.randint(1, 2))
    special = []
    if kind == "tiny":
        e = rng.choice([8, 9, 9, 10, 12, 15, 30, 100, 200])
        terms = [(qs, c * 10.0 ** -(e + (rng.randint(0, 2) if rng.random() < 0.3 else 0))) for qs, c in base]
    elif kind == "huge":
        e = rng.choice([8, 9, 12, 16, 30, 100])
        terms = [(qs, c * 10.0 ** (e + (rng.randint(0, 2) if rng.random() < 0.3 else 0))) for qs, c in base]
    elif kind == "tiny-mixed":
        terms = list(base)
        special = rng.sample(range(len(terms)), rng.randint(1, min(2, len(terms))))
        for i in special:
            terms[i] = (terms[i][0], rng.choice([-1, 1]) * rng.randint(1, 9) * 10.0 ** -rng.choice([8, 9, 9, 9, 12, 30]))
    elif kind == "huge-mixed":
        terms = list(base)
        i = rng.randrange(len(terms))
        terms[i] = (terms[i][0], terms[i][1] * 10.0 ** rng.choice([8, 9, 10]))
        special = [j for j in range(len(terms)) if j != i]
    elif kind == "integers":
        terms = [(qs, float(rng.choice([-1, 1]) * rng.choice([1, 2, 3, 7, 2**31, 2**32 + 1, 2**53 + 2, 2**60, 2**62 - 2**9])))
                 for qs, _c in base]
    else:
        raise ValueError(kind)
    return terms, special


def _operator_from(terms, np_indices=False, as_sum=True):
    """PauliSum made from the list of terms in ONE step (the library's ``+`` merges and simplifies)"""
    from orquestra.quantum.operators import PauliSum, PauliTerm

    made = []
    for qs, c in terms:
        made.append(PauliTerm({(np.int64(q) if np_indices else q): "Z" for q in qs}, c) if qs else PauliTerm("I0", c))
    return PauliSum(made) if as_sum or len(made) != 1 else made[0]


def _scales_case(ctx):
    from orquestra.quantum.operators import get_expectation_value
    from orquestra.quantum.runners import SymbolicSimulator

    rng = ctx.rng
    n = rng.choice([1, 2, 2, 3, 3, 3, 4, 4, 5])
    maker = rng.choice(["classical", "classical", "two_outcome", "product", "product", "entangled"])
    classical = None
    if maker == "classical":
        spec = classical_spec(rng, n)
        classical = G.classical_run(spec, n)
    elif maker == "two_outcome":
        spec = two_outcome_spec(rng, n)
    elif maker == "product":
        spec = product_spec(rng, n)
    else:
        spec = entangled_spec(rng, n, rich=rng.random() < 0.3)
    tiny_amplitude = maker != "classical" and rng.random() < 0.4
    if tiny_amplitude:  # an outcome of probability 1e-8 ... 1e-10 is an outcome
        spec = list(spec)
        spec.insert(rng.randint(0, len(spec)), ("RY", rng.choice([-1, 1]) * rng.choice([2e-4, 6e-5, 2e-5]), (rng.randrange(n),)))
    kind = rng.choice(SCALE_KINDS)
    terms, special = scaled_z_terms(rng, n, kind)
    np_int_ok = all(abs(c) < 2**15 for _qs, c in terms)
    spelled = [(qs,) + spell_number(rng, c, np_int_ok) for qs, c in terms]
    np_indices = rng.random() < 0.25
    np_samples = rng.random() < 0.25
    few, many = _sample_regimes(ctx, n)
    seed = rng.randrange(2**31)
    psi = run_spec(spec, n)
    p = _probs(psi)
    ctx.describe(f"scales/{kind} n={n} [{spec_str(spec)}] op={[(qs, sp, repr(c)) for qs, sp, c in spelled]} "
                 f"np_indices={np_indices} np_samples={np_samples} few={few} many={many} seed={seed}", _nontrivial(p, n))
    mon = ctx.mon
    mon.note(f"width:{n}")
    mon.note("scales:" + kind)
    for _qs, sp, _c in spelled:
        mon.note("coefficient-spelled-as:" + sp)
    if tiny_amplitude:
        mon.note("scales:tiny-amplitude")

    circuit = build_circuit(spec, n)
    sim = SymbolicSimulator(seed=seed)
    op = _operator_from([(qs, c) for qs, _sp, c in spelled], np_indices)
    terms = [(tuple(int(q) for q, _o in ops), c.real) for ops, c in P.terms_of(op)]
    size = sum(abs(c) for _, c in terms)

    wf = sim.get_wavefunction(circuit)
    got = _numeric_amplitudes(wf)
    ok = got is not None and len(got) == len(psi) and L.close(got, psi, 1e-9)
    ctx.check("amplitudes", ok, lambda: "amplitudes differ from the reference"
              + (_reversal_hint(got, psi, n) if got is not None and len(got) == len(psi) else ""))
    if not ok:
        return
    dd = sim.get_measurement_outcome_distribution(circuit).distribution_dict
    bad = _check_distribution_dict(dd, p, n)
    ctx.check("exact-distribution", bad is None, lambda: f"exact distribution: {bad}")

    # the whole operator: tolerance relative to the size of its coefficients (rounding is ~1e-16 of it)
    e_ref = G.z_expectation(p, terms, n)
    e_lib = sim.get_exact_expectation_values(circuit, op)
    ctx.check("exact-expectation", abs(e_lib - e_ref) <= 1e-12 * size,
              lambda: f"exact <{op}> = {e_lib!r}, reference sum_b p(b) eig(b) = {e_ref!r} (coefficients total {size!r})")
    e_dir = complex(get_expectation_value(op, wf))
    ctx.check("exact-expectation", abs(e_dir - e_ref) <= 1e-12 * size,
              lambda: f"get_expectation_value: <{op}> = {e_dir!r}, reference {e_ref!r} (coefficients total {size!r})")
    if bad is None:
        e_own = 0.0
        for key, v in dd.items():
            e_own += float(v) * sum(c * G.z_parity(qs, key) for qs, c in terms)
        ctx.check("exact-expectation-vs-own-distribution", abs(e_lib - e_own) <= 1e-12 * size,
                  lambda: f"exact <{op}> = {e_lib!r} but the library's own exact distribution averages to {e_own!r}")
    # term by term (the small ones first): each term is an operator of its own
    order = list(special) + [i for i in rng.sample(range(len(terms)), len(terms)) if i not in special]
    for i in order[:3]:
        qs, c = terms[i]
        if not qs:
            continue
        single = _operator_from([(qs, op.terms[i].coefficient)], np_indices, as_sum=rng.random() < 0.5)
        e1 = sim.get_exact_expectation_values(circuit, single)
        r1 = G.z_expectation(p, [(qs, c)], n)
        ctx.check("scaled-expectation", abs(e1 - r1) <= 1e-12 * abs(c),
                  lambda: f"exact <{single}> = {e1!r}, reference {r1!r}")

    # measured, both regimes: judged by the monitor against the very tuples; exactly known on basis states
    for regime, k in (("few", few), ("many", many)):
        m = sim.run_and_measure(circuit, np.int64(k) if np_samples else k)
        shots = [tuple(t) for t in m.bitstrings]
        bad_s = _judge_samples(shots, p, n, f"run_and_measure(.., {k}) [{regime}]")
        ctx.check("support:" + regime, bad_s is None and len(shots) == k, lambda: bad_s[1] if bad_s else f"{len(shots)} samples for {k}")
        if bad_s is not None:
            continue
        ev = m.get_expectation_values(op)
        vals = np.asarray(ev.values, dtype=complex).flatten()
        exp_vals = _shot_average(terms, shots)
        ctx.check("scaled-expectation", len(vals) == len(exp_vals) and
                  all(abs(v - e) <= 1e-12 * abs(c) for v, e, (_qs, c) in zip(vals, exp_vals, terms)),
                  lambda: f"[{regime}] measured {list(vals)} for terms {terms}; average over the tuples gives {exp_vals}")
        if classical is not None:
            ctx.check("deterministic-samples", all(t == classical for t in shots),
                      lambda: f"[{regime}-samples regime] expected every sample to be {classical}, got {sorted(set(shots))[:4]}")
            total = complex(sum(vals))
            ctx.check("measured-expectation:" + regime, abs(total - e_ref) <= 1e-12 * size,
                      lambda: f"[{regime}] measured total {total!r} on a basis state, exact {e_ref!r}")


# ----------------------------------------------------------------------------- histories on ONE record / state / operator
RECORD_STARTS = ["simulated", "simulated", "given", "given", "from_counts", "assigned"]
RECORD_MODS = ["reverse", "reverse", "permute", "complement", "other", "other", "item", "item", "slice", "multiplicity",
               "clear-refill", "each-in-place", "extend", "add_counts", "shrink", "widen", "shuffle", "none",
               "op-coefficient", "op-coefficient", "op-terms", "op-reorder"]
RECORD_READS = ["counts", "dist", "expect", "expect", "expect-other"]


def _pool(rng, w, k):
    pool = []
    while len(pool) < k:
        b = asymmetric_bits(rng, w) if w <= 8 else wide_bits(rng, w)
        if b not in pool:
            pool.append(b)
        elif w == 1 or (w == 2 and len(pool) >= 2):
            break
    return pool


def _shots_from(rng, w, N, k=None):
    pool = _pool(rng, w, k or rng.randint(1, 3))
    shots = [rng.choice(pool) for _ in range(N)]
    shots[0] = pool[0]
    return shots


def _modify_record(r, kind, m, op, w):
    """one modification of the record ``m`` (through its public attribute ``bitstrings`` / its methods) or of the
    operator ``op`` (public attributes ``terms`` / ``coefficient``); returns a short note of what was done"""
    from orquestra.quantum.operators import PauliTerm

    N = len(m.bitstrings)
    if kind == "reverse":
        m.bitstrings = [tuple(t[::-1]) for t in m.bitstrings]
    elif kind == "permute":
        perm = list(range(w))
        while w > 1 and perm == list(range(w)):
            r.shuffle(perm)
        m.bitstrings = [tuple(t[perm[q]] for q in range(w)) for t in m.bitstrings]
    elif kind == "complement":
        m.bitstrings = [tuple(1 - b for b in t) for t in m.bitstrings]
    elif kind == "other":
        m.bitstrings = _shots_from(r, w, N)
    elif kind == "item":
        for _ in range(r.choice([1, 1, 2, N])):
            m.bitstrings[r.randrange(N)] = _pool(r, w, 1)[0]
    elif kind == "slice":
        a = r.randrange(N)
        b = r.randint(a + 1, N)
        m.bitstrings[a:b] = [_pool(r, w, 1)[0]] * (b - a)
    elif kind == "multiplicity":
        seen = list(dict.fromkeys(map(tuple, m.bitstrings)))
        if len(seen) < 2 or N < 3:
            m.bitstrings = _shots_from(r, w, N, 2)
        else:
            major = r.choice(seen)
            m.bitstrings = list(seen) + [major] * (N - len(seen))
    elif kind == "clear-refill":
        new = _shots_from(r, w, N)
        lst = m.bitstrings
        lst.clear()
        lst.extend(new)
    elif kind == "each-in-place":
        lst = m.bitstrings
        for i in range(N):
            lst[i] = tuple(lst[i][::-1])
    elif kind == "extend":
        m.bitstrings += [_pool(r, w, 1)[0]] * r.randint(1, 5)
    elif kind == "add_counts":
        m.add_counts({"".join(map(str, b)): r.randint(1, 4) for b in _pool(r, w, r.randint(1, 2))})
    elif kind == "shrink":
        if N > 2:
            del m.bitstrings[-r.randint(1, N - 1):]
    elif kind == "widen":
        extra = r.randint(0, 1)
        m.bitstrings = [tuple(t) + (extra ^ (i % 2 if N > 1 else 0),) for i, t in enumerate(m.bitstrings)]
    elif kind == "shuffle":
        r.shuffle(m.bitstrings)
    elif kind == "none":
        pass
    elif kind == "op-coefficient":
        t = r.choice(list(op.terms))
        c = t.coefficient
        t.coefficient = r.choice([-c, c * (1 + 1e-6), c + 1.0, 2 * c, c * 1e-9, 0.25])
    elif kind == "op-terms":
        # same supports in the same order, other coefficients, new term objects
        op.terms = [PauliTerm({q: "Z" for q in t.qubits}, _r(r.uniform(-3, 3)) or 1.5)
                    if t.qubits else PauliTerm("I0", _r(r.uniform(-3, 3)) or 1.5) for t in op.terms]
    elif kind == "op-reorder":
        op.terms = list(reversed(list(op.terms)))
    else:
        raise ValueError(kind)


def _read_record(ctx, read, m, op, op2, step):
    """one read of the record, compared with the tuples it holds NOW"""
    shots = [tuple(int(b) for b in t) for t in m.bitstrings]
    N = len(shots)
    where = f"step {step}"
    if read == "counts":
        got = m.get_counts()
        exp = dict(Counter("".join(map(str, t)) for t in shots))
        ctx.check("record-history", dict(got) == exp, lambda: f"{where}: count strings {dict(got)} but the tuples give {exp}")
        return got
    if read == "dist":
        d = m.get_distribution().distribution_dict
        exp = {t: k / N for t, k in Counter(shots).items()}
        ok = set(map(tuple, d)) == set(exp) and all(abs(float(v) - exp[tuple(t)]) <= 1e-12 for t, v in d.items())
        ctx.check("record-history", ok, lambda: f"{where}: distribution {dict(d)} but the tuples give {exp}")
        return d
    o = op if read == "expect" else op2
    ev = m.get_expectation_values(o)
    terms = [(tuple(int(q) for q, _o in ops), c.real) for ops, c in P.terms_of(o)]
    exp = _shot_average(terms, shots)
    vals = np.asarray(ev.values, dtype=complex).flatten()
    ctx.check("record-history", len(vals) == len(exp) and all(abs(v - e) <= 1e-12 * abs(c) for v, e, (_q, c) in zip(vals, exp, terms)),
              lambda: f"{where}: measured {list(vals)} for terms {terms}; the average over the tuples gives {exp}")
    return ev.values


def _scribble(r, obj):
    """the caller modifies what a read returned (its own copy, as far as the caller can know)"""
    try:
        if isinstance(obj, dict):
            for k in list(obj)[: r.randint(1, 2)]:
                obj[k] = obj[k] * 3 + 1
            if r.random() < 0.3:
                obj.clear()
        elif isinstance(obj, np.ndarray) and obj.flags.writeable:
            obj[...] = 0
    except Exception:
        pass


def _record_shots_case(ctx):
    import random as _random

    from orquestra.quantum.measurements import Measurements
    from orquestra.quantum.runners import SymbolicSimulator

    rng = ctx.rng
    start = rng.choice(RECORD_STARTS)
    w = rng.choice([2, 3, 3, 4, 4, 5]) if start == "simulated" else rng.choice([2, 3, 3, 4, 5, 6, 9, 17, 33, 65])
    seed = rng.randrange(2**31)
    plan = [(rng.choice(RECORD_MODS), rng.randrange(2**31), rng.sample(RECORD_READS, rng.randint(1, 3)), rng.random() < 0.3)
            for _ in range(rng.randint(2, 5))]
    op_terms = z_terms(rng, w, k=2) if w <= 8 else wide_z_terms(rng, w)
    op2_terms = [(qs, _r(rng.uniform(-3, 3)) or 0.5) for qs, _c in op_terms]  # same supports, other coefficients
    spec = None
    if start == "simulated":
        spec = classical_spec(rng, w) if rng.random() < 0.5 else two_outcome_spec(rng, w)
        N = rng.choice([rng.randint(1, 2**w), 2**w + rng.randint(1, 20)])
        head = f"[{spec_str(spec)}] n_samples={N}"
        nontrivial = _nontrivial(_probs(run_spec(spec, w)), w)
    else:
        N = rng.randint(2, 24)
        first = _shots_from(rng, w, N)
        np_bits = rng.choice([None, None, None, np.int8, np.int64]) if start == "given" else None  # entries as numpy integers
        head = f"tuples={[''.join(map(str, t)) for t in first]}" + (f" entries={np_bits.__name__}" if np_bits else "")
        nontrivial = Counter(first) != Counter(t[::-1] for t in first)
    ctx.describe(f"record/{start} width={w} {head} seed={seed} op={op_terms} op2={op2_terms} "
                 f"plan={[(k, sd, rd, sc) for k, sd, rd, sc in plan]}", nontrivial)
    mon = ctx.mon
    sim = circuit = psi = None
    if start == "simulated":
        sim = SymbolicSimulator(seed=seed)
        circuit = build_circuit(spec, w)
        psi = run_spec(spec, w)
        m = sim.run_and_measure(circuit, N)
        bad = _judge_samples(m.bitstrings, _probs(psi), w, f"run_and_measure(.., {N})")
        ctx.check("support:" + ("few" if N <= 2**w else "many"), bad is None, lambda: bad[1])
    elif start == "given":
        m = Measurements([tuple(np_bits(b) for b in t) for t in first] if np_bits else list(first))
    elif start == "from_counts":
        counts = dict(Counter("".join(map(str, t)) for t in first))
        m = Measurements.from_counts(counts)
        # position q of a count string = qubit q of the tuples it stands for
        ctx.check("record-history", Counter(map(tuple, m.bitstrings)) == Counter(first),
                  lambda: f"from_counts({counts}) holds the tuples {Counter(map(tuple, m.bitstrings))}")
    else:
        m = Measurements()
        m.bitstrings = list(first)
    op = _operator_from(op_terms)
    op2 = _operator_from(op2_terms)
    for read in rng.sample(RECORD_READS, len(RECORD_READS)):  # everything is read once before anything changes
        _read_record(ctx, read, m, op, op2, 0)
    for step, (kind, sub, reads, scribble) in enumerate(plan, 1):
        r = _random.Random(sub)
        width_now = len(m.bitstrings[0]) if len(m.bitstrings) else w
        before = Counter(map(tuple, m.bitstrings))
        _modify_record(r, kind, m, op, width_now)
        mon.note("record:" + kind)
        if kind == "add_counts":  # the tuples added for a count string carry its characters in the same positions
            added = Counter(map(tuple, m.bitstrings)) - before
            ctx.check("record-history", all(_is_tuple_of_bits(t, width_now) for t in added) and sum(added.values()) > 0,
                      lambda: f"step {step}: add_counts added the tuples {dict(added)}")
        if sim is not None and kind.startswith("op-"):
            # the operator object the simulator saw before, now with other content
            terms = [(tuple(int(q) for q, _o in ops), c.real) for ops, c in P.terms_of(op)]
            e_ref = G.z_expectation(_probs(psi), terms, w)
            e_lib = sim.get_exact_expectation_values(circuit, op)
            ctx.check("record-history", abs(e_lib - e_ref) <= 1e-12 * sum(abs(c) for _, c in terms),
                      lambda: f"step {step}: exact <{op}> = {e_lib!r}, reference {e_ref!r}")
        for read in reads:
            out = _read_record(ctx, read, m, op, op2, step)
            if scribble:
                _scribble(r, out)
        if sim is not None and step == 1:
            sim.get_exact_expectation_values(circuit, op)


def _record_state_case(ctx):
    """ONE Wavefunction object whose amplitudes are replaced (``wf[:] = ...``) between the reads"""
    import random as _random

    from orquestra.quantum.distributions import create_bitstring_distribution_from_probability_distribution
    from orquestra.quantum.operators import get_expectation_value
    from orquestra.quantum.wavefunction import Wavefunction, sample_from_wavefunction

    rng = ctx.rng
    n = rng.choice([2, 3, 3, 4, 4, 5, 9])
    specs = []
    base = wide_circuit_spec(rng, n) if n > 8 else rng.choice([classical_spec, two_outcome_spec, product_spec, entangled_spec])(rng, n)
    specs.append(base)
    for _ in range(rng.randint(1, 2)):
        kind = rng.choice(["mirror", "relabel", "flip", "param", "drop", "append", "fresh"])
        new = sibling(rng, base, n, kind, n) if kind != "fresh" else None
        if new is None:
            new = (classical_spec(rng, n) if n <= 8 else wide_circuit_spec(rng, n), n)
        specs.append(new[0])
    if rng.random() < 0.5:
        specs.append(specs[0])
    terms0 = z_terms(rng, n, k=2) if n <= 8 else wide_z_terms(rng, n)
    few, many = _sample_regimes(ctx, n)
    plan = [(rng.randrange(2**31), rng.random() < 0.3) for _ in specs]
    psis = [run_spec(sp, n) for sp in specs]
    ctx.describe(f"record/state n={n} states={[spec_str(sp) for sp in specs]} op={terms0} few={few} many={many} plan={plan}",
                 any(_nontrivial(_probs(x), n) for x in psis))
    ctx.mon.note(f"width:{n}")
    op = _operator_from(terms0)
    wf = None
    for step, (psi, (sub, change_op)) in enumerate(zip(psis, plan)):
        r = _random.Random(sub)
        p = _probs(psi)
        if wf is None:
            wf = Wavefunction(psi.copy())
        else:
            wf[:] = psi.copy()
            ctx.mon.note("record:amplitudes-replaced")
        if change_op and step:
            t = r.choice(list(op.terms))
            t.coefficient = r.choice([-t.coefficient, t.coefficient + 1.0, 2 * t.coefficient])
            ctx.mon.note("record:op-coefficient")
        terms = [(tuple(int(q) for q, _o in ops), c.real) for ops, c in P.terms_of(op)]
        got_p = np.asarray(wf.get_probabilities(), dtype=float).flatten()
        ctx.check("record-history", len(got_p) == len(p) and np.allclose(got_p, p, atol=1e-12),
                  lambda: f"step {step}: probabilities of the wavefunction differ from |amplitudes|^2" + _reversal_hint(got_p, p, n))
        if n <= 8 or r.random() < 0.5:
            dd = create_bitstring_distribution_from_probability_distribution(wf.get_probabilities()).distribution_dict
            bad = _check_distribution_dict(dd, p, n)
            ctx.check("record-history", bad is None, lambda: f"step {step}: exact distribution: {bad}")
        e_ref = S.z_expectation(p, terms, n)
        e_lib = complex(get_expectation_value(op, wf))
        ctx.check("record-history", abs(e_lib - e_ref) <= 1e-9 * sum(abs(c) for _, c in terms),
                  lambda: f"step {step}: exact <{op}> = {e_lib!r}, reference {e_ref!r}")
        for regime, k in (("few", few), ("many", many)):
            if n > 8 and regime == "many" and step:
                continue
            shots = sample_from_wavefunction(wf, k, r.randrange(2**31))
            bad_d = _judge_samples(shots, p, n, f"step {step}: sample_from_wavefunction(.., {k}) [{regime}]")
            ctx.check("support:" + regime, bad_d is None and len(shots) == k, lambda: bad_d[1] if bad_d else f"{len(shots)} samples for {k}")


def _record_case(ctx):
    if ctx.rng.random() < 0.7:
        return _record_shots_case(ctx)
    return _record_state_case(ctx)


def run_case(ctx):
    rng = ctx.rng
    cls = ctx.cls
    if cls == "symbolic":
        return _symbolic_case(ctx)
    if cls == "history":
        return _history_case(ctx)
    if cls == "wide":
        return _wide_case(ctx)
    if cls == "scales":
        return _scales_case(ctx)
    if cls == "record":
        return _record_case(ctx)
    n = rand_width(ctx)
    if cls in ("classical", "entangled", "two_outcome") and ctx.index % 5 == 4:
        # the simulator is a user's: built on the provided classes, with get_wavefunction redefined to prepare an
        # asymmetric basis state (and, sometimes, an entangling step) first; every view still has to be a view of
        # the state that simulator reports
        pre = [("X", None, (q,)) for q, b in enumerate(asymmetric_bits(rng, n)) if b]
        if cls != "classical" and n >= 2 and rng.random() < 0.5:
            a, b = rng.sample(range(n), 2)
            pre.append(("CNOT", None, (a, b)))
        spec = classical_spec(rng, n) if cls == "classical" else (
            entangled_spec(rng, n) if cls == "entangled" else two_outcome_spec(rng, n))
        return _views(ctx, spec, n, pre_spec=pre,
                      classical=G.classical_run(pre + list(spec), n) if cls == "classical" else None)
    if cls == "classical":
        spec = classical_spec(rng, n)
        return _views(ctx, spec, n, classical=G.classical_run(spec, n))
    if cls == "product":
        return _views(ctx, product_spec(rng, n), n, stats=True)
    if cls == "entangled":
        return _views(ctx, entangled_spec(rng, n, rich=rng.random() < 0.4), n, stats=rng.random() < 0.5)
    if cls == "two_outcome":
        return _views(ctx, two_outcome_spec(rng, n), n, stats=rng.random() < 0.3)
    if cls == "operators":
        n = min(n, 6)
        return _views(ctx, entangled_spec(rng, n, rich=True), n, operators_general=True)
    raise ValueError(cls)
