"""C04 - every view of a simulated state agrees on which qubit is which."""
import math
from collections import Counter

import numpy as np

from ..gen import circuits as GC
from ..ref import gates as G
from ..ref import linalg as L
from ..ref import pauli as P

ID = "C04"
LEVEL = "exploration"
RULE = (
    "seeded circuits by class: classical (X/CNOT/SWAP on permuted qubits, outcome computed bit by bit), "
    "product (RY(theta_q) with well separated theta_q, optional X/RZ), entangled (RY + CNOT chains on "
    "permuted qubits, H/RX/RZ/CZ/SWAP/CPHASE), two-outcome superpositions on an asymmetric support, "
    "general Pauli operators; widths 1-6 quick / 1-8 thorough; for every circuit: amplitudes, exact "
    "distribution, exact and measured expectation of Z-type operators (all single qubits + random subsets), "
    "samples and count strings in BOTH sampling regimes (n_samples <= 2^n and > 2^n) against one reference "
    "simulation built from textbook matrices and bit arithmetic. Non-trivial = the reference probability "
    "vector is not invariant under bit reversal; distinct = distinct canonical circuit strings"
)
ASSUMPTIONS = [
    "reference: rv/ref/gates.py (textbook matrices) + rv/ref/linalg.py (embedding by bit arithmetic), qubit 0 = "
    "most significant bit; tuple (b_0..b_{n-1}) <-> basis index sum b_q 2^(n-1-q)",
    "tolerances: 1e-9 amplitudes/expectations, 1e-12 exact distribution per key; a sampled outcome must have "
    "reference probability > 1e-12",
    "statistical checks (marginals, measured expectations) use 7 standard deviations + 1/N with N >= 4000 and "
    "fixed seeds: deterministic per VERIF_SEED, false-alarm probability < 1e-8 per run",
    "Wavefunction.get_outcome_probs and bitstring_to_tuple are intermediate conventions: they are judged "
    "through their composition (sample_from_wavefunction), individually only for being bijective relabellings",
    "register width 0 (an empty circuit) is outside the workload",
]
DECIDING = [
    "get_wavefunction", "get_measurement_outcome_distribution", "run_and_measure",
    "sample_from_wavefunction:few", "sample_from_wavefunction:many", "Measurements.get_counts",
    "create_bitstring_distribution", "get_exact_expectation_values", "Measurements.get_expectation_values",
    "get_sparse_operator", "amplitudes", "exact-distribution", "exact-expectation",
    "exact-expectation-vs-own-distribution", "deterministic-samples", "marginals:few", "marginals:many",
    "measured-expectation:few", "measured-expectation:many", "count-strings", "support:few", "support:many",
]
BRANCHES = ["sample_from_wavefunction:many-samples", "sample_from_wavefunction:few-samples"]
BUDGET = {"quick": (4, 35, 120), "thorough": (16, 200, 100000)}
CASE_TIMEOUT = {"quick": 20, "thorough": 60}

P_MIN = 1e-12


def classes(tier):
    return ["classical", "product", "entangled", "two_outcome", "operators"]


# ----------------------------------------------------------------------------- reference from a circuit object
_REF_CACHE = {}


def _circuit_ref(circuit, initial_state=None):
    """Reference state of a library circuit: the gates' own matrices placed by the
    independent bit-arithmetic embedding.  None = outside the oracle's domain."""
    key = (id(circuit), None if initial_state is None else id(initial_state))
    hit = _REF_CACHE.get(key)
    if hit is not None and hit[0] is circuit:
        return hit[1]
    try:
        n = circuit.n_qubits
        if not 1 <= n <= 8 or circuit.free_symbols:
            return None
        if initial_state is None:
            state = np.zeros(2**n, dtype=complex)
            state[0] = 1.0
        else:
            state = np.asarray(initial_state, dtype=complex).flatten()
            if len(state) != 2**n:
                return None
        for op in circuit.operations:
            gate = getattr(op, "gate", None)
            qubits = getattr(op, "qubit_indices", None)
            if gate is None or qubits is None:
                return None
            state = L.apply(GC.to_np(gate.matrix), tuple(int(q) for q in qubits), n, state)
    except Exception:
        return None
    if len(_REF_CACHE) > 32:
        _REF_CACHE.clear()
    _REF_CACHE[key] = (circuit, state)
    return state


def _probs(state):
    return np.abs(np.asarray(state, dtype=complex)) ** 2


def _reversal_hint(got, ref, n):
    rev = L.bit_reversal_perm(n)
    if np.allclose(np.asarray(got), np.asarray(ref)[rev], atol=1e-9) and not np.allclose(np.asarray(ref), np.asarray(ref)[rev], atol=1e-9):
        return " (equals the reference with the qubit order reversed)"
    return ""


def _numeric_amplitudes(wf):
    try:
        a = np.asarray(wf.amplitudes)
        if a.dtype.kind not in "cfiu":
            a = np.asarray(a.tolist(), dtype=complex)
        return a.astype(complex).flatten()
    except Exception:
        return None


def _is_tuple_of_bits(t, n=None):
    try:
        return (n is None or len(t) == n) and all(int(b) in (0, 1) and int(b) == b for b in t)
    except Exception:
        return False


# ----------------------------------------------------------------------------- monitors
def _arg(call, pos, name, default=None):
    if len(call.args) > pos:
        return call.args[pos]
    return call.kwargs.get(name, default)


def _post_get_wavefunction(mon, call):
    name = "get_wavefunction"
    circuit = _arg(call, 1, "circuit")
    init = _arg(call, 2, "initial_state")
    ref = _circuit_ref(circuit, init)
    if ref is None or call.exc is not None:
        mon.out_of_domain(name)
        return
    got = _numeric_amplitudes(call.result)
    if got is None or len(got) != len(ref):
        mon.violation("amplitudes-disagree-with-reference", f"{len(ref)} reference amplitudes, got {None if got is None else len(got)}")
        return
    if not L.close(got, ref, 1e-9):
        i = int(np.argmax(np.abs(got - ref)))
        n = circuit.n_qubits
        mon.violation(
            "amplitudes-disagree-with-reference",
            f"{circuit!r}: amplitude of |{''.join(map(str, G.bits_of(i, n)))}> is {got[i]!r}, reference {ref[i]!r}"
            + _reversal_hint(got, ref, n),
        )
        return
    mon.ok(name)


def _check_distribution_dict(d, p, n):
    """returns None or a description of the first disagreement"""
    seen = set()
    for key, v in d.items():
        if not _is_tuple_of_bits(key, n):
            return f"key {key!r} is not a tuple of {n} bits"
        i = G.index_of(key)
        seen.add(i)
        if abs(float(v) - p[i]) > 1e-12:
            return f"outcome {tuple(key)} has probability {float(v)!r}, reference |psi[{i}]|^2 = {p[i]!r}"
    for i in range(len(p)):
        if i not in seen and p[i] > P_MIN:
            return f"outcome {G.bits_of(i, n)} (reference probability {p[i]!r}) is missing"
    return None


def _post_get_dist(mon, call):
    name = "get_measurement_outcome_distribution"
    circuit = _arg(call, 1, "circuit")
    n_samples = _arg(call, 2, "n_samples")
    if n_samples is not None or call.exc is not None:
        mon.out_of_domain(name)
        return
    ref = _circuit_ref(circuit)
    if ref is None:
        mon.out_of_domain(name)
        return
    n = circuit.n_qubits
    bad = _check_distribution_dict(call.result.distribution_dict, _probs(ref), n)
    if bad:
        mon.violation("exact-distribution-disagrees-with-reference", f"{circuit!r}: {bad}")
    else:
        mon.ok(name)


def _judge_samples(samples, p, n, what):
    """None or description; every distinct sampled tuple must be a possible outcome of width n"""
    for t, cnt in Counter(map(tuple, samples)).items():
        if len(t) != n:
            return "sample-wrong-length", f"{what}: sample {t} has {len(t)} entries on a {n}-qubit register"
        if not _is_tuple_of_bits(t):
            return "sample-not-bits", f"{what}: sample {t}"
        i = G.index_of(t)
        if not p[i] > P_MIN:
            return ("sample-of-zero-probability",
                    f"{what}: outcome {t} sampled {cnt}x but its reference probability |psi[{i}]|^2 is {p[i]!r}")
    return None


def _post_run_and_measure(mon, call):
    name = "run_and_measure"
    circuit = _arg(call, 1, "circuit")
    n_samples = _arg(call, 2, "n_samples")
    if call.exc is not None:
        mon.out_of_domain(name)
        return
    ref = _circuit_ref(circuit)
    if ref is None:
        mon.out_of_domain(name)
        return
    shots = call.result.bitstrings
    if len(shots) != n_samples:
        mon.violation("sample-count", f"{n_samples} samples requested, {len(shots)} delivered")
        return
    bad = _judge_samples(shots, _probs(ref), circuit.n_qubits, f"run_and_measure({circuit!r}, {n_samples})")
    if bad:
        mon.violation(*bad)
    else:
        mon.ok(name)


def _post_sample(mon, call):
    wf = _arg(call, 0, "wavefunction")
    n_samples = _arg(call, 1, "n_samples")
    if call.exc is not None:
        mon.out_of_domain("sample_from_wavefunction")
        return
    a = _numeric_amplitudes(wf)
    if a is None or len(a) < 2 or len(a) & (len(a) - 1):
        mon.out_of_domain("sample_from_wavefunction")
        return
    n = len(a).bit_length() - 1
    regime = "few" if n_samples <= len(a) else "many"
    res = call.result
    if len(res) != n_samples:
        mon.violation("sample-count", f"{n_samples} samples requested, {len(res)} delivered ({regime} regime)")
        return
    bad = _judge_samples(res, _probs(a), n, f"sample_from_wavefunction(n_samples={n_samples}; {regime}-samples regime, {n} qubits)")
    if bad:
        mon.violation(bad[0] + ":" + regime, bad[1])
        return
    mon.ok("sample_from_wavefunction:" + regime)


def _pre_amps(mon, call):
    return _numeric_amplitudes(call.args[0])


_OP_LAST = {}


def _post_outcome_probs(mon, call):
    name = "Wavefunction.get_outcome_probs"
    a = call.pre
    if a is None or call.exc is not None or len(a) < 2 or len(a) > 2**10:
        mon.out_of_domain(name)
        return
    n = len(a).bit_length() - 1
    d = call.result
    keys = list(d.keys())
    sig = (a.tobytes(), tuple(keys), tuple(float(np.asarray(v).flatten()[0]) for v in d.values()))
    if _OP_LAST.get("sig") == sig:  # same state, same answer as the call judged just before
        mon.ok(name)
        return
    _OP_LAST["sig"] = sig
    if len(set(keys)) != len(a) or not all(isinstance(k, str) and len(k) == n and set(k) <= {"0", "1"} for k in keys):
        mon.violation("outcome-probs-keys", f"keys are not the {len(a)} distinct {n}-bit strings: {keys[:6]}")
        return
    vals = sorted(float(np.asarray(v).flatten()[0]) for v in d.values())
    if not np.allclose(vals, sorted(_probs(a)), atol=1e-12):
        mon.violation("outcome-probs-values", "the probabilities are not a relabelling of |a|^2")
        return
    p = _probs(a)
    rev = L.bit_reversal_perm(n)
    if not np.allclose(p, p[rev], atol=1e-9):
        by_rev = all(abs(float(np.asarray(d[format(i, f"0{n}b")[::-1]]).flatten()[0]) - p[i]) < 1e-12 for i in range(len(a)))
        mon.note("outcome_probs:key=" + ("reversed-index-string" if by_rev else "other-convention"))
    mon.ok(name)


_B2T_SEEN = set()


def _post_b2t(mon, call):
    name = "bitstring_to_tuple"
    s = _arg(call, 0, "bitstring")
    if call.exc is not None or not isinstance(s, str) or not s or set(s) - {"0", "1"}:
        mon.out_of_domain(name)
        return
    if s in _B2T_SEEN:
        mon.ok(name)
        return
    t = call.result
    _B2T_SEEN.add(s)
    if len(t) != len(s) or sorted(t) != sorted(int(c) for c in s):
        mon.violation("bitstring-to-tuple-not-a-relabelling", f"{s!r} -> {t!r}")
        return
    if s != s[::-1]:
        mon.note("bitstring_to_tuple:" + ("reverses" if tuple(int(c) for c in s[::-1]) == tuple(t) else "keeps-order"))
    mon.ok(name)


def _post_get_counts(mon, call):
    name = "Measurements.get_counts"
    self = call.args[0]
    if call.exc is not None:
        mon.out_of_domain(name)
        return
    shots = getattr(self, "bitstrings", None)
    if not isinstance(shots, (list, tuple)) or not all(_is_tuple_of_bits(t) for t in shots[:2000]) or len(shots) > 200000:
        mon.out_of_domain(name)
        return
    exp = {}
    for t in shots:
        k = "".join(str(int(b)) for b in t)  # position q of the string = qubit q of the tuple
        exp[k] = exp.get(k, 0) + 1
    got = dict(call.result)
    if got != exp:
        diff = [(k, got.get(k), exp.get(k)) for k in sorted(set(got) | set(exp)) if got.get(k) != exp.get(k)][:4]
        mon.violation("count-strings-disagree-with-tuples", f"(string, counted, expected from tuples): {diff}")
    else:
        mon.ok(name)


def _post_create_dist(mon, call):
    name = "create_bitstring_distribution"
    probs = _arg(call, 0, "prob_distribution")
    if call.exc is not None:
        mon.out_of_domain(name)
        return
    try:
        p = np.asarray(probs, dtype=float).flatten()
    except Exception:
        mon.out_of_domain(name)
        return
    if len(p) < 2 or len(p) & (len(p) - 1) or len(p) > 2**10 or not np.all(np.isfinite(p)) or np.any(p < 0) or abs(p.sum() - 1) > 1e-9:
        mon.out_of_domain(name)
        return
    n = len(p).bit_length() - 1
    bad = _check_distribution_dict(call.result.distribution_dict, p, n)
    if bad:
        mon.violation("distribution-keys-disagree-with-basis-index", bad)
    else:
        mon.ok(name)


def _terms(op):
    return [(ops, c) for ops, c in P.terms_of(op)]


def _pauli_expectation(psi, terms, n):
    total = 0j
    for ops, c in terms:
        total += np.vdot(psi, P.string_matrix(ops, c, n) @ psi)
    return total


def _post_exact_expect(mon, call):
    name = "get_exact_expectation_values"
    circuit = _arg(call, 1, "circuit")
    op = _arg(call, 2, "operator")
    ref = _circuit_ref(circuit)
    if ref is None:
        mon.out_of_domain(name)
        return
    n = circuit.n_qubits
    try:
        terms = _terms(op)
    except Exception:
        mon.out_of_domain(name)
        return
    if any(q >= n or q < 0 for ops, _ in terms for q, _o in ops) or any(abs(c.imag) > 0 for _, c in terms) or len(terms) > 64:
        mon.out_of_domain(name)
        return
    if call.exc is not None:
        mon.violation("exact-expectation-raises", f"{op} on {circuit!r} raised {call.exc!r}")
        return
    exp = _pauli_expectation(ref, terms, n).real
    got = complex(call.result)
    if abs(got - exp) > 1e-9 * max(1.0, sum(abs(c) for _, c in terms)):
        mon.violation("exact-expectation-disagrees-with-reference",
                      f"<{op}> on {circuit!r} = {got!r}, reference {exp!r}")
    else:
        mon.ok(name)


def _shot_average(terms, shots):
    """per term: coefficient * mean over shots of prod_{q} (-1)^{b_q} (fold over distinct outcomes)"""
    cnt = Counter(map(tuple, shots))
    N = sum(cnt.values())
    out = []
    for qs, c in terms:
        s = 0
        for t, k in cnt.items():
            s += k * G.z_parity(qs, t)
        out.append(c * s / N)
    return out


def _post_meas_expect(mon, call):
    name = "Measurements.get_expectation_values"
    self = call.args[0]
    op = _arg(call, 1, "ising_operator")
    if call.exc is not None:
        mon.out_of_domain(name)
        return
    shots = getattr(self, "bitstrings", None)
    try:
        terms = _terms(op)
    except Exception:
        mon.out_of_domain(name)
        return
    if not shots or not all(_is_tuple_of_bits(t) for t in shots[:2000]) or any(o != "Z" for ops, _ in terms for _q, o in ops):
        mon.out_of_domain(name)
        return
    width = len(shots[0])
    if any(q >= width for ops, _ in terms for q, _o in ops):
        mon.out_of_domain(name)
        return
    zt = [([q for q, _o in ops], c) for ops, c in terms]
    exp = _shot_average(zt, shots)
    got = np.asarray(call.result.values).flatten()
    if len(got) != len(exp):
        mon.violation("measured-expectation-shape", f"{len(got)} values for {len(exp)} terms")
        return
    for i, (g, e) in enumerate(zip(got, exp)):
        if abs(complex(g) - e) > 1e-12 * max(1.0, abs(e)):
            mon.violation("measured-expectation-disagrees-with-shots",
                          f"term {i} ({zt[i][1]} * Z on qubits {zt[i][0]}): {complex(g)!r}, average over the {len(shots)} tuples gives {e!r}")
            return
    mon.ok(name)


def _post_sparse(mon, call):
    name = "get_sparse_operator"
    op = _arg(call, 0, "operator")
    nq = _arg(call, 1, "n_qubits")
    if call.exc is not None:
        mon.out_of_domain(name)
        return
    try:
        terms = _terms(op)
        n = nq if nq is not None else op.n_qubits
    except Exception:
        mon.out_of_domain(name)
        return
    if not isinstance(n, (int, np.integer)) or not 1 <= n <= 6 or len(terms) > 40 or not terms:
        mon.out_of_domain(name)
        return
    ref = sum(P.string_matrix(ops, c, n) for ops, c in terms)
    got = np.asarray(call.result.todense())
    if got.shape != ref.shape or not L.close(got, ref, 1e-12):
        mon.violation("sparse-operator-disagrees-with-reference", f"{op} on {n} qubits")
    else:
        mon.ok(name)


def install(mon, reach):
    from orquestra.quantum import utils as U
    from orquestra.quantum import wavefunction as W
    from orquestra.quantum.api import wavefunction_simulator as WS
    from orquestra.quantum.circuits import _unitary_tools as UT
    from orquestra.quantum.distributions import _measurement_outcome_distribution as MD
    from orquestra.quantum.measurements import measurements as MM
    from orquestra.quantum.measurements import parities as MP
    from orquestra.quantum.operators._openfermion_utils import sparse_tools as ST

    Sim = WS.BaseWavefunctionSimulator
    reach.watch(W.Wavefunction.get_outcome_probs, "Wavefunction.get_outcome_probs")
    reach.watch(W.sample_from_wavefunction, "sample_from_wavefunction", markers={
        "many-samples": r"outcome_tuples \+= \[0\]",
        "few-samples": r"string_samples = rng\.choice",
    })
    reach.watch(U.bitstring_to_tuple, "bitstring_to_tuple")
    reach.watch(U.tuple_to_bitstring, "tuple_to_bitstring")
    reach.watch(MD.create_bitstring_distribution_from_probability_distribution, "create_bitstring_distribution")
    reach.watch(ST.get_sparse_operator, "get_sparse_operator")
    reach.watch(MM.get_expectation_value_from_frequencies, "get_expectation_value_from_frequencies")
    reach.watch(MP.check_parity_of_vector, "check_parity_of_vector")
    reach.watch(UT._lift_matrix, "_lift_matrix")
    reach.watch(Sim.get_wavefunction, "get_wavefunction")
    reach.watch(Sim.get_exact_expectation_values, "get_exact_expectation_values")
    reach.watch(Sim.get_measurement_outcome_distribution, "get_measurement_outcome_distribution")
    reach.watch(Sim.run_and_measure, "run_and_measure")
    reach.watch(MM.Measurements.get_counts, "Measurements.get_counts")
    reach.watch(MM.Measurements.get_expectation_values, "Measurements.get_expectation_values")

    mon.hook_method(Sim, "get_wavefunction", post=_post_get_wavefunction, name="get_wavefunction")
    mon.hook_method(Sim, "get_measurement_outcome_distribution", post=_post_get_dist,
                    name="get_measurement_outcome_distribution")
    mon.hook_method(Sim, "run_and_measure", post=_post_run_and_measure, name="run_and_measure")
    mon.hook_method(Sim, "get_exact_expectation_values", post=_post_exact_expect, name="get_exact_expectation_values")
    mon.hook_func(W, "sample_from_wavefunction", post=_post_sample, name="sample_from_wavefunction")
    mon.hook_method(W.Wavefunction, "get_outcome_probs", post=_post_outcome_probs, pre=_pre_amps,
                    name="Wavefunction.get_outcome_probs")
    mon.hook_func(U, "bitstring_to_tuple", post=_post_b2t, name="bitstring_to_tuple")
    mon.hook_method(MM.Measurements, "get_counts", post=_post_get_counts, name="Measurements.get_counts")
    mon.hook_method(MM.Measurements, "get_expectation_values", post=_post_meas_expect,
                    name="Measurements.get_expectation_values")
    mon.hook_func(MD, "create_bitstring_distribution_from_probability_distribution", post=_post_create_dist,
                  name="create_bitstring_distribution")
    mon.hook_func(ST, "get_sparse_operator", post=_post_sparse, name="get_sparse_operator")


# ----------------------------------------------------------------------------- generators
def _r(x):
    return round(x, 6)


def rand_width(ctx):
    rng = ctx.rng
    if ctx.quick:
        return rng.choice([1, 2, 2, 3, 3, 3, 4, 4, 4, 5, 5, 6])
    return rng.choice([1, 2, 3, 3, 4, 4, 5, 5, 6, 6, 7, 8])


def asymmetric_bits(rng, n):
    """a bit pattern that differs from its mirror image (n >= 2)"""
    while True:
        b = tuple(rng.randint(0, 1) for _ in range(n))
        if n < 2 or b != b[::-1]:
            return b


def classical_spec(rng, n):
    target = asymmetric_bits(rng, n)
    spec = [("X", None, (q,)) for q in range(n) if target[q]]
    rng.shuffle(spec)
    for _ in range(rng.randint(0, 4) if n >= 2 else 0):
        a, b = rng.sample(range(n), 2)
        spec.append((rng.choice(["CNOT", "SWAP", "CNOT"]), None, (a, b)))
        if rng.random() < 0.3:
            spec.append(("X", None, (rng.randrange(n),)))
    out = G.classical_run(spec, n)
    if n >= 2 and out == out[::-1]:
        q = 0 if out[0] == out[-1] else None
        if q is not None:
            spec.append(("X", None, (0,)))
    return spec


def separated_probabilities(rng, n):
    """p_q(1) for every qubit: distinct, at least 1/(n+2) apart from each other"""
    grid = [(k + 1) / (n + 2) for k in range(n + 1)]
    ps = rng.sample(grid, n)
    return ps


def product_spec(rng, n):
    ps = separated_probabilities(rng, n)
    order = list(range(n))
    rng.shuffle(order)
    spec = []
    for q in order:
        theta = 2 * math.asin(math.sqrt(ps[q]))
        if rng.random() < 0.25:  # the same marginal through X then RY(pi - theta)
            spec.append(("X", None, (q,)))
            spec.append(("RY", _r(-(math.pi - theta)), (q,)))
        else:
            spec.append(("RY", _r(theta * rng.choice([1, -1])), (q,)))
        if rng.random() < 0.3:
            spec.append((rng.choice(["RZ", "PHASE"]), _r(rng.uniform(-3, 3)), (q,)))
    return spec


def entangled_spec(rng, n, rich=False):
    spec = []
    order = list(range(n))
    rng.shuffle(order)
    for q in order:
        spec.append(("RY", _r(rng.uniform(0.3, 2.8)), (q,)))
    if n >= 2:
        for _ in range(rng.randint(1, n)):
            a, b = rng.sample(range(n), 2)
            spec.append(("CNOT", None, (a, b)))
            if rng.random() < 0.4:
                spec.append(("RY", _r(rng.uniform(-2.5, 2.5)), (rng.randrange(n),)))
    if rich:
        for _ in range(rng.randint(1, 4)):
            g = rng.choice(["H", "RX", "RZ", "CZ", "SWAP", "CPHASE", "S", "T", "Y", "Z"])
            if g in ("CZ", "SWAP", "CPHASE"):
                if n < 2:
                    continue
                qs = tuple(rng.sample(range(n), 2))
            else:
                qs = (rng.randrange(n),)
            spec.append((g, _r(rng.uniform(-3, 3)) if g in ("RX", "RZ", "CPHASE") else None, qs))
    return spec


def two_outcome_spec(rng, n):
    """cos|s> + sin|s xor mask> with an asymmetric pattern s and a random flip mask"""
    s = asymmetric_bits(rng, n)
    spec = [("X", None, (q,)) for q in range(n) if s[q]]
    rng.shuffle(spec)
    k = rng.randint(1, n)
    sub = rng.sample(range(n), k)
    head = sub[0]
    theta = _r(rng.uniform(0.6, 2.5))
    spec.append(("RY", theta if not s[head] else -theta, (head,)))
    # after RY on the head qubit its value differs between the two branches; CNOTs copy the difference
    for q in sub[1:]:
        spec.append(("CNOT", None, (head, q)))
    return spec


def z_terms(rng, n, k=None):
    """Z-type operator: every single qubit with its own coefficient + random subsets + (sometimes) a constant"""
    terms = []
    coeffs = rng.sample([0.5, -0.75, 1.25, 2.0, -1.5, 0.3, -2.25, 1.0, 3.5, -0.4], min(10, n))
    for q in range(n):
        terms.append(((q,), coeffs[q % len(coeffs)] + 0.01 * q))
    for _ in range(rng.randint(1, 3) if k is None else k):
        size = rng.randint(1, n)
        qs = tuple(sorted(rng.sample(range(n), size)))
        if any(qs == t[0] for t in terms):
            continue  # one term per support: the library merges like terms
        terms.append((qs, _r(rng.uniform(-2, 2)) or 0.5))
    if rng.random() < 0.3:
        terms.append(((), _r(rng.uniform(-1, 1)) or 0.25))
    rng.shuffle(terms)
    return terms


def build_operator(terms):
    from orquestra.quantum.operators import PauliSum, PauliTerm

    out = PauliSum()
    for qs, c in terms:
        if isinstance(qs, dict):
            ops = dict(qs)
        else:
            ops = {q: "Z" for q in qs}
        out = out + (PauliTerm(ops, c) if ops else PauliTerm("I0", c))
    return out


def build_circuit(spec, n):
    from orquestra.quantum import circuits as C

    ops = []
    for name, param, qubits in spec:
        g = getattr(C, name)
        ops.append(g(*qubits) if param is None else g(param)(*qubits))
    return C.Circuit(ops, n_qubits=n)


def spec_str(spec):
    return " ".join(f"{nm}{'' if p is None else '(' + repr(p) + ')'}{list(q)}" for nm, p, q in spec)


def within(freq, p, N, scale=1.0):
    return abs(freq - p) <= scale * (7 * math.sqrt(max(p * (1 - p), 0.0) / N) + 1.0 / N)


# ----------------------------------------------------------------------------- cases
def _sample_regimes(ctx, n):
    """(few, many): a request not larger than 2^n and one larger"""
    rng = ctx.rng
    dim = 2**n
    few = rng.choice([1, dim, rng.randint(1, dim), max(1, dim - 1)])
    many = dim + rng.choice([1, 2, rng.randint(3, 60)])
    return few, many


def _views(ctx, spec, n, stats=False, classical=None, operators_general=False):
    from orquestra.quantum.operators import get_expectation_value
    from orquestra.quantum.runners import SymbolicSimulator
    from orquestra.quantum.wavefunction import sample_from_wavefunction

    rng = ctx.rng
    mon = ctx.mon
    psi = G.run(spec, n)
    p = _probs(psi)
    rev = L.bit_reversal_perm(n)
    nontrivial = not np.allclose(p, p[rev], atol=1e-6)
    terms = z_terms(rng, n)
    few, many = _sample_regimes(ctx, n)
    seed = rng.randrange(2**31)
    ctx.describe(f"{ctx.cls} n={n} [{spec_str(spec)}] op={terms} few={few} many={many} seed={seed}", nontrivial)
    mon.note(f"width:{n}")

    circuit = build_circuit(spec, n)
    sim = SymbolicSimulator(seed=seed)

    # 1 amplitudes
    wf = sim.get_wavefunction(circuit)
    got = _numeric_amplitudes(wf)
    ok = got is not None and len(got) == len(psi) and L.close(got, psi, 1e-9)
    ctx.check("amplitudes", ok, lambda: (
        f"amplitudes {np.round(got, 6).tolist() if got is not None and len(got) <= 16 else '...'} differ from the "
        f"reference {np.round(psi, 6).tolist() if len(psi) <= 16 else '...'}" + (_reversal_hint(got, psi, n) if got is not None and len(got) == len(psi) else "")))
    if not ok:
        return

    # 2 exact distribution
    dist = sim.get_measurement_outcome_distribution(circuit)
    dd = dist.distribution_dict
    bad = _check_distribution_dict(dd, p, n)
    ctx.check("exact-distribution", bad is None, lambda: f"exact distribution: {bad}")

    # 3 exact expectation of Z-type operators
    op = build_operator(terms)
    # the library's own term order (public view) decides which measured value belongs to which term
    terms = [(tuple(q for q, _o in ops), c.real) for ops, c in P.terms_of(op)]
    e_ref = G.z_expectation(p, terms, n)
    e_lib = sim.get_exact_expectation_values(circuit, op)
    scale = max(1.0, sum(abs(c) for _, c in terms))
    ctx.check("exact-expectation", abs(e_lib - e_ref) <= 1e-9 * scale,
              lambda: f"exact <{op}> = {e_lib!r}, reference sum_b p(b) eig(b) = {e_ref!r}")
    if bad is None:
        e_own = 0.0
        for key, v in dd.items():
            e_own += float(v) * sum(c * G.z_parity(qs, key) for qs, c in terms)
        ctx.check("exact-expectation-vs-own-distribution", abs(e_lib - e_own) <= 1e-9 * scale,
                  lambda: f"exact <{op}> = {e_lib!r} but the library's own exact distribution averages to {e_own!r}")
    for q in range(n):
        single = build_operator([((q,), 1.0)])
        e1 = complex(get_expectation_value(single, wf)).real
        r1 = G.z_expectation(p, [((q,), 1.0)], n)
        ctx.check("exact-expectation", abs(e1 - r1) <= 1e-9, lambda: f"exact <Z{q}> = {e1!r}, reference {r1!r}")
    if operators_general:
        gen_terms = []
        for _ in range(rng.randint(1, 3)):
            size = rng.randint(1, n)
            qs = sorted(rng.sample(range(n), size))
            gen_terms.append(({q: rng.choice("XYZ") for q in qs}, _r(rng.uniform(-2, 2)) or 1.0))
        gop = build_operator(gen_terms)
        e_gen = sim.get_exact_expectation_values(circuit, gop)
        r_gen = _pauli_expectation(psi, [(sorted(d.items()), complex(c)) for d, c in gen_terms], n).real
        ctx.check("exact-expectation-general", abs(e_gen - r_gen) <= 1e-9 * max(1.0, sum(abs(c) for _, c in gen_terms)),
                  lambda: f"exact <{gop}> = {e_gen!r}, reference {r_gen!r}")

    # 4 sampling, both regimes, through the simulator and directly
    for regime, k in (("few", few), ("many", many)):
        m = sim.run_and_measure(circuit, k)
        shots = [tuple(t) for t in m.bitstrings]
        bad_s = _judge_samples(shots, p, n, f"run_and_measure(.., {k}) [{regime}]")
        ctx.check("support:" + regime, bad_s is None and len(shots) == k, lambda: bad_s[1] if bad_s else f"{len(shots)} samples for {k}")
        counts = m.get_counts()
        exp_counts = Counter("".join(str(b) for b in t) for t in shots)
        ctx.check("count-strings", dict(counts) == dict(exp_counts),
                  lambda: f"count strings {dict(counts)} vs tuples {dict(exp_counts)}")
        if classical is not None:
            ctx.check("deterministic-samples", all(t == classical for t in shots),
                      lambda: f"[{regime}-samples regime] expected every sample to be {classical}, got {sorted(set(shots))[:4]}")
            ev = m.get_expectation_values(op)
            exp_vals = [c * G.z_parity(qs, classical) for qs, c in terms]
            ctx.check("measured-expectation:" + regime,
                      np.allclose(np.asarray(ev.values, dtype=complex), exp_vals, atol=1e-12),
                      lambda: f"[{regime}] measured {list(ev.values)} expected {exp_vals}")
        direct = sample_from_wavefunction(wf, k, rng.randrange(2**31))
        bad_d = _judge_samples(direct, p, n, f"sample_from_wavefunction(.., {k}) [{regime}]")
        ctx.check("support:" + regime, bad_d is None, lambda: bad_d[1])
        if classical is not None:
            ctx.check("deterministic-samples", all(tuple(t) == classical for t in direct),
                      lambda: f"[{regime}-samples regime, direct] expected {classical}, got {sorted(set(map(tuple, direct)))[:4]}")

    if classical is not None:
        ctx.check("exact-distribution", abs(p[G.index_of(classical)] - 1) < 1e-12 and
                  abs(float(dd.get(classical, 0.0)) - 1) < 1e-12,
                  lambda: f"outcome {classical} should be certain; library gives {dd.get(classical)}")

    # 5 statistics, both regimes
    if stats:
        N = 4000 if n <= 5 else 8000
        dim = 2**n
        pools = {}
        # many-samples regime: one large request (N > 2^n for every width used)
        m_many = SymbolicSimulator(seed=rng.randrange(2**31)).run_and_measure(circuit, N)
        pools["many"] = ([tuple(t) for t in m_many.bitstrings], m_many)
        # few-samples regime: repeated requests of at most 2^n samples, fresh seeds
        chunk = dim
        shots_few = []
        while len(shots_few) < N:
            shots_few.extend(map(tuple, sample_from_wavefunction(wf, chunk, rng.randrange(2**31))))
        from orquestra.quantum.measurements import Measurements

        pools["few"] = (shots_few, Measurements(list(shots_few)))
        marg = [sum(p[i] for i in range(dim) if G.bits_of(i, n)[q]) for q in range(n)]
        for regime, (shots, meas) in pools.items():
            Ns = len(shots)
            for q in range(n):
                f = sum(t[q] for t in shots) / Ns
                ctx.check("marginals:" + regime, within(f, marg[q], Ns),
                          lambda: f"[{regime}-samples regime] qubit {q}: frequency of 1 = {f:.4f} over {Ns} samples, exact {marg[q]:.4f} "
                                  f"(exact marginals {[round(x, 3) for x in marg]})")
            ev = meas.get_expectation_values(op)
            vals = np.asarray(ev.values, dtype=complex)
            for (qs, c), v in zip(terms, vals):
                e = G.z_expectation(p, [(qs, 1.0)], n)
                tol = abs(c) * (7 * math.sqrt(max(1 - e * e, 0.0) / Ns) + 1.0 / Ns)
                ctx.check("measured-expectation:" + regime, abs(v.real - c * e) <= tol and abs(v.imag) < 1e-12,
                          lambda: f"[{regime}] measured <{c}*Z{list(qs)}> = {v!r} over {Ns} samples, exact {c * e!r} (tolerance {tol:.4g})")


def run_case(ctx):
    rng = ctx.rng
    cls = ctx.cls
    n = rand_width(ctx)
    if cls == "classical":
        spec = classical_spec(rng, n)
        return _views(ctx, spec, n, classical=G.classical_run(spec, n))
    if cls == "product":
        return _views(ctx, product_spec(rng, n), n, stats=True)
    if cls == "entangled":
        return _views(ctx, entangled_spec(rng, n, rich=rng.random() < 0.4), n, stats=rng.random() < 0.5)
    if cls == "two_outcome":
        return _views(ctx, two_outcome_spec(rng, n), n, stats=rng.random() < 0.3)
    if cls == "operators":
        n = min(n, 6)
        return _views(ctx, entangled_spec(rng, n, rich=True), n, operators_general=True)
    raise ValueError(cls)
