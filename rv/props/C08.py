"""C08 - circuit-level constructions: inverse, controlled, gate layers, ancillas."""
import math

import numpy as np
import sympy

from ..gen import circuits as GC
from ..ref import linalg as L

ID = "C08"
LEVEL = "exploration"
RULE = (
    "seeded random circuits (built-in, custom, controlled/dagger/power/exp-wrapped gates on arbitrary ordered "
    "qubit tuples, idle qubits, the empty circuit) through Circuit.inverse (+ c + c.inverse() and double "
    "inverse), Circuit.controlled at every control position 0..n, create_layer_of_gates, apply_gate_to_qubits "
    "(list/tuple/set/range collections, unordered, with duplicates; 0-3 parameter gate factories; rows as "
    "lists and numpy rows) and add_ancilla_register (0-4 ancillas); a case is non-trivial when the circuit has "
    ">= 2 operations incl. a multi-qubit or wrapped gate (inverse/controlled/ancilla) or the builder gets >= 3 "
    "distinct qubits with distinct parameter rows; distinct = distinct canonical case strings"
)
ASSUMPTIONS = [
    "each gate's own matrix is taken as given; circuit unitaries come from rv.ref.linalg.embed",
    "c + c.inverse() = identity is demanded only when every gate matrix is numerically unitary (exp wrappers "
    "and arbitrary custom matrices are not); otherwise only the stated equivalent U(inverse) = U(c)^dagger",
    "controlled(k) is compared on the common register max(result width, n+1, k+1) after identity padding "
    "(the library legitimately drops idle trailing qubits)",
    "tolerance 1e-8 relative",
]
DECIDING = ["Circuit.inverse", "Circuit.controlled", "create_layer_of_gates", "apply_gate_to_qubits",
            "add_ancilla_register", "inverse-identity", "double-inverse"]
BUDGET = {"quick": (4, 25, 150), "thorough": (16, 200, 100000)}
CASE_TIMEOUT = {"quick": 15, "thorough": 40}
K1 = "K1-dagger-of-fractional-power"
TOL = 1e-8


def classes(tier):
    return ["inverse_unitary", "inverse_general", "inverse_k1", "controlled", "layer", "apply_gate", "ancilla"]


def _all_gate_ops(c):
    from orquestra.quantum.circuits import GateOperation

    return all(isinstance(op, GateOperation) for op in c.operations)


def _in_domain(c, wmax=8):
    try:
        n = c.n_qubits
        if not isinstance(n, (int, np.integer)) or n > wmax or not _all_gate_ops(c):
            return False
        for op in c.operations:
            qs = tuple(op.qubit_indices)
            if op.free_symbols or len(set(qs)) != len(qs) or len(qs) != op.gate.num_qubits:
                return False
            if GC.has_numpy_params(op.gate):
                return False
            if not all(isinstance(q, (int, np.integer)) and 0 <= q < n for q in qs):
                return False
    except Exception:
        return False
    return True


def _tol(ref):
    return TOL * max(1.0, float(np.abs(ref).max()) if ref.size else 1.0)


def _unitary_ops(c):
    return all(L.is_unitary(GC.gate_np(op.gate), 1e-8) for op in c.operations)


# ----------------------------------------------------------------------------- monitors
def _post_inverse(mon, call):
    from .C07 import _k1_applies

    name = "Circuit.inverse"
    c = call.args[0]
    if not _in_domain(c):
        mon.out_of_domain(name)
        return
    if call.exc is not None:
        mon.violation("inverse-raises", f"{c!r}.inverse(): {call.exc!r}")
        return
    r = call.result
    if r.n_qubits != c.n_qubits:
        mon.violation("inverse-width", f"{c!r}.inverse() has width {r.n_qubits}")
        return
    try:
        U = GC.ref_unitary(c)
    except Exception:
        mon.out_of_domain(name)
        return
    if not _in_domain(r):
        mon.violation("inverse-structure", f"{c!r}.inverse() = {r!r} is not a circuit of gate operations on valid qubits")
        return
    try:
        V = GC.ref_unitary(r)
    except Exception as e:
        from .C07 import _sympy_internal

        if _sympy_internal(e):
            mon.out_of_domain(name)
            return
        mon.violation("inverse-matrix-raises", f"{r!r}: {e!r}")
        return
    ref = L.adjoint(U)
    if L.maxdiff(V, ref) <= _tol(ref) * 10:
        mon.ok(name)
        return
    # operation-wise diagnosis: is every mismatching operation an instance of K1?
    ops, rops = list(c.operations), list(r.operations)
    known = None
    if len(ops) == len(rops):
        bad_all_k1 = True
        any_bad = False
        for op, rop in zip(reversed(ops), rops):
            Mo, Mr = GC.gate_np(op.gate), GC.gate_np(rop.gate)
            if tuple(op.qubit_indices) != tuple(rop.qubit_indices):
                bad_all_k1 = False
                break
            if L.maxdiff(Mr, L.adjoint(Mo)) > _tol(Mo) * 10:
                any_bad = True
                if not _k1_applies(op.gate, Mo, Mr):
                    bad_all_k1 = False
                    break
        if any_bad and bad_all_k1:
            known = K1
    mon.violation("inverse-matrix", f"{c!r}.inverse() = {r!r}: max|U(inv) - U^dagger| = {L.maxdiff(V, ref):.3e}", known=known)


def _post_controlled(mon, call):
    name = "Circuit.controlled"
    c = call.args[0]
    k = call.args[1] if len(call.args) > 1 else call.kwargs.get("control_index")
    if not _in_domain(c, 7) or not isinstance(k, (int, np.integer)) or k < 0:
        mon.out_of_domain(name)
        return
    n = c.n_qubits
    if call.exc is not None:
        mon.violation("controlled-raises", f"{c!r}.controlled({k}): {call.exc!r}")
        return
    r = call.result
    W = max(r.n_qubits, n + 1, k + 1)
    if W > 8:
        mon.out_of_domain(name)
        return
    if not _in_domain(r, 8):
        # the source circuit is well-formed, so a result with duplicated / missing qubit indices or
        # non-gate operations is a malformed controlled circuit
        mon.violation("controlled-structure", f"{c!r}.controlled({k}) = {r!r} is not a well-formed gate circuit")
        return
    if len(r.operations) != len(c.operations):
        mon.violation("controlled-structure", f"{c!r}.controlled({k}) has {len(r.operations)} operations")
        return
    U = GC.ref_unitary(c)
    mapped = tuple(i if i < k else i + 1 for i in range(n))
    # expected action on W qubits: identity when qubit k is 0, U on the mapped qubits when it is 1
    exp = L.embed(L.controlled(U, 1), (k,) + mapped, W) if n > 0 else np.eye(2**W, dtype=complex)
    got = GC.ref_unitary(r, n=W)
    if L.maxdiff(got, exp) > _tol(exp) * 10:
        mon.violation("controlled-action", f"{c!r}.controlled({k}) = {r!r}: max diff from (control=0: identity, control=1: "
                                           f"circuit on shifted qubits) {L.maxdiff(got, exp):.3e}")
    else:
        mon.ok(name)


def _gate_for(factory, row):
    return factory if row is None else factory(*row)


def _same_gate(g, h):
    try:
        if type(g) is not type(h) or g.name != h.name or g.num_qubits != h.num_qubits:
            return False
        pg, ph = tuple(g.params), tuple(h.params)
        return len(pg) == len(ph) and all(bool(a == b) for a, b in zip(pg, ph))
    except Exception:
        return False


def _snapshot_ops(c):
    return (c.n_qubits, list(c.operations))


def _pre_builder(mon, call):
    c = call.args[0] if call.args else call.kwargs.get("circuit")
    try:
        return _snapshot_ops(c)
    except Exception:
        return None


def _post_apply_gate(mon, call):
    name = "apply_gate_to_qubits"
    args = list(call.args) + [None] * (4 - len(call.args))
    c = call.kwargs.get("circuit", args[0])
    qubits = call.kwargs.get("qubit_indices", args[1])
    factory = call.kwargs.get("gate_factory", args[2])
    params = call.kwargs.get("parameters", args[3])
    if call.pre is None:
        mon.out_of_domain(name)
        return
    try:
        qlist = [int(q) for q in qubits]
    except Exception:
        mon.out_of_domain(name)
        return
    distinct = sorted(set(qlist))
    if any(q < 0 for q in distinct):
        mon.out_of_domain(name)
        return
    if params is not None:
        try:
            rows = [tuple(r) for r in params]
        except Exception:
            mon.out_of_domain(name)
            return
        if len(rows) != len(distinct):
            mon.out_of_domain(name)  # the function asserts this
            return
    else:
        rows = None
    if call.exc is not None:
        mon.violation("apply-gate-raises", f"apply_gate_to_qubits(.., {qubits!r}, .., {params!r}): {call.exc!r}")
        return
    old_n, old_ops = call.pre
    r = call.result
    new_ops = list(r.operations)
    after_n, after_ops = _snapshot_ops(c)
    if after_n != old_n or len(after_ops) != len(old_ops) or any(a is not b for a, b in zip(after_ops, old_ops)):
        mon.violation("apply-gate-mutates-input", f"input circuit changed: {old_ops} -> {after_ops}")
        return
    if len(new_ops) != len(old_ops) + len(distinct) or any(a is not b and a != b for a, b in zip(new_ops, old_ops)):
        mon.violation("apply-gate-count", f"{len(old_ops)} operations + {len(distinct)} distinct qubits {distinct} -> "
                                          f"{len(new_ops)} operations: {new_ops}")
        return
    added = new_ops[len(old_ops):]
    got_q = sorted(q for op in added for q in op.qubit_indices)
    if got_q != distinct or any(len(op.qubit_indices) != 1 for op in added):
        mon.violation("apply-gate-qubits", f"qubits {qubits!r}: new gates on {[op.qubit_indices for op in added]}")
        return
    exp_w = max([old_n] + [q + 1 for q in distinct])
    if r.n_qubits != exp_w:
        mon.violation("apply-gate-width", f"width {r.n_qubits}, expected {exp_w}")
        return
    if rows is None:
        if not all(_same_gate(op.gate, factory) for op in added):
            mon.violation("apply-gate-gates", f"new gates {added} are not {factory}")
            return
    else:
        # each parameter row used exactly once
        remaining = list(rows)
        for op in added:
            hit = None
            for j, row in enumerate(remaining):
                try:
                    if _same_gate(op.gate, factory(*row)):
                        hit = j
                        break
                except Exception:
                    pass
            if hit is None:
                mon.violation("apply-gate-rows", f"gate {op} does not use an unused parameter row of {rows}")
                return
            remaining.pop(hit)
    mon.ok(name)


def _post_layer(mon, call):
    name = "create_layer_of_gates"
    args = list(call.args) + [None] * (3 - len(call.args))
    n = call.kwargs.get("number_of_qubits", args[0])
    factory = call.kwargs.get("gate_factory", args[1])
    params = call.kwargs.get("parameters", args[2])
    if not isinstance(n, (int, np.integer)) or n < 0:
        mon.out_of_domain(name)
        return
    rows = None
    if params is not None:
        try:
            rows = [tuple(r) for r in params]
        except Exception:
            mon.out_of_domain(name)
            return
        if len(rows) != n:
            mon.out_of_domain(name)
            return
    if call.exc is not None:
        mon.violation("layer-raises", f"create_layer_of_gates({n}, .., {params!r}): {call.exc!r}")
        return
    r = call.result
    ops = list(r.operations)
    by_q = {}
    for op in ops:
        if len(op.qubit_indices) != 1:
            mon.violation("layer-qubits", f"layer operation {op} is not single-qubit")
            return
        by_q.setdefault(op.qubit_indices[0], []).append(op)
    if sorted(by_q) != list(range(n)) or any(len(v) != 1 for v in by_q.values()) or r.n_qubits != n:
        mon.violation("layer-qubits", f"layer over {n} qubits: operations on {sorted((q, len(v)) for q, v in by_q.items())}, width {r.n_qubits}")
        return
    for i in range(n):
        exp = _gate_for(factory, rows[i] if rows is not None else None)
        if not _same_gate(by_q[i][0].gate, exp):
            mon.violation("layer-rows", f"qubit {i} carries {by_q[i][0]} expected {exp} (row {i} of {rows})")
            return
    mon.ok(name)


def _post_ancilla(mon, call):
    name = "add_ancilla_register"
    args = list(call.args) + [None] * (2 - len(call.args))
    c = call.kwargs.get("circuit", args[0])
    k = call.kwargs.get("n_ancilla_qubits", args[1])
    if call.pre is None or not isinstance(k, (int, np.integer)) or k < 0:
        mon.out_of_domain(name)
        return
    old_n, old_ops = call.pre
    if call.exc is not None:
        mon.violation("ancilla-raises", f"add_ancilla_register({c!r}, {k}): {call.exc!r}")
        return
    r = call.result
    if r.n_qubits != old_n + k:
        mon.violation("ancilla-width", f"{old_n} qubits + {k} ancillas -> width {r.n_qubits}")
        return
    new_ops = list(r.operations)
    if len(new_ops) < len(old_ops) or any(a is not b and a != b for a, b in zip(new_ops, old_ops)):
        mon.violation("ancilla-operations", f"existing operations changed: {old_ops} -> {new_ops}")
        return
    if _snapshot_ops(c)[0] != old_n or len(c.operations) != len(old_ops):
        mon.violation("ancilla-mutates-input", f"input circuit changed to {c!r}")
        return
    if _in_domain(c, 7) and _in_domain(r, 8):
        U = GC.ref_unitary(c)
        V = GC.ref_unitary(r)
        exp = L.pad(U, old_n, old_n + k)
        if L.maxdiff(V, exp) > _tol(exp):
            mon.violation("ancilla-action", f"add_ancilla_register({c!r}, {k}) = {r!r} acts differently on the original qubits")
            return
    mon.ok(name)


def install(mon, reach):
    from orquestra.quantum.circuits import _circuit as C
    from orquestra.quantum.circuits import _generators as GEN

    reach.watch(C.Circuit.inverse, "Circuit.inverse")
    reach.watch(C.Circuit.controlled, "Circuit.controlled")
    reach.watch(GEN.create_layer_of_gates, "create_layer_of_gates")
    reach.watch(GEN.apply_gate_to_qubits, "apply_gate_to_qubits")
    reach.watch(GEN.add_ancilla_register, "add_ancilla_register")
    mon.hook_method(C.Circuit, "inverse", post=_post_inverse)
    mon.hook_method(C.Circuit, "controlled", post=_post_controlled)
    # the layer builder calls apply_gate_to_qubits: hook the inner one first so both are judged
    mon.hook_func(GEN, "apply_gate_to_qubits", post=_post_apply_gate, pre=_pre_builder, name="apply_gate_to_qubits")
    mon.hook_func(GEN, "create_layer_of_gates", post=_post_layer, name="create_layer_of_gates")
    mon.hook_func(GEN, "add_ancilla_register", post=_post_ancilla, pre=_pre_builder, name="add_ancilla_register")


# ----------------------------------------------------------------------------- cases
def _interesting(c):
    return len(c.operations) >= 2 and any(len(op.qubit_indices) >= 2 or hasattr(op.gate, "wrapped_gate")
                                          for op in c.operations)


def _factory(rng, tab):
    """(factory, n_params, name)"""
    from orquestra.quantum import circuits as C

    kind = rng.choice(["fixed", "p1", "p1", "custom2", "u3"])
    if kind == "fixed":
        name = rng.choice(["X", "Y", "Z", "H", "S", "T", "I", "SX"])
        return getattr(C, name), 0, name
    if kind == "p1":
        name = rng.choice(["RX", "RY", "RZ", "PHASE", "RH", "GPi", "GPi2", "Delay"])
        return getattr(C, name), 1, name
    if kind == "u3":
        return C.U3, 3, "U3"
    a, b = sympy.symbols("a b")
    d = C.CustomGateDefinition("Lay2", sympy.Matrix([[sympy.cos(a), -sympy.sin(a) * sympy.exp(sympy.I * b)],
                                                     [sympy.sin(a) * sympy.exp(-sympy.I * b), sympy.cos(a)]]), (a, b))
    return d, 2, "custom2"


def _rows(rng, nprng, k, npar, as_numpy):
    rows = [[round(rng.uniform(-3, 3), 4) for _ in range(npar)] for _ in range(k)]
    if as_numpy:
        return np.array(rows, dtype=float).reshape(k, npar)
    return rows


def run_case(ctx):
    from orquestra.quantum import circuits as C
    from orquestra.quantum.circuits import Circuit, add_ancilla_register, apply_gate_to_qubits, create_layer_of_gates

    rng, nprng = ctx.rng, ctx.nprng
    cls = ctx.cls
    wmax = 5 if ctx.quick else 7
    tab = GC.builtin_table()
    if cls in ("inverse_unitary", "inverse_general"):
        n = rng.choice([1, 2, 2, 3, 3, 4, wmax])
        unitary_only = cls == "inverse_unitary"
        c, desc, info = GC.rand_circuit(rng, nprng, n, rng.choice([0, 1, 2, 3, 5, 8]), unitary_only=unitary_only,
                                        allow_u3=rng.random() < 0.1, wrap=0.45)
        ctx.describe(f"{cls} {desc}", _interesting(c))
        inv = c.inverse()
        inv2 = inv.inverse()
        U = GC.ref_unitary(c)
        try:
            U2 = GC.ref_unitary(inv2)
        except Exception:
            return
        ctx.check("double-inverse", inv2.n_qubits == c.n_qubits and L.maxdiff(U2, U) <= _tol(U) * 100,
                  lambda: f"{c!r}.inverse().inverse() = {inv2!r} acts differently (max diff {L.maxdiff(U2, U):.3e})")
        if unitary_only and _unitary_ops(c):
            s = c + inv
            I = GC.ref_unitary(s)
            ok = s.n_qubits == c.n_qubits and L.maxdiff(I, np.eye(2**c.n_qubits)) <= 1e-7
            if ok and c.n_qubits <= 6:
                try:
                    lib = np.asarray(s.to_unitary(), dtype=complex)
                    ok = L.maxdiff(lib, np.eye(2**c.n_qubits)) <= 1e-7
                except Exception as e:
                    ok = False
            ctx.check("inverse-identity", ok, lambda: f"{c!r} + inverse is not the identity on {c.n_qubits} qubits")
        return
    if cls == "inverse_k1":
        n = rng.randint(1, 3)
        base = rng.choice([C.X, C.Y, C.Z, C.H, C.S, C.T, C.RX(math.pi), C.RY(0.7), C.SX] + ([C.CNOT, C.SWAP, C.CZ, C.ISWAP] if n >= 2 else []))
        q = rng.choice([2, 3, 4])
        g = base.power(1 / q)
        if rng.random() < 0.3 and g.num_qubits < n:
            g = g.controlled(1)
        c0, d0, _ = GC.rand_circuit(rng, nprng, n, rng.randint(0, 3), allow_u3=False, n_qubits_explicit=True)
        ops = list(c0.operations)
        ops.insert(rng.randint(0, len(ops)), g(*GC.rand_qubits(rng, g.num_qubits, n)))
        c = Circuit(ops, n_qubits=n)
        ctx.describe(f"inverse_k1 {c!r}", True)
        c.inverse()
        return
    if cls == "controlled":
        n = rng.choice([0, 1, 2, 2, 3, 3, 4, wmax - 1])
        if n == 0:
            c, desc = Circuit(), "n=0 []"
        else:
            c, desc, info = GC.rand_circuit(rng, nprng, n, rng.choice([0, 1, 2, 3, 5]), allow_u3=rng.random() < 0.1,
                                            wrap=0.3, max_gate_nq=2)
        k = rng.randint(0, c.n_qubits) if rng.random() < 0.9 else c.n_qubits + rng.randint(1, 2)
        ctx.describe(f"controlled k={k} {desc}", _interesting(c))
        c.controlled(k)
        return
    if cls == "layer":
        n = rng.choice([0, 1, 2, 3, 5, 8, 12, 17])
        factory, npar, fname = _factory(rng, tab)
        as_np = rng.random() < 0.4
        params = None if npar == 0 else _rows(rng, nprng, n, npar, as_np)
        ctx.describe(f"layer n={n} {fname} rows={'numpy' if as_np else 'list'} {None if params is None else np.asarray(params).tolist()}",
                     n >= 3 and npar >= 1)
        if npar == 0:
            create_layer_of_gates(n, factory)
        else:
            create_layer_of_gates(n, factory, params)
        return
    if cls == "apply_gate":
        n = rng.randint(1, 5)
        c, desc, info = GC.rand_circuit(rng, nprng, n, rng.randint(0, 4), allow_u3=False, wrap=0.2)
        factory, npar, fname = _factory(rng, tab)
        k = rng.randint(1, 6)
        pool = list(range(0, 14))
        qs = rng.sample(pool, k)
        dup = rng.random() < 0.3
        if dup:
            qs = qs + [rng.choice(qs) for _ in range(rng.randint(1, 2))]
            rng.shuffle(qs)
        form = rng.choice(["list", "tuple", "set", "range"]) if not dup else rng.choice(["list", "tuple"])
        if form == "tuple":
            coll = tuple(qs)
        elif form == "set":
            coll = set(qs)
        elif form == "range":
            a = rng.randint(0, 6)
            coll = range(a, a + k)
        else:
            coll = list(qs)
        distinct = len(set(coll))
        as_np = rng.random() < 0.4
        params = None if npar == 0 else _rows(rng, nprng, distinct, npar, as_np)
        ctx.describe(f"apply_gate {fname} to {form}{list(coll)} rows={None if params is None else np.asarray(params).tolist()} on {desc}",
                     distinct >= 3 and npar >= 1)
        import warnings

        with warnings.catch_warnings():
            warnings.simplefilter("ignore")
            if npar == 0:
                apply_gate_to_qubits(c, coll, factory)
            else:
                apply_gate_to_qubits(c, coll, factory, params)
        return
    if cls == "ancilla":
        n = rng.choice([0, 1, 2, 3, 4])
        if n == 0:
            c, desc = Circuit(), "n=0 []"
        else:
            c, desc, info = GC.rand_circuit(rng, nprng, n, rng.choice([0, 1, 3, 5]), allow_u3=False, wrap=0.3)
        k = rng.randint(0, 4)
        ctx.describe(f"ancilla +{k} {desc}", _interesting(c) and k >= 1)
        add_ancilla_register(c, k)
        return
    raise ValueError(cls)
