"""C08 - circuit-level constructions: inverse, controlled, gate layers, ancillas."""
import math

import numpy as np
import sympy

from ..gen import circuit_siblings as CS
from ..gen import circuits as GC
from ..ref import linalg as L

ID = "C08"
LEVEL = "exploration"
RULE = (
    "seeded random circuits (built-in, custom, controlled/dagger/power/exp-wrapped gates on arbitrary ordered "
    "qubit tuples, idle qubits, the empty circuit) through Circuit.inverse (+ c + c.inverse() and double "
    "inverse), Circuit.controlled at every control position 0..n, create_layer_of_gates, apply_gate_to_qubits "
    "(list/tuple/set/range collections, unordered, with duplicates; 0-3 parameter gate factories; rows as "
    "lists and numpy rows) and add_ancilla_register (0-4 ancillas); a case is non-trivial when the circuit has "
    ">= 2 operations incl. a multi-qubit or wrapped gate (inverse/controlled/ancilla) or the builder gets >= 3 "
    "distinct qubits with distinct parameter rows; distinct = distinct canonical case strings. "
    "siblings = circuits whose operations are combinations out of small per-circuit pools of innermost gates x "
    "parameter values (equal, near-equal, negated, shifted by a period, other number type, permuted) x wrapper "
    "shapes (controls, dagger, integer power, exp), incl. the same gate object on other / reordered qubits "
    "(rv.gen.circuit_siblings), so that DIFFERENT gates of one circuit coincide in name, parameter tuple, arity, "
    "wrapped gate or text - each through inverse, double inverse, controlled(k) and the ancilla builder; "
    "history = one circuit object (and equal copies, same-named custom gates with other matrices) through "
    "several controlled(k) / inverse / builder calls, with its public operations list edited in place between "
    "calls; the builders also get sibling parameter rows (shared prefixes, permutations, near-equal, repeated, "
    "sympy numbers and symbols), the empty collection, numpy arrays / dict views / frozensets of qubits, numpy "
    "integer counts and control indices, and several near-identical calls in one case; wide = registers of 8, 9, "
    "16, 17, 32, 33, 64, 65 qubits with a few gates at the extreme / threshold positions through controlled(k) "
    "(k at 0, n, next to the gates, at the thresholds), inverse and the ancilla builder; builder qubit indices "
    "and layer widths reach 65 as well"
)
ASSUMPTIONS = [
    "each gate's own matrix is taken as given; circuit unitaries come from rv.ref.linalg.embed",
    "c + c.inverse() = identity is demanded only when every gate matrix is numerically unitary (exp wrappers "
    "and arbitrary custom matrices are not); otherwise only the stated equivalent U(inverse) = U(c)^dagger",
    "two circuits are compared on the qubits that either of them touches (order-preserving relabelling, at most 8 "
    "qubits): on every other qubit both act as the identity, whatever the register width; for controlled(k) these "
    "are the control, the shifted qubits of the source and the qubits of the result (the library legitimately "
    "drops idle trailing qubits, so no width is demanded of the controlled circuit)",
    "tolerance 1e-8 relative",
]
DECIDING = ["Circuit.inverse", "Circuit.controlled", "create_layer_of_gates", "apply_gate_to_qubits",
            "add_ancilla_register", "inverse-identity", "double-inverse"]
BUDGET = {"quick": (4, 25, 200), "thorough": (16, 200, 100000)}
CASE_TIMEOUT = {"quick": 15, "thorough": 40}
K1 = "K1-dagger-of-fractional-power"
TOL = 1e-8


def classes(tier):
    return ["inverse_unitary", "inverse_general", "inverse_k1", "controlled", "layer", "apply_gate", "ancilla",
            "siblings", "history", "wide"]


def _all_gate_ops(c):
    from orquestra.quantum.circuits import GateOperation

    return all(isinstance(op, GateOperation) for op in c.operations)


MAXQ = 8  # reference matrices are built on at most this many qubits


def _in_domain(c, wmax=4096):
    try:
        n = c.n_qubits
        if not isinstance(n, (int, np.integer)) or n > wmax or not _all_gate_ops(c):
            return False
        for op in c.operations:
            qs = tuple(op.qubit_indices)
            if op.free_symbols or len(set(qs)) != len(qs) or len(qs) != op.gate.num_qubits:
                return False
            if GC.has_numpy_params(op.gate):
                return False
            if not all(isinstance(q, (int, np.integer)) and 0 <= q < n for q in qs):
                return False
    except Exception:
        return False
    return True


_MAT = {}


def _gate_np(gate):
    """the gate's own matrix (taken as given, see ASSUMPTIONS) as an ndarray; converted once per gate OBJECT and
    case - gates are immutable, the entry keeps the object alive so its id cannot be reused"""
    e = _MAT.get(id(gate))
    if e is not None and e[0] is gate:
        return e[1]
    M = GC.gate_np(gate)
    M.setflags(write=False)
    _MAT[id(gate)] = (gate, M)
    return M


def _used(*circuits):
    return {int(q) for c in circuits for op in c.operations for q in op.qubit_indices}


def _relabel(qubits):
    """order-preserving map of the qubits that matter onto 0..m-1: a circuit acts as the identity on every qubit
    none of its operations touches, so two circuits are compared on the qubits either of them touches - which
    keeps registers of any width (9, 17, 33, 65 ... qubits) within reach of dense reference matrices"""
    S = sorted(qubits)
    return {q: i for i, q in enumerate(S)}, len(S)


def _unitary_on(circuit, rel, m, shift=None):
    """as rv.gen.circuits.ref_unitary (product in program order of every gate's own matrix embedded by bit
    arithmetic) on the relabelled register; shift: optional map applied to the qubit indices first"""
    U = np.eye(2**m, dtype=complex)
    for op in circuit.operations:
        qs = tuple(rel[shift(int(q)) if shift else int(q)] for q in op.qubit_indices)
        U = L.embed(_gate_np(op.gate), qs, m) @ U
    return U


def _tol(ref):
    return TOL * max(1.0, float(np.abs(ref).max()) if ref.size else 1.0)


def _unitary_ops(c):
    return all(L.is_unitary(_gate_np(op.gate), 1e-8) for op in c.operations)


# ----------------------------------------------------------------------------- monitors
def _post_inverse(mon, call):
    from .C07 import _k1_applies

    name = "Circuit.inverse"
    c = call.args[0]
    if not _in_domain(c):
        mon.out_of_domain(name)
        return
    if call.exc is not None:
        mon.violation("inverse-raises", f"{c!r}.inverse(): {call.exc!r}")
        return
    r = call.result
    if r.n_qubits != c.n_qubits:
        mon.violation("inverse-width", f"{c!r}.inverse() has width {r.n_qubits}")
        return
    if not _in_domain(r):
        mon.violation("inverse-structure", f"{c!r}.inverse() = {r!r} is not a circuit of gate operations on valid qubits")
        return
    rel, m = _relabel(_used(c, r))
    if m > MAXQ:
        mon.out_of_domain(name)
        return
    try:
        U = _unitary_on(c, rel, m)
    except Exception:
        mon.out_of_domain(name)
        return
    try:
        V = _unitary_on(r, rel, m)
    except Exception as e:
        from .C07 import _sympy_internal

        if _sympy_internal(e):
            mon.out_of_domain(name)
            return
        mon.violation("inverse-matrix-raises", f"{r!r}: {e!r}")
        return
    ref = L.adjoint(U)
    if L.maxdiff(V, ref) <= _tol(ref) * 10:
        mon.ok(name)
        return
    # operation-wise diagnosis: is every mismatching operation an instance of K1?
    ops, rops = list(c.operations), list(r.operations)
    known = None
    if len(ops) == len(rops):
        bad_all_k1 = True
        any_bad = False
        for op, rop in zip(reversed(ops), rops):
            Mo, Mr = _gate_np(op.gate), _gate_np(rop.gate)
            if tuple(op.qubit_indices) != tuple(rop.qubit_indices):
                bad_all_k1 = False
                break
            if L.maxdiff(Mr, L.adjoint(Mo)) > _tol(Mo) * 10:
                any_bad = True
                if not _k1_applies(op.gate, Mo, Mr):
                    bad_all_k1 = False
                    break
        if any_bad and bad_all_k1:
            known = K1
    mon.violation("inverse-matrix", f"{c!r}.inverse() = {r!r}: max|U(inv) - U^dagger| = {L.maxdiff(V, ref):.3e}", known=known)


def _post_controlled(mon, call):
    name = "Circuit.controlled"
    c = call.args[0]
    k = call.args[1] if len(call.args) > 1 else call.kwargs.get("control_index")
    if not _in_domain(c) or not isinstance(k, (int, np.integer)) or isinstance(k, bool) or k < 0:
        mon.out_of_domain(name)
        return
    n = int(c.n_qubits)
    k = int(k)
    if call.exc is not None:
        mon.violation("controlled-raises", f"{c!r}.controlled({k}): {call.exc!r}")
        return
    r = call.result
    if not _in_domain(r):
        # the source circuit is well-formed, so a result with duplicated / missing qubit indices or
        # non-gate operations is a malformed controlled circuit
        mon.violation("controlled-structure", f"{c!r}.controlled({k}) = {r!r} is not a well-formed gate circuit")
        return
    if len(r.operations) != len(c.operations):
        mon.violation("controlled-structure", f"{c!r}.controlled({k}) has {len(r.operations)} operations")
        return

    def shift(q):
        return q if q < k else q + 1

    # compared on the control, the shifted qubits the source touches and whatever the result touches; on every
    # other qubit both sides are the identity (the library legitimately drops idle trailing qubits)
    rel, m = _relabel({k} | {shift(q) for q in _used(c)} | _used(r))
    if m > MAXQ:
        mon.out_of_domain(name)
        return
    U = _unitary_on(c, rel, m, shift)  # the original circuit on the shifted qubits; never touches qubit k
    bit = (np.arange(2**m) >> (m - 1 - rel[k])) & 1
    # expected action: identity where the control bit is 0, U where it is 1
    exp = np.diag((1 - bit).astype(complex)) + np.diag(bit.astype(complex)) @ U
    got = _unitary_on(r, rel, m)
    if L.maxdiff(got, exp) > _tol(exp) * 10:
        mon.violation("controlled-action", f"{c!r}.controlled({k}) = {r!r}: max diff from (control=0: identity, control=1: "
                                           f"circuit on shifted qubits) {L.maxdiff(got, exp):.3e}")
    else:
        mon.ok(name)
        if n > MAXQ - 1:
            mon.note("controlled:register-wider-than-%d" % (MAXQ - 1))


def _gate_for(factory, row):
    return factory if row is None else factory(*row)


def _same_gate(g, h):
    try:
        if type(g) is not type(h) or g.name != h.name or g.num_qubits != h.num_qubits:
            return False
        pg, ph = tuple(g.params), tuple(h.params)
        return len(pg) == len(ph) and all(bool(a == b) for a, b in zip(pg, ph))
    except Exception:
        return False


def _snapshot_ops(c):
    return (c.n_qubits, list(c.operations))


def _pre_builder(mon, call):
    c = call.args[0] if call.args else call.kwargs.get("circuit")
    try:
        return _snapshot_ops(c)
    except Exception:
        return None


def _post_apply_gate(mon, call):
    name = "apply_gate_to_qubits"
    args = list(call.args) + [None] * (4 - len(call.args))
    c = call.kwargs.get("circuit", args[0])
    qubits = call.kwargs.get("qubit_indices", args[1])
    factory = call.kwargs.get("gate_factory", args[2])
    params = call.kwargs.get("parameters", args[3])
    if call.pre is None:
        mon.out_of_domain(name)
        return
    try:
        qlist = [int(q) for q in qubits]
    except Exception:
        mon.out_of_domain(name)
        return
    distinct = sorted(set(qlist))
    if any(q < 0 for q in distinct):
        mon.out_of_domain(name)
        return
    if params is not None:
        try:
            rows = [tuple(r) for r in params]
        except Exception:
            mon.out_of_domain(name)
            return
        if len(rows) != len(distinct):
            mon.out_of_domain(name)  # the function asserts this
            return
    else:
        rows = None
    if call.exc is not None:
        mon.violation("apply-gate-raises", f"apply_gate_to_qubits(.., {qubits!r}, .., {params!r}): {call.exc!r}")
        return
    old_n, old_ops = call.pre
    r = call.result
    new_ops = list(r.operations)
    after_n, after_ops = _snapshot_ops(c)
    if after_n != old_n or len(after_ops) != len(old_ops) or any(a is not b for a, b in zip(after_ops, old_ops)):
        mon.violation("apply-gate-mutates-input", f"input circuit changed: {old_ops} -> {after_ops}")
        return
    if len(new_ops) != len(old_ops) + len(distinct) or any(a is not b and a != b for a, b in zip(new_ops, old_ops)):
        mon.violation("apply-gate-count", f"{len(old_ops)} operations + {len(distinct)} distinct qubits {distinct} -> "
                                          f"{len(new_ops)} operations: {new_ops}")
        return
    added = new_ops[len(old_ops):]
    got_q = sorted(q for op in added for q in op.qubit_indices)
    if got_q != distinct or any(len(op.qubit_indices) != 1 for op in added):
        mon.violation("apply-gate-qubits", f"qubits {qubits!r}: new gates on {[op.qubit_indices for op in added]}")
        return
    exp_w = max([old_n] + [q + 1 for q in distinct])
    if r.n_qubits != exp_w:
        mon.violation("apply-gate-width", f"width {r.n_qubits}, expected {exp_w}")
        return
    if rows is None:
        if not all(_same_gate(op.gate, factory) for op in added):
            mon.violation("apply-gate-gates", f"new gates {added} are not {factory}")
            return
    else:
        # each parameter row used exactly once
        remaining = list(rows)
        for op in added:
            hit = None
            for j, row in enumerate(remaining):
                try:
                    if _same_gate(op.gate, factory(*row)):
                        hit = j
                        break
                except Exception:
                    pass
            if hit is None:
                mon.violation("apply-gate-rows", f"gate {op} does not use an unused parameter row of {rows}")
                return
            remaining.pop(hit)
    mon.ok(name)


def _post_layer(mon, call):
    name = "create_layer_of_gates"
    args = list(call.args) + [None] * (3 - len(call.args))
    n = call.kwargs.get("number_of_qubits", args[0])
    factory = call.kwargs.get("gate_factory", args[1])
    params = call.kwargs.get("parameters", args[2])
    if not isinstance(n, (int, np.integer)) or n < 0:
        mon.out_of_domain(name)
        return
    rows = None
    if params is not None:
        try:
            rows = [tuple(r) for r in params]
        except Exception:
            mon.out_of_domain(name)
            return
        if len(rows) != n:
            mon.out_of_domain(name)
            return
    if call.exc is not None:
        mon.violation("layer-raises", f"create_layer_of_gates({n}, .., {params!r}): {call.exc!r}")
        return
    r = call.result
    ops = list(r.operations)
    by_q = {}
    for op in ops:
        if len(op.qubit_indices) != 1:
            mon.violation("layer-qubits", f"layer operation {op} is not single-qubit")
            return
        by_q.setdefault(op.qubit_indices[0], []).append(op)
    if sorted(by_q) != list(range(n)) or any(len(v) != 1 for v in by_q.values()) or r.n_qubits != n:
        mon.violation("layer-qubits", f"layer over {n} qubits: operations on {sorted((q, len(v)) for q, v in by_q.items())}, width {r.n_qubits}")
        return
    for i in range(n):
        exp = _gate_for(factory, rows[i] if rows is not None else None)
        if not _same_gate(by_q[i][0].gate, exp):
            mon.violation("layer-rows", f"qubit {i} carries {by_q[i][0]} expected {exp} (row {i} of {rows})")
            return
    mon.ok(name)


def _post_ancilla(mon, call):
    name = "add_ancilla_register"
    args = list(call.args) + [None] * (2 - len(call.args))
    c = call.kwargs.get("circuit", args[0])
    k = call.kwargs.get("n_ancilla_qubits", args[1])
    if call.pre is None or not isinstance(k, (int, np.integer)) or k < 0:
        mon.out_of_domain(name)
        return
    old_n, old_ops = call.pre
    if call.exc is not None:
        mon.violation("ancilla-raises", f"add_ancilla_register({c!r}, {k}): {call.exc!r}")
        return
    r = call.result
    if r.n_qubits != old_n + k:
        mon.violation("ancilla-width", f"{old_n} qubits + {k} ancillas -> width {r.n_qubits}")
        return
    new_ops = list(r.operations)
    if len(new_ops) < len(old_ops) or any(a is not b and a != b for a, b in zip(new_ops, old_ops)):
        mon.violation("ancilla-operations", f"existing operations changed: {old_ops} -> {new_ops}")
        return
    if _snapshot_ops(c)[0] != old_n or len(c.operations) != len(old_ops):
        mon.violation("ancilla-mutates-input", f"input circuit changed to {c!r}")
        return
    rel, m = _relabel(_used(c, r)) if _in_domain(c) and _in_domain(r) else (None, MAXQ + 1)
    if m <= MAXQ:
        exp = _unitary_on(c, rel, m)
        V = _unitary_on(r, rel, m)  # the ancillas are among the relabelled qubits as soon as a gate sits on them
        if L.maxdiff(V, exp) > _tol(exp):
            mon.violation("ancilla-action", f"add_ancilla_register({c!r}, {k}) = {r!r} acts differently on the original qubits")
            return
    mon.ok(name)


def install(mon, reach):
    from orquestra.quantum.circuits import _circuit as C
    from orquestra.quantum.circuits import _generators as GEN

    reach.watch(C.Circuit.inverse, "Circuit.inverse")
    reach.watch(C.Circuit.controlled, "Circuit.controlled")
    reach.watch(GEN.create_layer_of_gates, "create_layer_of_gates")
    reach.watch(GEN.apply_gate_to_qubits, "apply_gate_to_qubits")
    reach.watch(GEN.add_ancilla_register, "add_ancilla_register")
    mon.hook_method(C.Circuit, "inverse", post=_post_inverse)
    mon.hook_method(C.Circuit, "controlled", post=_post_controlled)
    # the layer builder calls apply_gate_to_qubits: hook the inner one first so both are judged
    mon.hook_func(GEN, "apply_gate_to_qubits", post=_post_apply_gate, pre=_pre_builder, name="apply_gate_to_qubits")
    mon.hook_func(GEN, "create_layer_of_gates", post=_post_layer, name="create_layer_of_gates")
    mon.hook_func(GEN, "add_ancilla_register", post=_post_ancilla, pre=_pre_builder, name="add_ancilla_register")


# ----------------------------------------------------------------------------- cases
def _interesting(c):
    return len(c.operations) >= 2 and any(len(op.qubit_indices) >= 2 or hasattr(op.gate, "wrapped_gate")
                                          for op in c.operations)


def _factory(rng, tab):
    """(factory, n_params, name)"""
    from orquestra.quantum import circuits as C

    kind = rng.choice(["fixed", "p1", "p1", "custom2", "u3"])
    if kind == "fixed":
        name = rng.choice(["X", "Y", "Z", "H", "S", "T", "I", "SX"])
        return getattr(C, name), 0, name
    if kind == "p1":
        name = rng.choice(["RX", "RY", "RZ", "PHASE", "RH", "GPi", "GPi2", "Delay"])
        return getattr(C, name), 1, name
    if kind == "u3":
        return C.U3, 3, "U3"
    a, b = sympy.symbols("a b")
    d = C.CustomGateDefinition("Lay2", sympy.Matrix([[sympy.cos(a), -sympy.sin(a) * sympy.exp(sympy.I * b)],
                                                     [sympy.sin(a) * sympy.exp(-sympy.I * b), sympy.cos(a)]]), (a, b))
    return d, 2, "custom2"


def _rows(rng, nprng, k, npar, as_numpy):
    rows = [[round(rng.uniform(-3, 3), 4) for _ in range(npar)] for _ in range(k)]
    if as_numpy:
        return np.array(rows, dtype=float).reshape(k, npar)
    return rows


def _exp_never_returns(gate):
    """environment: sympy 1.9 does not finish Matrix.exp() of PHASE(<float>) (and of its dagger); such a case can
    only time out, so it is drawn again"""
    g, under_exp = gate, False
    while hasattr(g, "wrapped_gate"):
        under_exp = under_exp or type(g).__name__ == "Exponential"
        g = g.wrapped_gate
    return under_exp and str(getattr(g, "name", "")) == "PHASE"


def _rows_text(params):
    if params is None:
        return "None"
    try:
        return str(np.asarray(params).tolist())
    except Exception:
        return str([list(r) for r in params])


def _builder_args(rng, nprng, k, factory, npar, fname):
    """(k, factory, name, parameters, kind of rows) for a builder request over k (distinct) qubits"""
    if npar == 0:
        return (k, factory, fname, None, "none")
    r = rng.random()
    if r < 0.15:
        # nearly uniform rows: one base row at magnitude 0 .. 1e5 and offsets far below it (down to the last bits)
        # but different as numbers - "the same angle everywhere" judged with a tolerance loses them
        base = [rng.choice([0.0, round(rng.uniform(-3, 3), 4), round(rng.uniform(-3, 3), 4), 1000.0, -2.5e5])
                for _ in range(npar)]
        rel = 10.0 ** -rng.randint(6, 12)
        rows = [[b + (i * rng.choice([1, 1, -1, 3])) * rel * (abs(b) if b else 1e-3) for b in base] for i in range(k)]
        if rng.random() < 0.5:
            rng.shuffle(rows)
        kind = "near-uniform"
        if rng.random() < 0.5:
            rows, kind = np.array(rows, dtype=float).reshape(k, npar), "near-uniform-numpy"
    elif r < 0.4:
        rows, kind = _rows(rng, nprng, k, npar, True), "numpy"
    elif r < 0.65:
        rows, kind = _rows(rng, nprng, k, npar, False), "list"
    else:
        symbolic = rng.random() < 0.4
        rows = CS.sibling_rows(rng, k, npar, symbolic=symbolic)
        kind = "sibling-symbolic" if symbolic else "sibling"
        if not symbolic and rng.random() < 0.3:
            rows, kind = np.array(rows, dtype=float).reshape(k, npar), "sibling-numpy"
        elif rng.random() < 0.3:
            rows, kind = tuple(tuple(row) for row in rows), kind + "-tuples"
    return (k, factory, fname, rows, kind)


def _sibling_call(rng, nprng, tab, call, npar):
    """a layer request that a coarse memo key (width, factory name, number of rows, first row ...) confuses with
    ``call``"""
    n, factory, fname, rows, kind = call
    r = rng.random()
    if r < 0.25 or (n == 0 and npar):
        return _builder_args(rng, nprng, max(0, n + rng.choice([-1, 1])) if n else 1, factory, npar, fname)
    if npar == 0 or r < 0.5:
        # another factory with the same number of parameters, the very same rows
        for _ in range(8):
            f2, np2, fn2 = _factory(rng, tab)
            if np2 == npar and fn2 != fname:
                return (n, f2, fn2, rows, kind)
        return (n, factory, fname, rows, kind)
    # same factory and width, rows reordered / changed in ONE entry
    old = [list(row) for row in (rows.tolist() if isinstance(rows, np.ndarray) else rows)]
    new = [list(row) for row in old]
    if rng.random() < 0.5 and len(new) >= 2:
        new.reverse()
    if new == old:
        i, jx = rng.randrange(len(new)), rng.randrange(npar)
        new[i][jx] = round(rng.uniform(-3, 3), 4) if rng.random() < 0.5 or not isinstance(new[i][jx], float) \
            else new[i][jx] + 1e-4
    return (n, factory, fname, new, "sibling")


def _qubit_collection(rng):
    """(collection, form): list / tuple / set / frozenset / range / numpy array / dict / dict view, unordered, with
    duplicates where the container can hold them, now and then empty"""
    k = rng.randint(1, 6) if rng.random() < 0.93 else 0
    pool = list(range(0, 14)) if rng.random() < 0.85 else [0, 1, 7, 8, 9, 15, 16, 17, 31, 32, 33, 63, 64, 65]
    qs = rng.sample(pool, k)
    dup = k > 0 and rng.random() < 0.3
    if dup:
        qs = qs + [rng.choice(qs) for _ in range(rng.randint(1, 2))]
        rng.shuffle(qs)
        form = rng.choice(["list", "list", "tuple", "nparray"])
    else:
        form = rng.choice(["list", "tuple", "set", "range", "nparray", "frozenset", "dictkeys", "dict"])
    if form == "tuple":
        return tuple(qs), form
    if form == "set":
        return set(qs), form
    if form == "frozenset":
        return frozenset(qs), form
    if form == "range":
        a = rng.randint(0, 6)
        return range(a, a + k), form
    if form == "nparray":
        return np.array(qs, dtype=rng.choice([np.int64, np.int32, np.uint8])), form
    if form == "dictkeys":
        return dict.fromkeys(qs, "x").keys(), form
    if form == "dict":
        return dict.fromkeys(qs, "x"), form
    return list(qs), form


def _key_collision(ops):
    """do two different gates of the circuit share (name, parameter tuple)? (tally only)"""
    seen = {}
    for op in ops:
        try:
            key = (op.gate.name, tuple(op.gate.params))
            if key in seen and seen[key] != repr(op.gate):
                return True
            seen.setdefault(key, repr(op.gate))
        except Exception:
            pass
    return False


def _step_text(st):
    if st[0] == "apply":
        return f"apply {st[3]} to {st[1]} rows={st[4]}"
    if st[0] == "other":
        return "same operations, other definition of the custom gate: [" + ", ".join(map(str, st[1])) + "]"
    return " ".join(str(x) for x in st)


def _inverse_checks(ctx, c, unitary_only):
    """c.inverse() (judged by the hook), the double inverse and, for unitary circuits, c + c.inverse() = identity"""
    inv = c.inverse()
    inv2 = inv.inverse()
    if not (_in_domain(inv) and _in_domain(inv2)):
        return  # the hook has reported the malformed result
    rel, m = _relabel(_used(c, inv, inv2))
    if m > MAXQ:
        return
    U = _unitary_on(c, rel, m)
    try:
        U2 = _unitary_on(inv2, rel, m)
    except Exception:
        return
    ctx.check("double-inverse", inv2.n_qubits == c.n_qubits and L.maxdiff(U2, U) <= _tol(U) * 100,
              lambda: f"{c!r}.inverse().inverse() = {inv2!r} acts differently (max diff {L.maxdiff(U2, U):.3e})")
    if unitary_only and _unitary_ops(c):
        s = c + inv
        ok = s.n_qubits == c.n_qubits and _in_domain(s) and _used(s) <= set(rel)
        ok = ok and L.maxdiff(_unitary_on(s, rel, m), np.eye(2**m)) <= 1e-7
        if ok and c.n_qubits <= 6:
            try:
                lib = np.asarray(s.to_unitary(), dtype=complex)
                ok = L.maxdiff(lib, np.eye(2**c.n_qubits)) <= 1e-7
            except Exception as e:
                ok = False
        ctx.check("inverse-identity", ok, lambda: f"{c!r} + inverse is not the identity on {c.n_qubits} qubits")


def run_case(ctx):
    from orquestra.quantum import circuits as C
    from orquestra.quantum.circuits import Circuit, add_ancilla_register, apply_gate_to_qubits, create_layer_of_gates

    rng, nprng = ctx.rng, ctx.nprng
    cls = ctx.cls
    _MAT.clear()
    wmax = 5 if ctx.quick else 7
    tab = GC.builtin_table()
    if cls in ("inverse_unitary", "inverse_general"):
        n = rng.choice([1, 2, 2, 3, 3, 4, wmax])
        unitary_only = cls == "inverse_unitary"
        for _ in range(20):
            c, desc, info = GC.rand_circuit(rng, nprng, n, rng.choice([0, 1, 2, 3, 5, 8]), unitary_only=unitary_only,
                                            allow_u3=rng.random() < 0.1, wrap=0.45)
            if not any(_exp_never_returns(op.gate) for op in c.operations):
                break
        if ctx.index % 3 == 1:
            # a plain gate that MISSES being its own adjoint by 1e-7 .. 1e-5: a built-in rotation / phase gate at an
            # angle next to one at which it is self-adjoint (0, +-2 pi; pi for the phase gates), or a custom gate
            # with a nearly hermitian numeric matrix.  An "is it self-adjoint?" test with numpy's default tolerances
            # says yes, the adjoint says otherwise by a thousand times the tolerance granted here
            ops = list(c.operations)
            if rng.random() < 0.75:
                pn = sorted(nm for nm, e in tab.items() if e["kind"] == "param" and e["nparams"] == 1 and e["nq"] <= n)
                nm = rng.choice(pn)
                base = rng.choice([0.0, 0.0, 2 * math.pi, -2 * math.pi] + ([math.pi, -math.pi] if nm in ("PHASE", "CPHASE") else []))
                a = base + rng.choice([-1, 1]) * rng.uniform(1, 9) * 10.0 ** rng.choice([-6, -6, -7])
                g, gd = tab[nm]["ref"](a), f"{nm}({a!r})"
            else:
                from ..gen import custom_near as CN

                g, gd, _info = CN.near_structured_gate(rng, nprng, 1, f"NearH{ctx.index}", "hermitian")
            ops.insert(rng.randint(0, len(ops)), g(*GC.rand_qubits(rng, g.num_qubits, n)))
            c = Circuit(ops, n_qubits=c.n_qubits)
            desc += f" + nearly self-adjoint {gd}"
            ctx.mon.note("inverse:nearly-self-adjoint-plain-gate")
        ctx.describe(f"{cls} {desc}", _interesting(c))
        _inverse_checks(ctx, c, unitary_only)
        return
    if cls == "inverse_k1":
        n = rng.randint(1, 3)
        base = rng.choice([C.X, C.Y, C.Z, C.H, C.S, C.T, C.RX(math.pi), C.RY(0.7), C.SX] + ([C.CNOT, C.SWAP, C.CZ, C.ISWAP] if n >= 2 else []))
        q = rng.choice([2, 3, 4])
        g = base.power(1 / q)
        if rng.random() < 0.3 and g.num_qubits < n:
            g = g.controlled(1)
        c0, d0, _ = GC.rand_circuit(rng, nprng, n, rng.randint(0, 3), allow_u3=False, n_qubits_explicit=True)
        ops = list(c0.operations)
        ops.insert(rng.randint(0, len(ops)), g(*GC.rand_qubits(rng, g.num_qubits, n)))
        c = Circuit(ops, n_qubits=n)
        ctx.describe(f"inverse_k1 {c!r}", True)
        c.inverse()
        return
    if cls == "controlled":
        n = rng.choice([0, 1, 2, 2, 3, 3, 4, wmax - 1])
        if n == 0:
            c, desc = Circuit(), "n=0 []"
        else:
            c, desc, info = GC.rand_circuit(rng, nprng, n, rng.choice([0, 1, 2, 3, 5]), allow_u3=rng.random() < 0.1,
                                            wrap=0.3, max_gate_nq=2)
        k = rng.randint(0, c.n_qubits) if rng.random() < 0.9 else c.n_qubits + rng.randint(1, 2)
        np_k = rng.random() < 0.1
        ctx.describe(f"controlled k={'np.int64 ' if np_k else ''}{k} {desc}", _interesting(c))
        c.controlled(np.int64(k) if np_k else k)
        return
    if cls == "layer":
        big = ctx.index % 6 == 5
        n = rng.choice([0, 1, 2, 3, 5, 8, 12, 17]) if not big else rng.choice([33, 64, 65, 66, 97, 129, 130])
        factory, npar, fname = _factory(rng, tab)
        if big:
            # wide layers (beyond any batch of 32 / 64 operations) always with parameter rows: row i belongs on qubit i
            # at every width
            for _ in range(12):
                if npar >= 1:
                    break
                factory, npar, fname = _factory(rng, tab)
            ctx.mon.note("layer:wide")
        calls = [_builder_args(rng, nprng, n, factory, npar, fname)]
        if rng.random() < 0.3:
            # near-identical requests in one process: same width and factory with other rows, another factory with
            # the same rows, a neighbouring width
            for _ in range(rng.randint(1, 2)):
                calls.append(_sibling_call(rng, nprng, tab, calls[-1], npar))
        np_n = rng.random() < 0.1
        ctx.describe("layer " + " | ".join(f"n={'np.int64 ' if np_n else ''}{m} {fn} rows={kind} {_rows_text(pr)}"
                                           for m, f, fn, pr, kind in calls),
                     calls[0][0] >= 3 and npar >= 1)
        for m, f, fn, pr, kind in calls:
            m = np.int64(m) if np_n else m
            if pr is None:
                create_layer_of_gates(m, f)
            else:
                create_layer_of_gates(m, f, pr)
        return
    if cls == "apply_gate":
        n = rng.randint(1, 5)
        c, desc, info = GC.rand_circuit(rng, nprng, n, rng.randint(0, 4), allow_u3=False, wrap=0.2)
        plan = []
        for _ in range(1 if rng.random() < 0.7 else rng.randint(2, 3)):
            factory, npar, fname = _factory(rng, tab)
            coll, form = _qubit_collection(rng)
            distinct = len(set(int(q) for q in coll))
            m, f, fn, pr, kind = _builder_args(rng, nprng, distinct, factory, npar, fname)
            plan.append((coll, form, f, fn, pr, kind, distinct, npar))
        ctx.describe("apply_gate " + " | ".join(f"{fn} to {form}{[int(q) for q in coll]} rows={kind} {_rows_text(pr)}"
                                                for coll, form, f, fn, pr, kind, d, npar in plan) + f" on {desc}",
                     plan[0][6] >= 3 and plan[0][7] >= 1)
        import warnings

        with warnings.catch_warnings():
            warnings.simplefilter("ignore")
            # every further request is applied to the circuit the previous one returned
            for coll, form, f, fn, pr, kind, d, npar in plan:
                c = apply_gate_to_qubits(c, coll, f) if pr is None else apply_gate_to_qubits(c, coll, f, pr)
        return
    if cls == "ancilla":
        n = rng.choice([0, 1, 2, 3, 4])
        if n == 0:
            c, desc = Circuit(), "n=0 []"
        else:
            c, desc, info = GC.rand_circuit(rng, nprng, n, rng.choice([0, 1, 3, 5]), allow_u3=False, wrap=0.3)
        k = rng.randint(0, 4)
        np_k = rng.random() < 0.1
        ctx.describe(f"ancilla +{'np.int64 ' if np_k else ''}{k} {desc}", _interesting(c) and k >= 1)
        add_ancilla_register(c, np.int64(k) if np_k else k)
        return
    if cls == "siblings":
        # one circuit whose DIFFERENT gates coincide in name / parameter tuple / arity / wrapped gate / text
        # (rv.gen.circuit_siblings) through every construction that derives something per gate
        n = rng.choice([2, 3, 3, 4])
        unitary_only = rng.random() < 0.85
        ops, pools = CS.sibling_ops(rng, nprng, n, rng.randint(2, 6) if unitary_only else rng.randint(2, 3),
                                    unitary_only=unitary_only)
        c = Circuit(ops, n_qubits=n) if rng.random() < 0.6 else Circuit(ops)
        k = rng.randint(0, c.n_qubits)
        j = rng.randint(1, 3) if rng.random() < 0.3 else None
        ctx.describe(f"siblings k={k} ancillas={j} {c!r}", len(ops) >= 2 and len({repr(op.gate) for op in ops}) >= 2)
        ctx.mon.note("siblings:name+params-collision" if _key_collision(ops) else "siblings:no-collision")
        c.controlled(k)
        _inverse_checks(ctx, c, unitary_only)
        if j is not None:
            add_ancilla_register(c, j)
        return
    if cls == "history":
        # ONE circuit object (and equal copies / a same-named custom gate with another matrix) through several
        # calls; between calls its public operations list is edited in place.  Every call is judged by the hooks.
        n = rng.choice([2, 3, 3])
        cname = "Hist%d" % rng.randint(0, 99)
        defs = [GC.numeric_custom_def(rng, nprng, 1, cname) for _ in range(2)] if rng.random() < 0.3 else []
        ops, pools = CS.sibling_ops(rng, nprng, n, rng.randint(2, 4), custom_defs=defs[:1])
        cur = list(ops)
        plan = []
        last_k = rng.randint(0, n)
        for _ in range(rng.randint(4, 7)):
            r = rng.random()
            if r < 0.3:
                last_k = rng.choice([last_k, rng.randint(0, n), rng.randint(0, n)])
                plan.append(("controlled", last_k))
            elif r < 0.45:
                plan.append(("inverse",))
            elif r < 0.52:
                plan.append(("ancilla", rng.randint(1, 2)))
            elif r < 0.6:
                f, npar, fname = _factory(rng, tab)
                qs = rng.sample(range(n + 2), rng.randint(1, 3))
                plan.append(("apply", qs, f, fname, None if npar == 0 else CS.sibling_rows(rng, len(qs), npar)))
            elif r < 0.7:
                plan.append(("copy",))
            elif r < 0.76 and defs:
                # the same operations with the OTHER definition behind the custom gate's name
                cur = [(defs[1]()(*op.qubit_indices) if op.gate == defs[0]() else op) for op in cur]
                plan.append(("other", list(cur)))
            else:
                e = rng.choice(["set", "set", "append", "pop", "reverse", "swap"])
                if e == "set" and cur:
                    i = rng.randrange(len(cur))
                    op = CS.sibling_of_op(rng, cur[i], pools, n)
                    cur[i] = op
                    plan.append(("set", i, op))
                elif e == "append" or not cur:
                    op = CS.sibling_ops(rng, nprng, n, 1, pools=pools)[0][0]
                    cur.append(op)
                    plan.append(("append", op))
                elif e == "pop":
                    cur.pop()
                    plan.append(("pop",))
                elif e == "swap" and len(cur) >= 2:
                    a, b = rng.sample(range(len(cur)), 2)
                    cur[a], cur[b] = cur[b], cur[a]
                    plan.append(("swap", a, b))
                else:
                    cur.reverse()
                    plan.append(("reverse",))
        if not any(st[0] in ("controlled", "inverse") for st in plan[1:]):
            plan.append(("controlled", last_k))
        c = Circuit(ops, n_qubits=n)
        ctx.describe(f"history {c!r} :: " + "; ".join(_step_text(st) for st in plan), True)
        import warnings

        for st in plan:
            kind = st[0]
            if kind == "controlled":
                c.controlled(st[1])
            elif kind == "inverse":
                c.inverse()
            elif kind == "ancilla":
                add_ancilla_register(c, st[1])
            elif kind == "apply":
                with warnings.catch_warnings():
                    warnings.simplefilter("ignore")
                    if st[4] is None:
                        apply_gate_to_qubits(c, st[1], st[2])
                    else:
                        apply_gate_to_qubits(c, st[1], st[2], st[4])
            elif kind == "copy":
                c = Circuit(list(c.operations), n_qubits=n)
            elif kind == "other":
                c = Circuit(st[1], n_qubits=n)
            elif kind in ("set", "append", "pop", "swap", "reverse"):
                # the caller edits the list that `circuit.operations` handed out.  Whether that list IS the circuit's
                # own (the edit shows in the circuit) or a copy (it does not) is the library's choice: the plan was
                # laid out for the first case, under the second a position may not exist - then the step is void
                lst = c.operations
                try:
                    if kind == "set":
                        lst[st[1]] = st[2]
                    elif kind == "append":
                        lst.append(st[1])
                    elif kind == "pop":
                        lst.pop()
                    elif kind == "swap":
                        lst[st[1]], lst[st[2]] = lst[st[2]], lst[st[1]]
                    else:
                        lst.reverse()
                except (IndexError, AttributeError, TypeError):
                    ctx.mon.note("history:edit-of-the-handed-out-operation-list-void")
        return
    if cls == "wide":
        # registers beyond the widths dense matrices allow: a few small gates at the extreme / threshold positions;
        # the monitors compare on the touched qubits only
        n = rng.choice([8, 9, 9, 16, 17, 32, 33, 64, 65])
        marks = sorted({0, 1, 7, 8, 9, 15, 16, 17, 31, 32, 33, 63, 64, n - 2, n - 1} & set(range(n)))
        ops, descs = [], []
        for _ in range(rng.randint(1, 3)):
            g, d = GC.rand_gate(rng, nprng, 2, wrap=0.3, custom=0.1, allow_u3=False)
            qs = [rng.choice(marks) if rng.random() < 0.7 else rng.randrange(n) for _ in range(g.num_qubits)]
            if len(set(qs)) < len(qs):
                qs = list(GC.rand_qubits(rng, g.num_qubits, n))
            ops.append(g(*qs))
            descs.append(f"{d}@{','.join(map(str, qs))}")
        c = Circuit(ops, n_qubits=n) if rng.random() < 0.7 else Circuit(ops)
        used = sorted({q for op in ops for q in op.qubit_indices})
        near = [q + e for q in used for e in (-1, 0, 1) if 0 <= q + e <= c.n_qubits]
        k = rng.choice([0, c.n_qubits, c.n_qubits - 1, rng.choice(near), rng.choice(near), rng.randint(0, c.n_qubits)])
        j = rng.randint(0, 2)
        ctx.describe(f"wide n={c.n_qubits} k={k} +{j} [" + "; ".join(descs) + "]", True)
        c.controlled(k)
        _inverse_checks(ctx, c, True)
        add_ancilla_register(c, j)
        return
    raise ValueError(cls)
