"""C01 - a circuit acts as the ordered product of its gates on the named qubits."""
import itertools
import math

import numpy as np
import sympy

from ..gen import circuits as GC
from ..ref import linalg as L

ID = "C01"
LEVEL = "exploration"
RULE = (
    "seeded random circuits by class (numeric / all-symbolic (+ a share of mixed) / concatenation / "
    "bundled simulator with interleaved phase operations and random initial states / base-class simulator "
    "with a random native-operation predicate / split_circuit); gates: all built-ins, custom numeric and "
    "symbolic gates, controlled/dagger/integer-power wrappers on uniformly drawn ordered qubit tuples; a "
    "case is non-trivial when it has >=2 operations and (a multi-qubit operation on a tuple that is not "
    "ascending-adjacent, or an idle qubit, or a native/non-native split with >=2 segments); class arity: gates on "
    "3 - 5 qubits (1- and 2-qubit gates under 1 - 4 controls, dense custom gates, daggers) on ordered tuples drawn by "
    "shape (gap-free block ascending / reversed / rotated / interior permuted with both ends in place / shuffled; "
    "gapped ascending / ends in place / shuffled; spread to both ends of the register; not an involution), tallied; "
    "distinct = "
    "distinct canonical case strings"
)
ASSUMPTIONS = [
    "each gate's own .matrix is taken as given (its correctness is C02/C07); placement and order come from "
    "rv.ref.linalg.embed (bit arithmetic on basis indices, qubit 0 = most significant bit)",
    "tolerance 1e-9 (max-abs) on matrices and state vectors of unitary circuits",
    "symbolic results are compared numerically at random assignments of their symbols",
    "widths <= 6 (quick) / 8 (thorough) numeric, <= 3/4 symbolic; class wide: 9 - 12 qubits, step-wise application and "
    "the bundled simulator only",
]
DECIDING = [
    "Circuit.to_unitary", "GateOperation.lifted_matrix", "GateOperation.apply", "MultiPhaseOperation.apply",
    "Circuit.__add__", "get_wavefunction", "stepwise-final", "concat-composes", "split-circuit",
    "partial-native-sim",
]
BUDGET = {"quick": (4, 25, 110), "thorough": (16, 200, 100000)}
CASE_TIMEOUT = {"quick": 15, "thorough": 40}
K5 = "K5-mixed-symbolic-numeric-matmul"
TOL = 1e-9


def classes(tier):
    return ["numeric", "symbolic", "concat", "sim_bundled", "sim_partial", "split", "history", "wide", "arity", "usergate"]


# ----------------------------------------------------------------------------- helpers
def _is_gate_op(op):
    from orquestra.quantum.circuits import GateOperation

    return isinstance(op, GateOperation)


def _valid_gate_op(op, n):
    qs = tuple(op.qubit_indices)
    try:
        k = op.gate.num_qubits
    except Exception:
        return False
    if GC.has_numpy_params(op.gate):
        return False
    return (len(qs) == k and len(set(qs)) == k and all(isinstance(q, (int, np.integer)) and 0 <= q < n for q in qs))


def _free(circuit_or_ops):
    ops = getattr(circuit_or_ops, "operations", circuit_or_ops)
    out = set()
    for op in ops:
        out |= set(op.free_symbols)
    return sorted(out, key=str)


def _is_k5(exc):
    """signature of K5: a ValueError "invalid literal for int() ..." raised while sympy converts a numpy scalar
    it was handed (frame sympy.core.sympify._convert_numpy_types in the traceback).  The offending literal is
    the repr of the numpy scalar ('np.float64(1.0)') or a fragment of it ('-17)' from np.complex128(..e-17..))."""
    if not (isinstance(exc, ValueError) and str(exc).startswith("invalid literal for int() with base 10:")):
        return False
    tb = exc.__traceback__
    while tb is not None:
        code = tb.tb_frame.f_code
        if code.co_name == "_convert_numpy_types" and "sympy" in code.co_filename:
            return True
        tb = tb.tb_next
    return False


def _mixed(ops):
    flags = [bool(op.free_symbols) for op in ops]
    return any(flags) and not all(flags)


def _np_of(obj, assignment=None):
    """numeric ndarray of a numpy / sympy matrix or object vector, after substituting"""
    if isinstance(obj, np.ndarray) and obj.dtype != object:
        return obj.astype(complex)
    if isinstance(obj, sympy.MatrixBase):
        M = obj.subs(assignment) if assignment else obj
        return GC.to_np(M)
    arr = np.asarray(obj, dtype=object)
    flat = []
    for e in arr.ravel():
        e = sympy.sympify(e)
        if assignment:
            e = e.subs(assignment)
        flat.append(complex(e))
    return np.array(flat, dtype=complex).reshape(arr.shape)


_RNG = None


def _assignments(symbols, k=2):
    """deterministic pseudo-random assignments derived from the symbol names"""
    out = []
    for j in range(k):
        out.append({s: round(math.sin(1.7 * (j + 1) + 0.37 * sum(map(ord, str(s)))) * 2.5, 6) for s in symbols})
    return out


# ----------------------------------------------------------------------------- monitors
def _post_to_unitary(mon, call):
    name = "Circuit.to_unitary"
    c = call.args[0]
    ops = list(c.operations)
    n = c.n_qubits
    if not all(_is_gate_op(op) for op in ops):
        if call.exc is None:
            mon.violation("to_unitary-accepts-non-gate", f"{c!r} returned a matrix")
        else:
            mon.ok(name)
        return
    if not isinstance(n, (int, np.integer)) or n < 0 or not all(_valid_gate_op(op, n) for op in ops):
        mon.out_of_domain(name)
        return
    syms = _free(ops)
    if n > (8 if not syms else 4):
        mon.out_of_domain(name)
        return
    if call.exc is not None:
        if _is_k5(call.exc) and _mixed(ops):
            mon.violation("to_unitary-raises", f"{c!r}: {call.exc!r}", known=K5)
            return
        mon.violation("to_unitary-raises", f"{c!r}: {call.exc!r}")
        return
    U = call.result
    if getattr(U, "shape", None) != (2**n, 2**n):
        mon.violation("to_unitary-shape", f"{c!r}: shape {getattr(U, 'shape', None)} for {n} qubits")
        return
    for a in (_assignments(syms) if syms else [None]):
        ref = GC.ref_unitary(c, a)
        got = _np_of(U, a)
        d = L.maxdiff(got, ref)
        if d > TOL * max(1.0, float(np.abs(ref).max())):
            mon.violation("to_unitary-matrix", f"{c!r} at {a}: max|U-ref|={d:.3e}")
            return
    mon.note("to_unitary:symbolic" if syms else "to_unitary:numeric")
    mon.ok(name)


def _post_lifted(mon, call):
    name = "GateOperation.lifted_matrix"
    op = call.args[0]
    n = call.args[1] if len(call.args) > 1 else call.kwargs.get("num_qubits")
    if not isinstance(n, (int, np.integer)) or not _valid_gate_op(op, n):
        mon.out_of_domain(name)
        return
    syms = sorted(op.free_symbols, key=str)
    if n > (8 if not syms else 4):
        mon.out_of_domain(name)
        return
    if call.exc is not None:
        mon.violation("lifted-raises", f"{op} on {n}: {call.exc!r}")
        return
    for a in (_assignments(syms, 1) if syms else [None]):
        ref = L.embed(GC.gate_np(op.gate, a), tuple(op.qubit_indices), n)
        d = L.maxdiff(_np_of(call.result, a), ref)
        if d > TOL * max(1.0, float(np.abs(ref).max())):
            mon.violation("lifted-matrix", f"{op} lifted to {n} qubits at {a}: max diff {d:.3e}")
            return
    mon.ok(name)


def _post_apply(mon, call):
    name = "GateOperation.apply"
    op = call.args[0]
    vec = call.args[1] if len(call.args) > 1 else call.kwargs.get("amplitude_vector")
    try:
        ln = len(vec)
    except Exception:
        mon.out_of_domain(name)
        return
    n = ln.bit_length() - 1
    if ln < 1 or 2**n != ln:
        if call.exc is None:
            mon.violation("apply-accepts-bad-length", f"{op} applied to a vector of length {ln}")
        else:
            mon.ok(name)
        return
    if not _valid_gate_op(op, n) or n > 10:
        mon.out_of_domain(name)
        return
    if call.exc is not None:
        if _is_k5(call.exc):
            mon.violation("apply-raises", f"{op}: {call.exc!r}", known=K5)
        else:
            mon.violation("apply-raises", f"{op} on vector of length {ln}: {call.exc!r}")
        return
    syms = set(op.free_symbols)
    try:
        arr = np.asarray(vec, dtype=object).ravel()
        for e in arr:
            syms |= set(getattr(e, "free_symbols", ()))
    except Exception:
        mon.out_of_domain(name)
        return
    syms = sorted(syms, key=str)
    if syms and n > 4:
        mon.out_of_domain(name)
        return
    for a in (_assignments(syms, 1) if syms else [None]):
        v = _np_of(vec, a)
        if v.ndim == 2 and v.shape[1] > 1:
            # a block of column vectors (e.g. the matrix accumulated so far): the operation acts on every column
            if v.shape[0] != ln or n > 8:
                mon.out_of_domain(name)
                return
            got = _np_of(call.result, a)
            if got.shape != v.shape:
                mon.violation("apply-vector", f"{op} applied to a {v.shape} block returned shape {got.shape}")
                return
            mon.note("apply:block-of-columns")
        else:
            v = v.ravel()
            got = _np_of(call.result, a).ravel()
        ref = L.embed(GC.gate_np(op.gate, a), tuple(op.qubit_indices), n) @ v
        d = L.maxdiff(got, ref)
        if d > TOL * max(1.0, float(np.abs(ref).max())):
            mon.violation("apply-vector", f"{op} applied to {np.round(v, 4).tolist()} at {a}: max diff {d:.3e}")
            return
    mon.ok(name)


def _post_multiphase(mon, call):
    name = "MultiPhaseOperation.apply"
    op = call.args[0]
    vec = call.args[1] if len(call.args) > 1 else call.kwargs.get("amplitude_vector")
    try:
        ln = len(vec)
    except Exception:
        mon.out_of_domain(name)
        return
    params = op.params
    if ln != len(params):
        if call.exc is None:
            mon.violation("multiphase-accepts-bad-length", f"{len(params)} params on vector of {ln}")
        else:
            mon.ok(name)
        return
    if any(getattr(p, "free_symbols", None) for p in params):
        if call.exc is None:
            mon.violation("multiphase-unbound-applied", f"params {params!r} applied")
        else:
            mon.ok(name)
        return
    try:
        v = np.asarray(vec, dtype=complex).ravel()
    except Exception:
        mon.out_of_domain(name)
        return
    if call.exc is not None:
        mon.violation("multiphase-raises", f"{params!r}: {call.exc!r}")
        return
    ref = np.array([v[k] * complex(math.cos(float(params[k])), math.sin(float(params[k]))) for k in range(ln)])
    d = L.maxdiff(np.asarray(call.result, dtype=complex).ravel(), ref)
    if d > 1e-12 * max(1.0, float(np.abs(ref).max())):
        mon.violation("multiphase-vector", f"phases {params!r} on {v.tolist()}: max diff {d:.3e}")
    else:
        mon.ok(name)


def _post_add(mon, call):
    name = "Circuit.__add__"
    from orquestra.quantum.circuits import Circuit, GateOperation

    a = call.args[0]
    b = call.args[1]
    if isinstance(b, Circuit):
        b_ops, b_n = list(b.operations), b.n_qubits
    elif isinstance(b, GateOperation):
        b_ops, b_n = [b], (max(b.qubit_indices) + 1 if b.qubit_indices else 0)
    else:
        mon.out_of_domain(name)
        return
    if call.exc is not None:
        mon.violation("add-raises", f"{a!r} + {b!r}: {call.exc!r}")
        return
    r = call.result
    exp_ops = list(a.operations) + b_ops
    got_ops = list(r.operations)
    ok_ops = len(exp_ops) == len(got_ops) and all(x is y or x == y for x, y in zip(exp_ops, got_ops))
    if r.n_qubits != max(a.n_qubits, b_n):
        mon.violation("add-width", f"width {r.n_qubits} != max({a.n_qubits}, {b_n}) for {a!r} + {b!r}")
    elif not ok_ops:
        mon.violation("add-operations", f"{a!r} + {b!r} -> {r!r}")
    else:
        mon.ok(name)


def _ref_state(circuit, state, mon=None):
    """reference final state: gate operations through embed, phase operations as diagonal"""
    from orquestra.quantum.circuits import MultiPhaseOperation

    n = circuit.n_qubits
    v = np.asarray(state, dtype=complex).ravel()
    for op in circuit.operations:
        if isinstance(op, MultiPhaseOperation):
            v = v * np.array([complex(math.cos(float(p)), math.sin(float(p))) for p in op.params])
        else:
            v = L.embed(GC.gate_np(op.gate), tuple(op.qubit_indices), n) @ v
    return v


def _post_get_wavefunction(mon, call):
    name = "get_wavefunction"
    from orquestra.quantum.circuits import MultiPhaseOperation

    c = call.args[1] if len(call.args) > 1 else call.kwargs.get("circuit")
    init = call.args[2] if len(call.args) > 2 else call.kwargs.get("initial_state")
    try:
        ops = list(c.operations)
        n = c.n_qubits
    except Exception:
        mon.out_of_domain(name)
        return
    if n > 10 or not isinstance(n, (int, np.integer)):
        mon.out_of_domain(name)
        return
    for op in ops:
        if isinstance(op, MultiPhaseOperation):
            if len(op.params) != 2**n or any(getattr(p, "free_symbols", None) for p in op.params):
                mon.out_of_domain(name)
                return
        elif not (_is_gate_op(op) and _valid_gate_op(op, n)) or op.free_symbols:
            mon.out_of_domain(name)
            return
    if init is None:
        v0 = np.zeros(2**n, dtype=complex)
        v0[0] = 1
    else:
        try:
            v0 = np.asarray(init, dtype=complex).ravel()
        except Exception:
            mon.out_of_domain(name)
            return
        if v0.shape != (2**n,):
            mon.out_of_domain(name)
            return
    ref = _ref_state(c, v0)
    if abs(np.linalg.norm(ref) - 1) > 1e-6:
        mon.out_of_domain(name)  # non-unitary circuit / un-normalised input: Wavefunction() may refuse
        return
    if call.exc is not None:
        mon.violation("wavefunction-raises", f"{type(call.args[0]).__name__}.get_wavefunction({c!r}): {call.exc!r}")
        return
    got = np.asarray(call.result.amplitudes, dtype=complex).ravel()
    d = L.maxdiff(got, ref)
    if d > TOL:
        mon.violation("wavefunction-amplitudes",
                      f"{type(call.args[0]).__name__}.get_wavefunction({c!r}, init={None if init is None else np.round(v0, 4).tolist()}): max diff {d:.3e}")
    else:
        mon.ok(name)


def install(mon, reach):
    from orquestra.quantum.api import wavefunction_simulator as WS
    from orquestra.quantum.circuits import _circuit as C
    from orquestra.quantum.circuits import _gates as G
    from orquestra.quantum.circuits import _unitary_tools as UT
    from orquestra.quantum.circuits import _wavefunction_operations as WO
    from orquestra.quantum.runners import symbolic_simulator as SS

    reach.watch(getattr(UT, "_lift_matrix", None), "_lift_matrix")
    reach.watch(getattr(UT, "_permutation_matrix", None), "_permutation_matrix")
    reach.watch(getattr(UT, "_lift_matrix_numpy", None), "_lift_matrix_numpy")
    reach.watch(getattr(UT, "_lift_matrix_sympy", None), "_lift_matrix_sympy")
    reach.watch(C.Circuit.to_unitary, "Circuit.to_unitary")
    reach.watch(G.GateOperation.lifted_matrix, "GateOperation.lifted_matrix")
    reach.watch(G.GateOperation.apply, "GateOperation.apply")
    reach.watch(getattr(C, "_append_operation", None), "_append_operation")
    reach.watch(getattr(C, "_append_circuit", None), "_append_circuit")
    reach.watch(C.split_circuit, "split_circuit")
    reach.watch(WO.MultiPhaseOperation.apply, "MultiPhaseOperation.apply")
    reach.watch(WS.BaseWavefunctionSimulator.get_wavefunction, "BaseWavefunctionSimulator.get_wavefunction")
    reach.watch(getattr(SS.SymbolicSimulator, "_get_wavefunction_from_native_circuit", None), "SymbolicSimulator._native")

    mon.hook_method(C.Circuit, "to_unitary", post=_post_to_unitary)
    mon.hook_method(G.GateOperation, "lifted_matrix", post=_post_lifted)
    mon.hook_method(G.GateOperation, "apply", post=_post_apply)
    mon.hook_method(WO.MultiPhaseOperation, "apply", post=_post_multiphase)
    mon.hook_method(C.Circuit, "__add__", post=_post_add)
    mon.hook_method(WS.BaseWavefunctionSimulator, "get_wavefunction", post=_post_get_wavefunction,
                    name="get_wavefunction", overrides=True)


# ----------------------------------------------------------------------------- harness simulator
def make_partial_sim(predicate, log):
    """A simulator built on the base class whose native back end is the reference
    simulation; it records what it is handed."""
    from orquestra.quantum.api.wavefunction_simulator import BaseWavefunctionSimulator

    class PartialNativeSim(BaseWavefunctionSimulator):
        def is_natively_supported(self, operation):
            return predicate(operation)

        def _get_wavefunction_from_native_circuit(self, circuit, initial_state):
            log.append(("native", circuit.n_qubits, [predicate(op) for op in circuit.operations],
                        len(circuit.operations)))
            return _ref_state(circuit, initial_state)

    return PartialNativeSim()


def _predicates(rng):
    from orquestra.quantum.circuits import GateOperation, MultiPhaseOperation

    kind = rng.choice(["gates", "none", "names", "arity", "hash", "phase_only"])
    if kind == "gates":
        return kind, lambda op: isinstance(op, GateOperation)
    if kind == "none":
        return kind, lambda op: False
    if kind == "names":
        names = set(rng.sample(["X", "Y", "Z", "H", "RX", "RY", "RZ", "CNOT", "CZ", "SWAP", "XX", "ZZ", "PHASE",
                                "S", "T", "Control", "U3"], rng.randint(2, 8)))
        return f"names{sorted(names)}", lambda op: isinstance(op, GateOperation) and op.gate.name in names
    if kind == "arity":
        k = rng.choice([1, 2])
        return f"arity<={k}", lambda op: isinstance(op, GateOperation) and len(op.qubit_indices) <= k
    if kind == "phase_only":
        return kind, lambda op: isinstance(op, MultiPhaseOperation)
    salt = rng.randint(0, 10**6)
    return f"hash{salt}", lambda op: isinstance(op, GateOperation) and (hash((str(op), salt)) % 3 != 0)


def _phases(rng, n):
    """2**n phase angles: ordinary ones, and (one case in five) angles of many turns - exp(i theta) is exact in the
    reference (libm reduces the argument exactly), a library that reduces theta itself in floating point is not"""
    if rng.random() < 0.8:
        return tuple(round(rng.uniform(-3.2, 3.2), 6) for _ in range(2**n))
    scale = rng.choice([1e3, 1e7, 2.0**31, 2.0**40, 1e12])
    return tuple(rng.choice([-1, 1]) * scale * rng.uniform(0.5, 1.0) if rng.random() < 0.7 else round(rng.uniform(-3.2, 3.2), 6)
                 for _ in range(2**n))


def _with_phases(rng, circuit, share=0.25):
    """interleave MultiPhaseOperations (full register) into a numeric circuit"""
    from orquestra.quantum.circuits import Circuit, MultiPhaseOperation

    n = circuit.n_qubits
    if n == 0:
        return circuit, 0
    ops = []
    k = 0
    for op in circuit.operations:
        if rng.random() < share:
            ops.append(MultiPhaseOperation(_phases(rng, n)))
            k += 1
        ops.append(op)
    if rng.random() < share:
        ops.append(MultiPhaseOperation(_phases(rng, n)))
        k += 1
    return Circuit(ops, n_qubits=n), k


# ----------------------------------------------------------------------------- cases
_USER_GATES = None


def _user_gates():
    """gate classes of a user's (built once per process, after the library is importable)"""
    global _USER_GATES
    if _USER_GATES is not None:
        return _USER_GATES
    import dataclasses

    from orquestra.quantum.circuits import ControlledGate, Dagger, GateOperation

    @dataclasses.dataclass(frozen=True)
    class OpenControlledGate(ControlledGate):
        """acts when every control is 0 (and is the identity otherwise)"""

        @property
        def matrix(self):
            m = self.wrapped_gate.matrix
            return sympy.Matrix.diag(m, sympy.eye(2 ** self.num_qubits - m.shape[0]))

    @dataclasses.dataclass(frozen=True)
    class TransposedGate(Dagger):
        """reports the plain transpose of what it wraps"""

        @property
        def matrix(self):
            return self.wrapped_gate.matrix.T

    class OwnGate:
        """a class of the user's own that implements the Gate protocol: another gate's matrix times a phase factor"""

        def __init__(self, inner, factor):
            self.inner, self.factor = inner, factor

        name = "OwnGate"
        params = ()
        free_symbols = ()

        @property
        def num_qubits(self):
            return self.inner.num_qubits

        @property
        def matrix(self):
            return self.inner.matrix * sympy.sympify(self.factor)

        def controlled(self, k):
            return ControlledGate(self, k)

        @property
        def dagger(self):
            return Dagger(self)

        def bind(self, symbols_map):
            return self

        def replace_params(self, new_params):
            return self

        def __call__(self, *qubits):
            return GateOperation(self, tuple(qubits))

        def __repr__(self):
            return f"OwnGate({self.inner!r}, {self.factor!r})"

    _USER_GATES = {"open": OpenControlledGate, "transposed": TransposedGate, "protocol": OwnGate}
    return _USER_GATES


def _nontrivial(info):
    return info["n_ops"] >= 2 and (info["nonadjacent"] or info["idle"])


def run_case(ctx):
    from orquestra.quantum.circuits import Circuit, split_circuit
    from orquestra.quantum.runners.symbolic_simulator import SymbolicSimulator

    rng, nprng = ctx.rng, ctx.nprng
    cls = ctx.cls
    wmax = 6 if ctx.quick else 8
    if cls == "numeric":
        n = rng.choice([1, 2, 2, 3, 3, 4, 4, 5, wmax])
        length = rng.choice([0, 1, 2, 3, 5, 8, 12]) if rng.random() < 0.9 else 0
        unitary_only = rng.random() < 0.8
        c, desc, info = GC.rand_circuit(rng, nprng, n, length, unitary_only=unitary_only,
                                        allow_u3=rng.random() < 0.15)
        ctx.describe("numeric " + desc, _nontrivial(info))
        try:
            U = c.to_unitary()
        except Exception:
            return  # judged by the hook
        # step-wise application to an arbitrary (un-normalised) state
        v = L.random_state(nprng, 2**c.n_qubits, normalised=False)
        w = v
        try:
            for op in c.operations:
                w = op.apply(w)
        except Exception:
            return
        ref = GC.ref_unitary(c) @ v
        ctx.check("stepwise-final", L.maxdiff(np.asarray(w, dtype=complex), ref) <= TOL * max(1.0, float(np.abs(ref).max())),
                  lambda: f"step-wise apply of {c!r} to {v.tolist()} differs from the reference product")
        return
    if cls == "symbolic":
        n = rng.choice([1, 2, 2, 3, 3 if ctx.quick else 4])
        length = rng.choice([1, 2, 3, 4, 6])
        syms = [sympy.Symbol(s) for s in rng.sample(GC.SYMBOL_POOL, 3)]
        mixed = rng.random() < 0.08
        c, desc, info = GC.rand_circuit(rng, nprng, n, length, symbolic=True, symbols=syms,
                                        allow_u3=rng.random() < 0.1, max_gate_nq=2)
        if mixed:
            c2, d2, _ = GC.rand_circuit(rng, nprng, n, 1, custom=0, allow_u3=False, wrap=0)
            c = Circuit(list(c.operations) + list(c2.operations), n_qubits=n)
            desc += " + numeric " + d2
        ctx.describe(("mixed " if mixed else "symbolic ") + desc, _nontrivial(info))
        ctx.mon.note("mixed-circuits" if mixed else "all-symbolic-circuits")
        try:
            c.to_unitary()
        except Exception:
            pass
        # step-wise on a numeric state: symbolic gates give object vectors
        v = L.random_state(nprng, 2**c.n_qubits, normalised=False)
        w = v
        try:
            for op in c.operations:
                w = op.apply(w)
        except Exception:
            return
        a = GC.rand_assignment(rng, _free(c))
        ref = GC.ref_unitary(c, a) @ v
        got = _np_of(w, a).ravel()
        ctx.check("stepwise-final", L.maxdiff(got, ref) <= TOL * max(1.0, float(np.abs(ref).max())),
                  lambda: f"step-wise apply of {c!r} at {a} differs from the reference product")
        return
    if cls == "concat":
        n1, n2 = rng.randint(1, 5), rng.randint(1, 5)
        c1, d1, i1 = GC.rand_circuit(rng, nprng, n1, rng.randint(0, 5), allow_u3=False)
        c2, d2, i2 = GC.rand_circuit(rng, nprng, n2, rng.randint(0, 5), allow_u3=False)
        ctx.describe(f"concat ({d1}) + ({d2})", (i1["n_ops"] + i2["n_ops"] >= 2) and c1.n_qubits != c2.n_qubits)
        s = c1 + c2
        N = max(c1.n_qubits, c2.n_qubits)
        ok = s.n_qubits == N
        if ok and N > 0:
            exp = L.pad(GC.ref_unitary(c2), c2.n_qubits, N) @ L.pad(GC.ref_unitary(c1), c1.n_qubits, N)
            got = GC.ref_unitary(s)
            ok = L.maxdiff(got, exp) <= TOL
            try:
                lib = np.asarray(s.to_unitary(), dtype=complex)
                ok = ok and L.maxdiff(lib, exp) <= TOL
            except Exception:
                ok = False
        ctx.check("concat-composes", ok, lambda: f"({c1!r}) + ({c2!r}) = {s!r}: width or action differs from composition")
        # appending single operations one at a time
        t = c1
        for op in c2.operations:
            t = t + op
        exp_w = max([c1.n_qubits] + [max(op.qubit_indices) + 1 for op in c2.operations])
        ctx.check("concat-composes", t.n_qubits == exp_w and list(t.operations) == list(c1.operations) + list(c2.operations),
                  lambda: f"appending operations of {c2!r} to {c1!r} one by one gives {t!r}")
        return
    if cls == "sim_bundled":
        n = rng.choice([1, 2, 3, 3, 4, 5, wmax])
        c, desc, info = GC.rand_circuit(rng, nprng, n, rng.choice([0, 1, 3, 5, 8]), allow_u3=rng.random() < 0.1)
        c, k = _with_phases(rng, c, 0.25)
        init = None if rng.random() < 0.3 else L.random_state(nprng, 2**c.n_qubits)
        ctx.describe(f"SymbolicSimulator phases={k} init={'zero' if init is None else 'random'} {desc}",
                     _nontrivial(info))
        sim = SymbolicSimulator()
        wf = sim.get_wavefunction(c, init) if init is not None else sim.get_wavefunction(c)
        return
    if cls == "sim_partial":
        n = rng.choice([1, 2, 3, 3, 4, 5])
        c, desc, info = GC.rand_circuit(rng, nprng, n, rng.choice([1, 3, 5, 8, 12]), allow_u3=False)
        c, k = _with_phases(rng, c, 0.2)
        pname, pred = _predicates(rng)
        flags = [bool(pred(op)) for op in c.operations]
        segments = [key for key, _ in itertools.groupby(flags)]
        init = None if rng.random() < 0.3 else L.random_state(nprng, 2**c.n_qubits)
        ctx.describe(f"PartialNativeSim native={pname} segments={len(segments)} phases={k} "
                     f"init={'zero' if init is None else 'random'} {desc}", len(c.operations) >= 2 and len(segments) >= 2)
        log = []
        sim = make_partial_sim(pred, log)
        try:
            wf = sim.get_wavefunction(c, init) if init is not None else sim.get_wavefunction(c)
        except Exception as e:
            ctx.check("partial-native-sim", False, f"get_wavefunction raised {e!r} for {c!r} native={pname}")
            return
        ok = all(w == c.n_qubits and all(fl) for _, w, fl, _k in log)
        ok = ok and len(log) == sum(1 for s in segments if s) and [k_ for *_x, k_ in log] == [
            len(list(g)) for key, g in itertools.groupby(flags) if key]
        ctx.check("partial-native-sim", ok,
                  lambda: f"native back end received {log} for flags {flags} on width {c.n_qubits}")
        ctx.mon.note(f"segments:{min(len(segments), 6)}")
        return
    if cls == "history":
        # several related circuits through the SAME simulator objects and the same process: sibling gates (equal
        # name / parameters, different innermost gate or wrapper), the same operations on a wider register, the
        # same circuit from another initial state, same-named custom gates with different matrices, phase
        # operations first.  Every call is judged by the hooks; nothing here is asserted by the driver.
        from ..gen import siblings as SB

        n = rng.choice([2, 3, 3, 4])
        params = [GC.rand_angle(rng), GC.rand_angle(rng)][: rng.randint(1, 2)]
        name = "Cust" + str(rng.randint(0, 99))
        defs = [GC.numeric_custom_def(rng, nprng, 1, name) for _ in range(rng.choice([0, 2]))]
        sim = SymbolicSimulator()
        pname, pred = _predicates(rng)
        log = []
        psim = make_partial_sim(pred, log)
        circuits = []
        for k in range(rng.randint(3, 5)):
            ops = SB.sibling_ops(rng, n, params, rng.randint(2, 5), custom_defs=defs[k % 2: k % 2 + 1] if defs else None)
            circuits.append(Circuit(ops, n_qubits=n))
        base = circuits[0]
        circuits.append(Circuit(base.operations, n_qubits=n + 1))  # same operations, wider register
        circuits.append(Circuit(base.operations, n_qubits=n))  # equal to the first, another object
        circuits.append(_with_phases(rng, base, 0.5)[0])
        rng.shuffle(circuits)
        circuits.append(base)
        ctx.describe(f"history native={pname} n={n} params={params} " + " | ".join(repr(c)[:120] for c in circuits[:4]), True)
        # before anything else: the state of an operation-free register asked of both simulators and then EDITED by
        # the caller, legally, through the wavefunction's own item assignment (what a simulator hands out is the
        # caller's) - every later simulation from the default state still starts from |0...0>
        for s_ in (sim, psim):
            for width in {n, n + 1}:
                try:
                    w0 = s_.get_wavefunction(Circuit(n_qubits=width))
                    a0 = np.asarray(w0.amplitudes)
                    if a0.dtype.kind in "fc":
                        w0[:] = (np.roll(a0.reshape(-1), 1) * 1j).reshape(a0.shape)
                        ctx.mon.note("history:idle-register-state-edited-by-the-caller")
                except Exception:
                    pass
        for c in circuits:
            gate_only = all(_is_gate_op(op) for op in c.operations)
            if gate_only and rng.random() < 0.7:
                try:
                    c.to_unitary()
                except Exception:
                    pass
            for s_ in (sim, psim):
                s_.get_wavefunction(c)  # from the default state ...
            if rng.random() < 0.5:  # ... and from a caller-supplied one
                init = L.random_state(nprng, 2**c.n_qubits)
                for s_ in (sim, psim):
                    s_.get_wavefunction(c, init)
            if rng.random() < 0.5:
                v = L.random_state(nprng, 2**c.n_qubits, normalised=False)
                for op in c.operations:
                    v = op.apply(v)
        return
    if cls == "wide":
        # registers of 9 and 10 qubits (beyond a byte of basis-index bits): few operations, step-wise application
        # and the bundled simulator; the whole-circuit matrix is not built
        n = rng.choice([9, 9, 10, 10, 11, 11, 12])
        ops = []
        descs = []
        for j_ in range(rng.randint(1, 3) if n <= 10 else rng.randint(1, 2)):
            g, d = GC.rand_gate(rng, nprng, 2, wrap=0.2, custom=0.1, allow_u3=False)
            if j_ == 0 and ctx.index % 2 == 1 and g.num_qubits <= 2:
                # a gate on three or four qubits up here as well, on a tuple that is not its own inverse as a permutation
                # (a cyclic shift): whatever applies gates differently above ten qubits meets every arity
                g, d = g.controlled(3 - g.num_qubits if rng.random() < 0.7 else 4 - g.num_qubits), "C." + d
                base_ = sorted(rng.sample(range(n), g.num_qubits))
                k_ = rng.randint(1, g.num_qubits - 1)
                qs = tuple(base_[k_:] + base_[:k_])
                ops.append(g(*qs))
                descs.append(f"{d}@{','.join(map(str, qs))}")
                ctx.mon.note("wide:gate-on-3-or-4-qubits-cyclic-tuple")
                continue
            qs = GC.rand_qubits(rng, g.num_qubits, n)
            if rng.random() < 0.6:  # make sure the extreme positions occur
                qs = list(qs)
                qs[0] = rng.choice([0, n - 1, 8, 1])
                if len(set(qs)) < len(qs):
                    qs = GC.rand_qubits(rng, g.num_qubits, n)
            ops.append(g(*qs))
            descs.append(f"{d}@{','.join(map(str, qs))}")
        c = Circuit(ops, n_qubits=n)
        ctx.describe(f"wide n={n} [" + "; ".join(descs) + "]", True)
        v = L.random_state(nprng, 2**n, normalised=False)
        w = v
        for op in c.operations:
            w = op.apply(w)
        ref = v
        for op in c.operations:
            ref = L.apply(GC.gate_np(op.gate), tuple(op.qubit_indices), n, ref)
        ctx.check("stepwise-final", L.maxdiff(np.asarray(w, dtype=complex), ref) <= TOL * max(1.0, float(np.abs(ref).max())),
                  lambda: f"step-wise apply of {c!r} on {n} qubits differs from the reference")
        init = L.random_state(nprng, 2**n)
        SymbolicSimulator().get_wavefunction(c, init)
        return
    if cls == "arity":
        # gates on 3, 4 and 5 qubits (controls on 1- and 2-qubit gates, dense custom gates) on ordered tuples of every
        # shape (rv.gen.tupleshapes): a gap-free block with its interior permuted, reversed, rotated; gaps with the ends
        # in place; tuples that are / are not their own inverse as permutations; positions at both ends of the register
        from ..gen import tupleshapes as TS

        n = rng.choice([4, 5, 5, 6, 6, wmax])
        ops, descs, shapes = [], [], []
        for j in range(rng.randint(1, 3)):
            k = rng.choice([3, 4, 4, 4, 5]) if j == 0 else rng.choice([1, 2, 3, 4])
            k = min(k, n)
            base_nq = rng.choice([1, 2]) if k >= 3 else k
            if k == 3 and rng.random() < 0.3:
                base_nq = 3
            g, d = GC.rand_gate(rng, nprng, base_nq, wrap=0.15, custom=0.3, allow_u3=False)
            if g.num_qubits < k:
                g, d = g.controlled(k - g.num_qubits), f"C{k - g.num_qubits}.{d}"
            if rng.random() < 0.3:
                g, d = g.dagger, f"D.{d}"
            qs, shape = TS.shaped_tuple(rng, g.num_qubits, n, TS.SHAPES[(ctx.index + j) % len(TS.SHAPES)] if j == 0 else None)
            ops.append(g(*qs))
            descs.append(f"{d}@{','.join(map(str, qs))}")
            shapes.append(TS.shape_of(qs))
        c = Circuit(ops, n_qubits=n) if rng.random() < 0.7 else Circuit(ops)
        for sh in shapes:
            ctx.mon.note("arity:tuple-shape:" + sh)
        ctx.mon.note(f"arity:largest-gate:{max(op.gate.num_qubits for op in ops)}q")
        ctx.describe(f"arity n={c.n_qubits} [" + "; ".join(descs) + "]", True)
        try:
            c.to_unitary()
        except Exception:
            return  # judged by the hook
        v = L.random_state(nprng, 2**c.n_qubits, normalised=False)
        w = v
        for op in c.operations:
            w = op.apply(w)
        ref = GC.ref_unitary(c) @ v
        ctx.check("stepwise-final", L.maxdiff(np.asarray(w, dtype=complex), ref) <= TOL * max(1.0, float(np.abs(ref).max())),
                  lambda: f"step-wise apply of {c!r} differs from the reference product")
        SymbolicSimulator().get_wavefunction(c, L.random_state(nprng, 2**c.n_qubits))
        return
    if cls == "usergate":
        # gates whose CLASS is a user's: Gate is a protocol, so a circuit may hold a gate object the library has never
        # seen - a class of the user's own that implements the protocol, or a subclass of one of the library's gate
        # classes that reports a matrix of its own (open controls, a transposed "dagger").  "Each gate's own matrix"
        # is whatever `gate.matrix` says; nothing may be inferred from the class the gate happens to derive from
        n = rng.choice([2, 3, 3, 4, 5])
        ops, descs = [], []
        for _ in range(rng.randint(1, 4)):
            kind = rng.choice(["open-controlled", "open-controlled", "protocol", "transposing-dagger", "library"])
            base_nq = rng.choice([1, 1, 2]) if n >= 3 else 1
            g, d = GC.rand_gate(rng, nprng, base_nq, wrap=0.1, custom=0.3, allow_u3=False)
            if kind == "open-controlled" and g.num_qubits < n:
                g, d = _user_gates()["open"](g, rng.randint(1, min(2, n - g.num_qubits))), f"OpenC.{d}"
            elif kind == "protocol":
                g, d = _user_gates()["protocol"](g, complex(math.cos(ph := round(rng.uniform(0.3, 2.8), 3)), math.sin(ph))), f"Own[{ph}].{d}"
            elif kind == "transposing-dagger":
                g, d = _user_gates()["transposed"](g), f"T.{d}"
            ctx.mon.note("usergate:" + kind)
            qs = GC.rand_qubits(rng, g.num_qubits, n)
            ops.append(g(*qs))
            descs.append(f"{d}@{','.join(map(str, qs))}")
        c = Circuit(ops, n_qubits=n)
        ctx.describe(f"usergate n={n} [" + "; ".join(descs) + "]", True)
        try:
            c.to_unitary()
        except Exception:
            return  # judged by the hook
        v = L.random_state(nprng, 2**n, normalised=False)
        w = v
        for op in c.operations:
            w = op.apply(w)
        ref = GC.ref_unitary(c) @ v
        ctx.check("stepwise-final", L.maxdiff(np.asarray(w, dtype=complex), ref) <= TOL * max(1.0, float(np.abs(ref).max())),
                  lambda: f"step-wise apply of {c!r} differs from the reference product")
        SymbolicSimulator().get_wavefunction(c, L.random_state(nprng, 2**n))
        return
    if cls == "split":
        n = rng.choice([1, 2, 3, 4, 5])
        c, desc, info = GC.rand_circuit(rng, nprng, n, rng.choice([0, 1, 2, 5, 9]), allow_u3=False,
                                        n_qubits_explicit=True)
        if rng.random() < 0.5:
            c = Circuit(c.operations, n_qubits=c.n_qubits + rng.randint(1, 2))  # idle trailing qubits
        c, k = _with_phases(rng, c, 0.2) if rng.random() < 0.5 else (c, 0)
        pname, pred = _predicates(rng)
        flags = [bool(pred(op)) for op in c.operations]
        groups = [(key, len(list(g))) for key, g in itertools.groupby(flags)]
        ctx.describe(f"split by {pname}: {desc} width={c.n_qubits}", len(groups) >= 2)
        parts = list(split_circuit(c, pred))
        ok = [bool(v) for v, _ in parts] == [g[0] for g in groups]
        ok = ok and [len(sc.operations) for _, sc in parts] == [g[1] for g in groups]
        ok = ok and all(sc.n_qubits == c.n_qubits for _, sc in parts)
        flat = [op for _, sc in parts for op in sc.operations]
        ok = ok and len(flat) == len(c.operations) and all(x is y for x, y in zip(flat, c.operations))
        ctx.check("split-circuit", ok, lambda: f"split of {c!r} by {pname}: {[(v, sc) for v, sc in parts]!r}")
        return
    raise ValueError(cls)
