"""C06 - binding parameters commutes with evaluating the circuit."""
import math
import random
import zlib

import numpy as np
import sympy

from ..gen import circuits as GC
from ..gen import numtypes as NT
from ..gen import siblings as SB
from ..gen import symbols as GS
from ..ref import linalg as L


def _def_width(d):
    """qubits of a custom gate definition, from its public matrix"""
    return int(d.matrix.shape[0]).bit_length() - 1


ID = "C06"
LEVEL = "exploration"
TECHNIQUE = (
    "runtime monitoring: post-condition oracles on every bind / replace_params / free_symbols / sub_symbols / "
    "custom-matrix-factory call (substitution defined independently as simultaneous xreplace) plus driver-level "
    "relational checks (two-step vs one-step binding, circuit matrix before/after, repeated binds of the same objects "
    "judged against the parameters they were built with)"
)
RULE = (
    "seeded generator by input class (gates / wrapped / custom / non-gate operations / circuits / chained maps / "
    "two-step binding / refusing wrappers / siblings / rebind) x symbol map kind (empty, partial, total, superfluous, "
    "same-name symbol with other assumptions; values int, float, sympy numbers, fresh symbols, expressions); "
    "siblings = circuits whose operations are drawn from small per-circuit pools of innermost gates x wrapper shapes x "
    "parameter values (rv.gen.siblings), so that DIFFERENT gates coincide in name, parameter tuple, text, == / hash "
    "(c-RX(t) / c-RY(t) / cc-RX(t) / c-RX(t)-dagger, X.controlled / Z.controlled, RX(1) / RX(1.0), same-name symbols "
    "with other assumptions, two custom definitions of one name, one gate object on several operations), run through "
    "the circuit / two-step / chained flows; chained maps: swap, cycle, chain, self-reference, mutual expressions and "
    "feed (one key goes to an expression that mentions another key, that key to something closed), keys drawn "
    "preferably from the symbols of compound expression parameters (the circuit is given one when it has none), "
    "both name orders; rebind = history class: the same circuit / operation / gate bound "
    "repeatedly (other values under the same keys, the first map again, equal values of another numeric type, one "
    "dict changed in place between calls), its gate objects shared with a second circuit, the circuit extended by a "
    "sibling, an operation with a symbol of its own appended to the list that circuit.operations handed out; "
    "numtypes = the gate / wrapped / custom / non-gate / circuit / siblings / two-step / rebind flows with numeric "
    "parameters and map values spelled in other numeric types (rv.gen.numtypes: fractions.Fraction, decimal.Decimal "
    "[parameters only], numpy integers and floats of every width, mpmath mpf / mpc, subclasses of int and float, "
    "Python and numpy complex [gate parameters only], integers beyond 2**53 / 2**63, tiny and huge floats), the map "
    "handed over as a dict subclass / OrderedDict / defaultdict, some non-ASCII symbol names; "
    "non-trivial = some parameter is a non-atomic expression or the map is partial (siblings: at least two "
    "different gates collide under a non-unique key; rebind: the map touches a symbol of the object; numtypes: a "
    "number of a type other than int / float / sympy was drawn into the case); distinct = distinct canonical case "
    "strings"
)
ASSUMPTIONS = [
    "substitution is defined by the oracle as SIMULTANEOUS structural replacement (sympy xreplace) of the map's keys",
    "expected matrices = the unbound object's own symbolic matrix with the map applied afterwards, compared at 3 random "
    "assignments of the remaining symbols (1e-9); parameters compared exactly when numeric, at 1e-10 relative otherwise",
    "circuit matrices: to_unitary() on all-symbolic / all-numeric circuits of width <= 3, reference embedding of the "
    "per-gate matrices for mixed ones (known finding K5 makes their to_unitary() unobtainable)",
    "map values are Python int/float or sympy objects; in class numtypes also Fraction, mpmath, int / float "
    "subclasses, numpy integers, and numpy floats where the library only looks the value up (sympy 1.9 cannot ingest "
    "numpy floats: when the object has an expression parameter such values are respelled by the generator; a "
    "ValueError with the K5 signature - raised inside sympy's _convert_numpy_types - while a numpy scalar is among "
    "the parameters / values is counted as out of domain, a gate matrix that is not computable for that reason is "
    "not compared)",
    "a numeric parameter of ANY numbers.Number type (bool and sympy objects apart) must come back identical or of "
    "the same type and ==; a map value of an unusual numeric type that replaces a bare symbol may come back in "
    "another spelling of the same value (1e-10)",
    "a caller may append to the list that circuit.operations hands out (an operation that fits the width): "
    "free_symbols and bind of that circuit object are then judged against the operations it holds at the call",
    "a bound operation must carry ITS OWN gate: same arity, total number of controls, innermost gate (name, matrix "
    "factory) and dagger parity (the last only when the innermost gate is not declared hermitian); the wrapper "
    "nesting itself may be normalised by the library",
    "circuit-matrix tolerance 1e-9 times the product of the 2-norms of the gate matrices (1 for unitary gates; custom "
    "gates need not be unitary and the rounding error of a matrix product grows with that product)",
    "binding returns a new object: a circuit / gate that is bound repeatedly is judged each time against the "
    "parameters it was built with",
]
DECIDING = ["sub_symbols", "get_free_symbols", "custom-factory", "MatrixFactoryGate.bind", "ControlledGate.bind",
            "Dagger.bind", "Power.bind", "Exponential.bind", "GateOperation.bind", "MultiPhaseOperation.bind",
            "ResetOperation.bind", "Circuit.bind", "MatrixFactoryGate.replace_params", "ControlledGate.replace_params",
            "Dagger.replace_params", "GateOperation.replace_params", "MultiPhaseOperation.replace_params",
            "ResetOperation.replace_params", "gate.free_symbols", "operation.free_symbols", "Circuit.free_symbols",
            "two-step", "circuit-unitary", "absent-untouched", "rebind"]
BUDGET = {"quick": (4, 24, 165), "thorough": (16, 200, 100000)}
CASE_TIMEOUT = {"quick": 15, "thorough": 30}

_G = _C = _O = _W = None


def classes(tier):
    return ["gate", "wrapped", "custom", "nongate", "circuit", "siblings", "chained", "twostep", "rebind", "refuse",
            "numtypes"]


# state of the case being generated: "numtypes" runs the flows of the other classes with numbers spelled in other
# numeric types (rv.gen.numtypes) as parameters and map values
_MODE = {"exotic": False, "tag": "", "drawn": 0, "ctx": None}


# ============================================================================ oracle helpers
def _chain(g):
    mods = []
    for _ in range(64):
        if isinstance(g, _G.ControlledGate):
            mods.append(("C", g.num_control_qubits))
        elif isinstance(g, _G.Dagger):
            mods.append(("D",))
        elif isinstance(g, _G.Power):
            mods.append(("P", g.exponent))
        elif isinstance(g, _G.Exponential):
            mods.append(("E",))
        else:
            return mods, g
        g = g.wrapped_gate
    raise ValueError("wrapper chain too deep")


def _is_custom(base):
    return isinstance(base, _G.MatrixFactoryGate) and isinstance(base.matrix_factory, _G.CustomGateMatrixFactory)


def _valid_map(m):
    if not isinstance(m, dict):
        return False
    for k, v in m.items():
        if not isinstance(k, sympy.Symbol):
            return False
        if isinstance(v, (bool, np.bool_)) or not (NT.is_number(v) or isinstance(v, sympy.Expr)):
            return False
        if NT.is_number(v):
            try:
                z = complex(v)
            except Exception:
                return False
            if not (math.isfinite(z.real) and math.isfinite(z.imag)):
                return False
    return True


def _is_k5(exc):
    """environment (known finding K5): a ValueError "invalid literal for int() ..." raised inside sympy's
    _convert_numpy_types - sympy 1.9 was handed a numpy >= 2 scalar, which it cannot ingest"""
    if not (isinstance(exc, ValueError) and str(exc).startswith("invalid literal for int() with base 10:")):
        return False
    tb = exc.__traceback__
    while tb is not None:
        code = tb.tb_frame.f_code
        if code.co_name == "_convert_numpy_types" and "sympy" in code.co_filename:
            return True
        tb = tb.tb_next
    return False


def _numpy_in(*things):
    """some number among the given parameters / map values / maps is a numpy scalar"""
    for t in things:
        if isinstance(t, dict):
            t = list(t.values())
        if isinstance(t, (tuple, list)):
            if any(NT.is_numpy(x) for x in t):
                return True
        elif NT.is_numpy(t):
            return True
    return False


def _smap(m):
    """the map with sympified values, for xreplace"""
    return {k: NT.to_sympy(v) for k, v in m.items()}


def own_sub(p, m):
    """the oracle's substitution: simultaneous, structural"""
    if NT.is_number(p):
        return p
    if isinstance(p, sympy.Symbol):
        return m.get(p, p)
    if isinstance(p, sympy.Expr):
        return p.xreplace(_smap(m))
    raise TypeError(type(p))


def _atoms(p):
    return GS.symbols_of(p)


def _skey(s):
    """total order on symbols: same-name symbols with different assumptions are different symbols"""
    return (s.name, str(sorted(s.assumptions0.items())))


def _assignments(symbols, rng, k=3):
    symbols = sorted(symbols, key=_skey)
    return [{s: sympy.Float(rng.uniform(0.3, 2.7), 20) for s in symbols} for _ in range(k)]


def _val(e, a):
    if NT.is_number(e):
        return complex(e)
    if a:
        e = e.xreplace(a)
    return complex(sympy.N(e, 20))


def cmp_param(exp, got, rng, touched):
    """None if the observed parameter equals the expected one, else text.
    touched=False: the map does not concern this parameter, it must come back unchanged."""
    if NT.is_number(exp):
        try:
            if got is exp or (type(got) is type(exp) and bool(got == exp or (got != got and exp != exp))):
                return None
            if touched and NT.is_exotic(exp) and (NT.is_number(got) or (isinstance(got, sympy.Expr) and not _atoms(got))):
                # a value of the map in an unusual numeric type: the property fixes the value, not its spelling
                v1, v2 = _val(exp, None), _val(got, None)
                if abs(v1 - v2) <= 1e-10 * max(1.0, abs(v1)):
                    return None
        except Exception as e:
            return f"numeric parameter {exp!r} ({type(exp).__name__}) came back as {got!r}: not comparable ({e!r})"
        return f"numeric parameter {exp!r} ({type(exp).__name__}) came back as {got!r} ({type(got).__name__})"
    if not touched:
        if got is exp or (type(got) is type(exp) and got == exp):
            return None
        return f"parameter {exp!r} does not depend on the map but came back as {got!r}"
    if isinstance(exp, sympy.Symbol):
        if type(got) is type(exp) and got == exp:
            return None
        return f"expected symbol {exp!r}, got {got!r}"
    if not (isinstance(got, sympy.Expr) or NT.is_number(got)):
        return f"expected {exp!r}, got {got!r} ({type(got).__name__})"
    s1, s2 = _atoms(exp), _atoms(got)
    if s1 != s2:
        return f"expected {exp} over {sorted(map(str, s1))}, got {got} over {sorted(map(str, s2))}"
    for a in (_assignments(s1, rng) if s1 else [None]):
        v1, v2 = _val(exp, a), _val(got, a)
        if v1 != v1 and v2 != v2:
            continue
        if not abs(v1 - v2) <= 1e-10 * max(1.0, abs(v1)):
            return f"expected {exp}, got {got}: {v1!r} vs {v2!r} at {a}"
    return None


def _matrix_at(M, a):
    if a:
        M = M.xreplace(a)
    out = np.empty(M.shape, dtype=complex)
    for i in range(M.shape[0]):
        for j in range(M.shape[1]):
            e = M[i, j]
            out[i, j] = complex(e) if e.is_Number else complex(sympy.N(e, 20))
    return out


def cmp_matrix(Mexp, Mgot, rng, what, tol=1e-9):
    if tuple(Mexp.shape) != tuple(Mgot.shape):
        return f"{what}: shape {Mgot.shape}, expected {Mexp.shape}"
    if sympy.ImmutableMatrix(Mexp) == sympy.ImmutableMatrix(Mgot):
        return None
    s1, s2 = Mexp.atoms(sympy.Symbol), Mgot.atoms(sympy.Symbol)
    for a in (_assignments(s1 | s2, rng) if (s1 | s2) else [None]):
        A, B = _matrix_at(Mexp, a), _matrix_at(Mgot, a)
        if np.isnan(A).any() and np.isnan(B).any():
            continue
        d = L.maxdiff(A, B)
        if not d <= tol * max(1.0, float(np.abs(A).max())):
            return f"{what}: differs from the expected matrix by {d:.3g} at {a}"
    return None


def _rng_for(*parts):
    return random.Random(zlib.crc32("|".join(map(str, parts)).encode()))


def pstr(p):
    """canonical text of a parameter; numbers of other types than int / float / sympy carry their type"""
    if NT.is_exotic(p):
        return f"{type(p).__name__}:{p}"
    return GS.pstr(p)


def describe_gate(g):
    mods, b = _chain(g)
    s = "".join({"C": f"C{m[1] if len(m) > 1 else ''}.", "D": "D.", "P": f"P[{m[1]!r}]." if len(m) > 1 else "P.",
                 "E": "E."}[m[0]] for m in mods)
    name = getattr(b, "name", type(b).__name__)
    if _is_custom(b):
        d = b.matrix_factory.gate_definition
        name = f"custom:{name}<{','.join(map(str, d.params_ordering))}|{zlib.crc32(str(d.matrix).encode()):08x}>"
    ps = getattr(b, "params", ())
    return f"{s}{name}({', '.join(pstr(p) for p in ps)})" if ps else f"{s}{name}"


def describe_op(op):
    if isinstance(op, _G.GateOperation):
        return f"{describe_gate(op.gate)}@{','.join(map(str, op.qubit_indices))}"
    if isinstance(op, _W.MultiPhaseOperation):
        return f"MultiPhase({', '.join(pstr(p) for p in op.params)})"
    if isinstance(op, _W.ResetOperation):
        return f"Reset@{op.qubit_indices[0]}({', '.join(pstr(p) for p in op.params)})"
    return type(op).__name__


def describe_circuit(c):
    return f"Circuit(n={c.n_qubits})[{'; '.join(describe_op(op) for op in c.operations)}]"


def describe_map(m):
    def key(s):
        extra = "".join(f"{{{k}}}" for k, v in sorted(s.assumptions0.items()) if k == "real" and v)
        return f"{s.name}{extra}"
    kind = "" if type(m) is dict else f"{type(m).__name__}"
    return kind + "{" + ", ".join(f"{key(k)}: {pstr(v)}" for k, v in m.items()) + "}"


# ============================================================================ monitors
def _get(call, i, kw):
    return call.args[i] if len(call.args) > i else call.kwargs.get(kw)


def _post_sub_symbols(mon, call):
    name = "sub_symbols"
    p, m = _get(call, 0, "parameter"), _get(call, 1, "symbols_map")
    if not _valid_map(m) or not (NT.is_number(p) or isinstance(p, sympy.Expr)):
        mon.out_of_domain(name)
        return
    if call.exc is not None:
        if _is_k5(call.exc) and _numpy_in(p, m):
            mon.out_of_domain(name)
            mon.note("environment: sympy cannot ingest a numpy scalar (K5 signature)")
            return
        mon.violation("sub_symbols-raises", f"sub_symbols({p!r} ({type(p).__name__}), {describe_map(m)}) raised "
                      f"{call.exc!r}")
        return
    exp = own_sub(p, m)
    touched = bool(_atoms(p) & set(m))
    why = cmp_param(exp if touched else p, call.result, _rng_for(p, describe_map(m)), touched)
    if why:
        chained = any(_atoms(v) & set(m) for v in m.values() if isinstance(v, sympy.Basic))
        mon.violation("sub_symbols-chained-map" if chained and touched else "sub_symbols-value",
                      f"sub_symbols({p}, {describe_map(m)}): {why}")
        return
    mon.ok(name)
    mon.note(f"sub_symbols[{'number' if NT.is_number(p) else 'symbol' if isinstance(p, sympy.Symbol) else 'expression'}]")
    if NT.is_exotic(p):
        mon.note(f"sub_symbols[number of type {_type_family(p)}]")


def _type_family(p):
    t = type(p)
    if isinstance(p, np.generic):
        return f"numpy {np.dtype(t).kind}"
    return t.__name__


def _sorted_ok(lst):
    keys = [str(s) for s in lst]
    return keys == sorted(keys)


def _judge_symbol_list(mon, name, got, params, what):
    """a gate / operation reports exactly the symbols its parameters depend on, sorted by name, no duplicates"""
    exp = set()
    for p in params:
        exp |= _atoms(p)
    try:
        got = list(got)
    except Exception:
        mon.violation(f"{name}-type", f"{what}: free symbols {got!r} is not iterable")
        return
    if len(set(got)) != len(got):
        mon.violation(f"{name}-duplicates", f"{what}: {got}")
    elif set(got) != exp:
        mon.violation(f"{name}-set", f"{what}: reported {got}, parameters depend on {sorted(map(str, exp))}")
    elif not _sorted_ok(got):
        mon.violation(f"{name}-unsorted", f"{what}: {got} is not sorted by name")
    else:
        mon.ok(name)


def _post_get_free_symbols(mon, call):
    params = _get(call, 0, "parameters")
    if call.exc is not None or not isinstance(params, (tuple, list)):
        mon.out_of_domain("get_free_symbols")
        return
    _judge_symbol_list(mon, "get_free_symbols", call.result, params, f"get_free_symbols({tuple(map(str, params))})")


def _post_gate_free_symbols(mon, call):
    g = call.args[0]
    if call.exc is not None:
        mon.out_of_domain("gate.free_symbols")
        return
    try:
        _, b = _chain(g)
        params = b.params
    except Exception:
        mon.out_of_domain("gate.free_symbols")
        return
    _judge_symbol_list(mon, "gate.free_symbols", call.result, params, f"{describe_gate(g)}.free_symbols")
    mon.note(f"free_symbols[{type(g).__name__}]")


def _post_op_free_symbols(mon, call):
    op = call.args[0]
    if call.exc is not None:
        mon.out_of_domain("operation.free_symbols")
        return
    try:
        params = _chain(op.gate)[1].params if isinstance(op, _G.GateOperation) else op.params
    except Exception:
        mon.out_of_domain("operation.free_symbols")
        return
    _judge_symbol_list(mon, "operation.free_symbols", call.result, params, f"{describe_op(op)}.free_symbols")
    mon.note(f"free_symbols[{type(op).__name__}]")


def _op_params(op):
    return _chain(op.gate)[1].params if isinstance(op, _G.GateOperation) else op.params


def _post_circuit_free_symbols(mon, call):
    name = "Circuit.free_symbols"
    c = call.args[0]
    if call.exc is not None:
        mon.violation("circuit-free-symbols-raises", f"{describe_circuit(c)}.free_symbols raised {call.exc!r}")
        return
    try:
        per_op = [set().union(*[_atoms(p) for p in _op_params(op)]) if _op_params(op) else set() for op in c.operations]
    except Exception:
        mon.out_of_domain(name)
        return
    got = call.result
    what = describe_circuit(c)
    union = set().union(*per_op) if per_op else set()
    if not isinstance(got, list):
        mon.violation("circuit-free-symbols-type", f"{what}: {got!r} is not a list")
        return
    if len(set(got)) != len(got):
        mon.violation("circuit-free-symbols-duplicates", f"{what}: {got}")
        return
    if set(got) != union:
        mon.violation("circuit-free-symbols-set", f"{what}: reported {got}, parameters depend on {sorted(map(str, union))}")
        return
    first = {}
    for i, s in enumerate(per_op):
        for x in s:
            first.setdefault(x, i)
    idx = [first[s] for s in got]
    if idx != sorted(idx):
        mon.violation("circuit-free-symbols-order", f"{what}: {got} is not in first-appearance order (operation indices {idx})")
        return
    # within the symbols that one operation introduces, "first appearance" is the order in which that operation itself
    # reports them (its own report taken as given): walking the operations and their reported symbols, dropping
    # repetitions, gives the circuit's list - the same list in every interpreter run, whatever the hash seed
    try:
        walked = []
        for op in c.operations:
            for x in op.free_symbols:
                if x not in walked:
                    walked.append(x)
    except Exception:
        walked = None
    if walked is not None and set(walked) == set(got) and len(walked) == len(got):
        if walked != got:
            mon.violation("circuit-free-symbols-order", f"{what}: reported {got}; the operations, asked one by one, "
                          f"report their symbols in the order {walked}")
            return
        if any(len([x for x in s if first[x] == i]) >= 2 for i, s in enumerate(per_op)):
            mon.ok("Circuit.free_symbols[one operation introduces several symbols]")
    if (not got) != all(not _atoms(p) for op in c.operations for p in _op_params(op)):
        mon.violation("circuit-free-symbols-empty", f"{what}: {got}")
        return
    mon.ok(name)


def _post_custom_factory(mon, call):
    name = "custom-factory"
    f = call.args[0]
    args = call.args[1:]
    d = f.gate_definition
    order = tuple(d.params_ordering)
    if len(args) != len(order) or not all(NT.is_number(a) or isinstance(a, sympy.Expr) for a in args):
        mon.out_of_domain(name)
        return
    what = f"{d.gate_name}<{','.join(map(str, order))}>({', '.join(map(pstr, args))})"
    if call.exc is not None:
        if _is_k5(call.exc) and _numpy_in(args):
            mon.out_of_domain(name)
            mon.note("environment: sympy cannot ingest a numpy scalar (K5 signature)")
            return
        mon.violation("custom-factory-raises", f"{what} raised {call.exc!r}")
        return
    exp = d.matrix.xreplace({s: NT.to_sympy(a) for s, a in zip(order, args)})
    why = cmp_matrix(exp, call.result, _rng_for(what), what)
    if why:
        own = set(order) & set().union(*[_atoms(a) for a in args]) if args else set()
        mon.violation("custom-factory-own-symbols" if own else "custom-factory-value",
                      f"matrix of {what}: {why} (expected = definition matrix with the arguments put in by position, "
                      f"simultaneously)")
    else:
        mon.ok(name)


def _expected_params(params, m):
    out = []
    for p in params:
        touched = bool(_atoms(p) & set(m))
        out.append((own_sub(p, m) if touched else p, touched))
    return out


def _judge_params(exp_touched, got_params, rng):
    if len(exp_touched) != len(got_params):
        return f"{len(exp_touched)} parameters became {len(got_params)}: {got_params}"
    for i, ((e, touched), g) in enumerate(zip(exp_touched, got_params)):
        why = cmp_param(e, g, rng, touched)
        if why:
            return f"parameter {i}: {why}"
    return None


def _cheap_matrix(g):
    """the library's .matrix can be evaluated quickly (no sympy matrix exp / fractional power, arity <= 3)"""
    mods, b = _chain(g)
    if g.num_qubits > 3 or any(m[0] in "PE" for m in mods):
        return False
    return not (b.name == "U3" and any(_atoms(p) for p in b.params))


def _post_gate_bind(kind):
    name = f"{kind}.bind"

    def post(mon, call):
        g, m = call.args[0], _get(call, 1, "symbols_map")
        try:
            mods, b = _chain(g)
        except Exception:
            mon.out_of_domain(name)
            return
        if not _valid_map(m) or not isinstance(b, _G.MatrixFactoryGate):
            mon.out_of_domain(name)
            return
        what = f"{describe_gate(g)}.bind({describe_map(m)})"
        if any(k[0] in "PE" for k in mods):
            if isinstance(call.exc, NotImplementedError):
                mon.ok(name)
            elif call.exc is not None:
                mon.violation("bind-refusal-wrong-exception", f"{what} raised {call.exc!r}, expected NotImplementedError")
            else:
                mon.violation("bind-unsupported-wrapper-silent", f"{what} returned {call.result} instead of refusing")
            return
        if call.exc is not None:
            if _is_k5(call.exc) and _numpy_in(tuple(b.params), m):
                mon.out_of_domain(name)
                mon.note("environment: sympy cannot ingest a numpy scalar (K5 signature)")
                return
            mon.violation("bind-raises", f"{what} raised {call.exc!r}")
            return
        r = call.result
        rng = _rng_for(what)
        try:
            rmods, rb = _chain(r)
        except Exception:
            mon.violation("bind-result-type", f"{what} returned {r!r}")
            return
        if not isinstance(rb, _G.MatrixFactoryGate) or r.num_qubits != g.num_qubits:
            mon.violation("bind-arity", f"{what}: {g.num_qubits} qubits -> {describe_gate(r)} on {getattr(r, 'num_qubits', '?')}")
            return
        if sum(k[1] for k in rmods if k[0] == "C") != sum(k[1] for k in mods if k[0] == "C"):
            mon.violation("bind-controls", f"{what} -> {describe_gate(r)}: number of controls changed")
            return
        if rb.name != b.name or rb.matrix_factory is not b.matrix_factory:
            mon.violation("bind-gate-kind", f"{what} -> {describe_gate(r)}")
            return
        why = _judge_params(_expected_params(b.params, m), rb.params, rng)
        if why:
            chained = any(_atoms(v) & set(m) for v in m.values() if isinstance(v, sympy.Basic))
            mon.violation("bind-chained-map" if chained else "bind-params", f"{what} -> {describe_gate(r)}: {why}")
            return
        if _cheap_matrix(g):
            try:
                M = g.matrix
            except Exception:
                M = None
                mon.note("matrix of the unbound gate not computable")
            if M is not None:
                try:
                    R = r.matrix
                except Exception as e:
                    if _is_k5(e) and _numpy_in(tuple(rb.params), m):
                        R = None
                        mon.note("environment: matrix of a gate with a numpy parameter not computable (K5 signature)")
                    else:
                        mon.violation("bind-matrix", f"{what}: matrix of the bound gate raised {e!r}")
                        return
                if R is not None:
                    why = cmp_matrix(M.xreplace(_smap(m)), R, rng, what)
                    if why:
                        mon.violation("bind-matrix", f"bind-then-evaluate != evaluate-then-substitute: {why}")
                        return
                    mon.note("gate matrices compared (bind vs substitute)")
        mon.ok(name)
    return post


def _ref_chain_matrix(mods, B):
    """matrix of a wrapper chain over the innermost matrix B (numpy), reference semantics"""
    M = B
    for m in reversed(mods):
        if m[0] == "C":
            M = L.controlled(M, m[1])
        elif m[0] == "D":
            M = L.adjoint(M)
        elif m[0] == "P" and isinstance(m[1], int):
            M = np.linalg.matrix_power(M, m[1])
        else:
            return None
    return M


def _post_gate_replace(kind):
    name = f"{kind}.replace_params"

    def post(mon, call):
        g, new = call.args[0], _get(call, 1, "new_params")
        try:
            mods, b = _chain(g)
        except Exception:
            mon.out_of_domain(name)
            return
        if not isinstance(new, tuple) or not isinstance(b, _G.MatrixFactoryGate) or len(new) != len(b.params):
            mon.out_of_domain(name)
            return
        what = f"{describe_gate(g)}.replace_params({tuple(pstr(p) for p in new)})"
        if call.exc is not None:
            if any(k[0] in "PE" for k in mods) and isinstance(call.exc, ValueError) and any(_atoms(p) for p in new):
                mon.ok(name)  # power / exponential refuse symbolic parameters by construction
            else:
                mon.violation("replace-raises", f"{what} raised {call.exc!r}")
            return
        r = call.result
        try:
            rmods, rb = _chain(r)
        except Exception:
            mon.violation("replace-result-type", f"{what} returned {r!r}")
            return
        if not isinstance(rb, _G.MatrixFactoryGate) or r.num_qubits != g.num_qubits or rb.name != b.name \
                or rb.matrix_factory is not b.matrix_factory:
            mon.violation("replace-gate-kind", f"{what} -> {describe_gate(r)}")
            return
        if len(rb.params) != len(new) or any(not (x is y or (type(x) is type(y) and x == y)) for x, y in zip(rb.params, new)):
            mon.violation("replace-params", f"{what} -> {describe_gate(r)}: parameters {rb.params}")
            return
        if [k for k in rmods if k[0] in "PE"] != [k for k in mods if k[0] in "PE"]:
            mon.violation("replace-wrappers", f"{what} -> {describe_gate(r)}: power / exponential wrappers changed")
            return
        if g.num_qubits <= 3 and not any(k[0] in "PE" for k in mods) and not (b.name == "U3" and any(_atoms(p) for p in new)):
            rng = _rng_for(what)
            try:
                B = rb.matrix  # the innermost factory on the new parameters, taken as given
                R = r.matrix
            except Exception as e:
                if any(NT.is_exotic(x) for x in new) and (_is_k5(e) or isinstance(e, (TypeError, OverflowError))):
                    # the matrix factory itself cannot evaluate a number of this type (numpy scalars: environment;
                    # Decimal does not mix with float): nothing to compare the wrapper chain on
                    mon.note("replace_params: matrix factory cannot evaluate a parameter of an unusual numeric type")
                    mon.ok(name)
                    return
                mon.violation("replace-matrix", f"{what}: matrix raised {e!r}")
                return
            syms = B.atoms(sympy.Symbol) | R.atoms(sympy.Symbol)
            for a in (_assignments(syms, rng, 2) if syms else [None]):
                E = _ref_chain_matrix(mods, _matrix_at(B, a))
                if E is None:
                    break
                d = L.maxdiff(E, _matrix_at(R, a))
                if not d <= 1e-9 * max(1.0, float(np.abs(E).max())):
                    mon.violation("replace-matrix", f"{what} -> {describe_gate(r)}: differs by {d:.3g} from the wrapper "
                                  f"chain {[k[0] for k in mods]} applied to the innermost matrix")
                    return
        mon.ok(name)
    return post


def _post_gateop(method):
    name = f"GateOperation.{method}"

    def post(mon, call):
        op = call.args[0]
        if not isinstance(op, _G.GateOperation):
            mon.out_of_domain(name)
            return
        if call.exc is not None:
            mon.note(f"{name} raised (judged at the gate)")
            return
        r = call.result
        if type(r) is not type(op) or tuple(r.qubit_indices) != tuple(op.qubit_indices) or \
                r.gate.num_qubits != op.gate.num_qubits:
            mon.violation(f"operation-{method}-shape", f"{describe_op(op)}.{method}(..) -> {r}")
        else:
            mon.ok(name)
    return post


def _post_wf_bind(kind):
    name = f"{kind}.bind"

    def post(mon, call):
        op, m = call.args[0], _get(call, 1, "symbols_map")
        if not _valid_map(m):
            mon.out_of_domain(name)
            return
        what = f"{describe_op(op)}.bind({describe_map(m)})"
        exp = _expected_params(op.params, m)
        if call.exc is not None:
            bad = [e for e, t in exp if t and isinstance(e, sympy.Expr) and e.is_number and e.is_real is False]
            if bad and isinstance(call.exc, ValueError):
                mon.ok(name)  # MultiPhaseOperation refuses non-real phases
            elif _is_k5(call.exc) and _numpy_in(tuple(op.params), m):
                mon.out_of_domain(name)
                mon.note("environment: sympy cannot ingest a numpy scalar (K5 signature)")
            else:
                mon.violation("bind-raises", f"{what} raised {call.exc!r}")
            return
        r = call.result
        if type(r) is not type(op) or tuple(r.qubit_indices) != tuple(op.qubit_indices):
            mon.violation("bind-operation-type", f"{what} -> {r!r}")
            return
        why = _judge_params(exp, tuple(r.params), _rng_for(what))
        if why:
            chained = any(_atoms(v) & set(m) for v in m.values() if isinstance(v, sympy.Basic))
            mon.violation("bind-chained-map" if chained else "bind-params", f"{what} -> {describe_op(r)}: {why}")
        else:
            mon.ok(name)
    return post


def _post_wf_replace(kind):
    name = f"{kind}.replace_params"

    def post(mon, call):
        op, new = call.args[0], _get(call, 1, "new_params")
        if not isinstance(new, tuple):
            mon.out_of_domain(name)
            return
        what = f"{describe_op(op)}.replace_params({new})"
        if call.exc is not None:
            if isinstance(call.exc, ValueError) and kind == "MultiPhaseOperation":
                mon.out_of_domain(name)
            else:
                mon.violation("replace-raises", f"{what} raised {call.exc!r}")
            return
        r = call.result
        ok = type(r) is type(op) and tuple(r.params) == new and all(type(x) is type(y) for x, y in zip(r.params, new)) \
            and (kind != "ResetOperation" or tuple(r.qubit_indices) == tuple(op.qubit_indices))
        if ok:
            mon.ok(name)
        else:
            mon.violation("replace-params", f"{what} -> {r!r}")
    return post


def _same_factory(f1, f2):
    """the two innermost gates are built by the same matrix factory (own comparison of custom definitions)"""
    if f1 is f2:
        return True
    if isinstance(f1, _G.CustomGateMatrixFactory) and isinstance(f2, _G.CustomGateMatrixFactory):
        d1, d2 = f1.gate_definition, f2.gate_definition
        return d1 is d2 or (d1.gate_name == d2.gate_name and tuple(d1.params_ordering) == tuple(d2.params_ordering)
                            and sympy.ImmutableMatrix(d1.matrix) == sympy.ImmutableMatrix(d2.matrix))
    return False


def gate_identity_mismatch(g, r):
    """None when r is the gate g up to the values of its parameters, else text.  Compared: arity, total number of
    control qubits, the innermost gate (name and matrix factory) and the parity of daggers - the latter only when
    the innermost gate does not declare itself hermitian (X.dagger is X, so the library may drop such a dagger)."""
    mods, b = _chain(g)
    if not isinstance(b, _G.MatrixFactoryGate):
        return None  # a gate kind of somebody else's making: not judged
    try:
        rmods, rb = _chain(r)
    except Exception:
        return f"{r!r} is not a gate"
    if not isinstance(rb, _G.MatrixFactoryGate) or not hasattr(r, "num_qubits"):
        return f"{r!r} is not a gate"
    if r.num_qubits != g.num_qubits:
        return f"acts on {r.num_qubits} qubits instead of {g.num_qubits}"
    if sum(k[1] for k in rmods if k[0] == "C") != sum(k[1] for k in mods if k[0] == "C"):
        return "number of control qubits changed"
    if rb.name != b.name or not _same_factory(rb.matrix_factory, b.matrix_factory) or rb.num_qubits != b.num_qubits:
        return f"innermost gate {describe_gate(b)} became {describe_gate(rb)}"
    if not b.is_hermitian and sum(k[0] == "D" for k in mods) % 2 != sum(k[0] == "D" for k in rmods) % 2:
        return "dagger lost or gained"
    return None


def _post_circuit_bind(mon, call):
    name = "Circuit.bind"
    c, m = call.args[0], _get(call, 1, "symbols_map")
    if not _valid_map(m):
        mon.out_of_domain(name)
        return
    what = f"{describe_circuit(c)}.bind({describe_map(m)})"
    refusing = any(isinstance(op, _G.GateOperation) and any(k[0] in "PE" for k in _chain(op.gate)[0]) for op in c.operations)
    if refusing:
        if isinstance(call.exc, NotImplementedError):
            mon.ok(name)
        elif call.exc is None:
            mon.violation("bind-unsupported-wrapper-silent", f"{what} returned a circuit instead of refusing")
        else:
            mon.note("Circuit.bind raised (judged at the operation)")
        return
    if call.exc is not None:
        mon.note("Circuit.bind raised (judged at the operation)")
        return
    r = call.result
    if type(r) is not type(c):
        mon.violation("circuit-bind-type", f"{what} -> {type(r).__name__}")
    elif r.n_qubits != c.n_qubits:
        mon.violation("circuit-bind-width", f"{what}: n_qubits {c.n_qubits} -> {r.n_qubits}")
    elif len(r.operations) != len(c.operations) or any(
            type(a) is not type(b) or tuple(a.qubit_indices) != tuple(b.qubit_indices)
            for a, b in zip(c.operations, r.operations)):
        mon.violation("circuit-bind-operations", f"{what} -> {describe_circuit(r)}")
    else:
        rng = _rng_for(what)
        for i, (a, b) in enumerate(zip(c.operations, r.operations)):
            if isinstance(a, _G.GateOperation):
                # every operation keeps ITS OWN gate (wrappers, innermost gate, arity); only parameter values change
                why = gate_identity_mismatch(a.gate, b.gate)
                if why is None and a.gate.num_qubits == len(a.qubit_indices) != b.gate.num_qubits:
                    why = f"a {b.gate.num_qubits}-qubit gate on qubits {tuple(b.qubit_indices)}"
                if why:
                    mon.violation("circuit-bind-gate-identity", f"{what}: operation {i} {describe_op(a)} -> "
                                  f"{describe_op(b)}: {why}")
                    return
            why = _judge_params(_expected_params(_op_params(a), m), tuple(_op_params(b)), rng)
            if why:
                chained = any(_atoms(v) & set(m) for v in m.values() if isinstance(v, sympy.Basic))
                mon.violation("bind-chained-map" if chained else "bind-params", f"{what}: operation {describe_op(a)} -> "
                              f"{describe_op(b)}: {why}")
                return
        mon.ok(name)


def install(mon, reach):
    global _G, _C, _O, _W
    from orquestra.quantum.circuits import _circuit as C
    from orquestra.quantum.circuits import _gates as G
    from orquestra.quantum.circuits import _operations as O
    from orquestra.quantum.circuits import _wavefunction_operations as W

    _G, _C, _O, _W = G, C, O, W
    mon.max_depth = 8  # Circuit.bind -> GateOperation.bind -> wrapper chain -> MatrixFactoryGate.bind -> sub_symbols
    reach.watch(getattr(O, "_sub_symbols_in_number", None), "sub_symbols[number]")
    reach.watch(getattr(O, "_sub_symbols_in_expression", None), "sub_symbols[expression]")
    reach.watch(getattr(O, "_sub_symbols_in_symbol", None), "sub_symbols[symbol]")
    reach.watch(O.get_free_symbols, "get_free_symbols")
    reach.watch(G.MatrixFactoryGate.bind, "MatrixFactoryGate.bind")
    reach.watch(G.ControlledGate.bind, "ControlledGate.bind")
    reach.watch(G.Dagger.bind, "Dagger.bind")
    reach.watch(G.Power.bind, "Power.bind")
    reach.watch(G.Exponential.bind, "Exponential.bind")
    reach.watch(G.GateOperation.bind, "GateOperation.bind")
    reach.watch(W.MultiPhaseOperation.bind, "MultiPhaseOperation.bind")
    reach.watch(W.ResetOperation.bind, "ResetOperation.bind")
    reach.watch(W.ResetOperation.replace_params, "ResetOperation.replace_params")
    reach.watch(C.Circuit.bind, "Circuit.bind")
    reach.watch(C.Circuit.free_symbols, "Circuit.free_symbols")
    reach.watch(getattr(G.CustomGateMatrixFactory, "__call__", None), "CustomGateMatrixFactory.__call__")

    # helpers of the private module _operations, exported by no package: optional (a tree may have moved them)
    mon.hook_func(O, "sub_symbols", post=_post_sub_symbols, name="sub_symbols", optional=True)
    mon.hook_func(O, "get_free_symbols", post=_post_get_free_symbols, name="get_free_symbols", optional=True)
    mon.hook_method(G.CustomGateMatrixFactory, "__call__", post=_post_custom_factory, name="custom-factory")
    for cls in (G.MatrixFactoryGate, G.ControlledGate, G.Dagger, G.Power, G.Exponential):
        mon.hook_method(cls, "bind", post=_post_gate_bind(cls.__name__), name=f"{cls.__name__}.bind")
        mon.hook_method(cls, "replace_params", post=_post_gate_replace(cls.__name__), name=f"{cls.__name__}.replace_params")
        mon.hook_method(cls, "free_symbols", post=_post_gate_free_symbols, name=f"{cls.__name__}.free_symbols")
    mon.hook_method(G.GateOperation, "bind", post=_post_gateop("bind"), name="GateOperation.bind")
    mon.hook_method(G.GateOperation, "replace_params", post=_post_gateop("replace_params"), name="GateOperation.replace_params")
    mon.hook_method(G.GateOperation, "free_symbols", post=_post_op_free_symbols, name="GateOperation.free_symbols")
    for cls in (W.MultiPhaseOperation, W.ResetOperation):
        mon.hook_method(cls, "bind", post=_post_wf_bind(cls.__name__), name=f"{cls.__name__}.bind")
        mon.hook_method(cls, "replace_params", post=_post_wf_replace(cls.__name__), name=f"{cls.__name__}.replace_params")
        mon.hook_method(cls, "free_symbols", post=_post_op_free_symbols, name=f"{cls.__name__}.free_symbols")
    mon.hook_method(C.Circuit, "bind", post=_post_circuit_bind, name="Circuit.bind")
    mon.hook_method(C.Circuit, "free_symbols", post=_post_circuit_free_symbols, name="Circuit.free_symbols")


# ============================================================================ generators
DEF_SYMBOLS = ["a", "b", "c", "omega", "kappa"]


def rand_def(rng, name="Foo", nq=None, nparams=None, syms=None):
    """custom gate definition with a symbolic matrix over 1-3 own symbols"""
    from orquestra.quantum.circuits import CustomGateDefinition

    nq = nq or rng.choice([1, 1, 2])
    nparams = nparams or rng.randint(1, 3)
    syms = syms or tuple(sympy.Symbol(n) for n in rng.sample(DEF_SYMBOLS, nparams))
    d = 2 ** nq
    if nq == 1 and rng.random() < 0.6:
        th = syms[0]
        ph = syms[1] if nparams > 1 else sympy.Rational(1, 3)
        lam = syms[2] if nparams > 2 else 0
        M = sympy.Matrix([
            [sympy.cos(th / 2), -sympy.exp(sympy.I * lam) * sympy.sin(th / 2)],
            [sympy.exp(sympy.I * ph) * sympy.sin(th / 2), sympy.exp(sympy.I * (ph + lam)) * sympy.cos(th / 2)]])
    elif rng.random() < 0.5:
        M = sympy.zeros(d, d)
        perm = list(range(d))
        rng.shuffle(perm)
        for i in range(d):
            M[perm[i], i] = sympy.exp(sympy.I * syms[i % nparams] * (i + 1))
    else:  # not unitary: every entry distinguishes the parameters (as the repository's own example gate)
        M = sympy.Matrix(d, d, lambda i, j: syms[(i + j) % nparams] * (i + 1) + (j + 1) * syms[(i * j) % nparams] ** 2)
    return CustomGateDefinition(gate_name=name, matrix=M, params_ordering=syms)


def _exotic_number(rng, where):
    """a number in an unusual spelling (numtypes class).  where: gate (any type, complex too) / phase (real) /
    value (real, moderate, a type that arithmetic with floats accepts) / bigvalue (value, exact integers beyond
    2**53 / 2**63 and tiny numbers as well)"""
    _MODE["drawn"] += 1
    r = rng.random()
    if where == "gate":
        kinds = NT.COMPLEX_KINDS if r < 0.12 else NT.EXTREME_KINDS if r < 0.27 else NT.REAL_KINDS
    elif where == "phase":
        kinds = NT.EXTREME_KINDS if r < 0.15 else NT.REAL_KINDS
    else:
        kinds = [k for k in NT.REAL_KINDS if k != "decimal"]
        if r < 0.12:
            kinds = ["tiny", "tiny_fraction"]
        elif r < 0.3 and where == "bigvalue":
            kinds = ["big_int", "big_fraction", "big_np_int"]
    return NT.rand_number(rng, kinds)


def rand_param(rng, symbols, style, where="gate"):
    """style: numeric / symbol / expr / any; expressions stay small (their matrices are evaluated by sympy)"""
    if style == "any":
        style = rng.choice(["numeric", "symbol", "expr", "expr"])
    if _MODE["exotic"] and (style == "numeric" or not symbols) and rng.random() < 0.85:
        return _exotic_number(rng, where)
    if style == "numeric" or not symbols:
        return GS.rand_number(rng, rng.choice(["float", "int", "rational", "pi", "sfloat", "float"]))
    if style == "symbol":
        return rng.choice(symbols)
    return GS.rand_expr(rng, symbols, rng.choice([1, 1, 2]), floats="short")


def rand_base_gate(rng, symbols, style, defs=None, max_nq=2):
    if defs:
        d = rng.choice(defs)
        own = list(d.params_ordering)
        args = []
        for _ in own:
            r = rng.random()
            if r < 0.35:  # arguments that mention the definition's own symbols (also swapped)
                args.append(rng.choice(own) if rng.random() < 0.6 else GS.rand_expr(rng, own, 1, floats="short"))
            else:
                args.append(rand_param(rng, symbols, style))
        if rng.random() < 0.15 and len(own) >= 2:
            args = list(reversed(own))
        return d(*args)
    tab = GC.builtin_table()
    names = sorted(n for n, e in tab.items() if e["nq"] <= max_nq and n != "U3")
    if rng.random() < 0.04:
        names = ["U3"]
    if style != "numeric":
        names = [n for n in names if tab[n]["kind"] == "param"] or names
    name = rng.choice(names)
    e = tab[name]
    if e["kind"] == "fixed":
        return e["ref"]
    return e["ref"](*[rand_param(rng, symbols, style) for _ in range(e["nparams"])])


def wrap(rng, gate, depth, allow_pe=False, max_arity=4):
    G = _G
    for _ in range(depth):
        kinds = ["controlled", "dagger", "dagger"] + (["power", "exp"] if allow_pe else [])
        kind = rng.choice(kinds)
        raw = rng.random() < 0.3
        if kind == "controlled" and gate.num_qubits < max_arity:
            k = rng.randint(1, min(2, max_arity - gate.num_qubits))
            gate = G.ControlledGate(gate, k) if raw else gate.controlled(k)
        elif kind == "power":
            ex = rng.choice([2, -1, 3, 0.5, 0])
            gate = G.Power(gate, ex) if raw else gate.power(ex)
        elif kind == "exp":
            gate = G.Exponential(gate) if raw else gate.exp
        else:
            gate = G.Dagger(gate) if raw else gate.dagger
    return gate


def gate_symbols(g):
    out = set()
    for p in _chain(g)[1].params:
        out |= _atoms(p)
    return out


def rand_value(rng, fresh, kind=None):
    if _MODE["exotic"] and kind in (None, "float", "int", "snum", "bigvalue") and rng.random() < 0.7:
        return _exotic_number(rng, "bigvalue" if kind == "bigvalue" else "value")
    if kind == "bigvalue":
        kind = None
    kind = kind or rng.choice(["float", "float", "int", "snum", "fresh", "expr"])
    if kind == "float":
        return rng.choice([rng.uniform(-6, 6), rng.uniform(-6, 6), 0.0, 1.0, math.pi, -0.5])
    if kind == "int":
        return rng.randint(-5, 5)
    if kind == "snum":
        return rng.choice([sympy.pi / 2, sympy.Rational(1, 3), sympy.Float(0.25), sympy.Integer(2), -sympy.pi])
    if kind == "fresh":
        return rng.choice(fresh)
    return GS.rand_expr(rng, fresh, 1, floats="short")


FRESH = ["u", "v", "w", "z_1"]


def rand_map(rng, used, kind=None, fresh=None, values=None):
    """symbol map over the symbols ``used``.  kind: empty / partial / total / superfluous / partial_extra /
    assumptions (same name, real=True: a different symbol, i.e. absent)"""
    used = sorted(used, key=_skey)
    fresh = fresh or [sympy.Symbol(n) for n in FRESH]
    kind = kind or rng.choice(["partial", "partial", "total", "total", "superfluous", "partial_extra", "empty", "assumptions"])
    if kind == "empty" or (not used and kind in ("partial", "total")):
        keys = []
    elif kind == "partial":
        keys = rng.sample(used, rng.randint(1, max(1, len(used) - 1))) if len(used) > 1 else []
    elif kind in ("total", "superfluous"):
        keys = list(used)
    elif kind == "partial_extra":
        keys = rng.sample(used, rng.randint(0, max(0, len(used) - 1)))
    else:
        keys = []
    rng.shuffle(keys)
    m = {k: rand_value(rng, fresh, values) for k in keys}
    if kind in ("superfluous", "partial_extra"):
        for n in rng.sample(["unused", "eta", "q_7"], rng.randint(1, 2)):
            m[sympy.Symbol(n)] = rand_value(rng, fresh, values)
    if kind == "assumptions" and used:
        for s in rng.sample(used, rng.randint(1, len(used))):
            m[sympy.Symbol(s.name, real=True)] = rand_value(rng, fresh, "float")
    return m, kind


def chained_map(rng, used, prefer=()):
    """values mention other keys: swaps, shifts, chains, feeds.  ``prefer``: symbols that occur inside compound
    (non-atomic) expression parameters - substitution by lookup cannot go wrong on a bare symbol, so the keys are
    drawn from these first"""
    used = sorted(used, key=_skey)
    if len(used) < 2:
        used = used + [sympy.Symbol("aux_k")]
    ks = rng.sample(used, rng.randint(2, min(3, len(used))))
    pref = [x for x in sorted(prefer, key=_skey) if x in used]
    if pref and rng.random() < 0.8:
        first = rng.choice(pref)
        ks = [first] + [k for k in ks if k != first][:max(1, len(ks) - 1)]
    style = rng.choice(["swap", "cycle", "chain", "self", "expr", "feed", "feed"])
    if style == "feed":
        # the value of one key is an EXPRESSION that mentions another key of the map (not the bare key itself), the
        # other key goes to something closed; which of the two sorts first varies (sympy orders a sequential
        # substitution by the keys' names)
        a, b = ks[0], ks[1]
        va = rng.choice([2 * b, b + 1, b ** 2, sympy.sin(b), b / 3 - 1, a + b, a * b])
        vb = rng.choice([1.0, 2, sympy.Rational(1, 3), sympy.Symbol("u"), sympy.Symbol("u") + 1, 0.5])
        items = [(a, va), (b, vb)]
        if rng.random() < 0.5:
            # a BIG map (an optimiser's whole parameter vector): 70 - 130 further entries for symbols the object does
            # not use - "extra symbols in the map are ignored", however many there are
            items += [(sympy.Symbol(f"unused_{j}"), round(rng.uniform(-3, 3), 3)) for j in range(rng.choice([70, 100, 130]))]
            style = "feed-big"
        rng.shuffle(items)
        return dict(items), style
    if style == "swap":
        m = {ks[0]: ks[1], ks[1]: ks[0]}
    elif style == "cycle":
        m = {k: ks[(i + 1) % len(ks)] for i, k in enumerate(ks)}
    elif style == "chain":
        m = {ks[0]: ks[1], ks[1]: rng.choice([sympy.Symbol("u"), 0.5, 2])}
    elif style == "self":
        m = {ks[0]: ks[0] + 1, ks[1]: 2 * ks[1]}
    else:
        m = {ks[0]: ks[1] * 2 + 1, ks[1]: ks[0] - sympy.Rational(1, 2)}
    items = list(m.items())
    if rng.random() < 0.35:
        items += [(sympy.Symbol(f"unused_{j}"), round(rng.uniform(-3, 3), 3)) for j in range(rng.choice([70, 100, 130]))]
        style += "-big"
    rng.shuffle(items)
    return dict(items), style


def is_nontrivial(params, m, used):
    expr = any(isinstance(p, sympy.Expr) and not p.is_Atom for p in params)
    partial = bool(used) and bool(set(m) & set(used)) and not set(used) <= set(m)
    return expr or partial


def rand_ops(rng, n_ops, symbols, width, defs=None, nongate=0.0, wrapped=0.4):
    ops = []
    for _ in range(n_ops):
        r = rng.random()
        if r < nongate:
            if rng.random() < 0.6 and width <= 3:
                ops.append(_W.MultiPhaseOperation(tuple(
                    rand_param(rng, symbols, rng.choice(["numeric", "symbol", "expr"]), "phase") for _ in range(2 ** width))))
            else:
                ops.append(_W.ResetOperation(rng.randrange(width)))
            continue
        fit = [d for d in (defs or []) if _def_width(d) <= width]
        g = rand_base_gate(rng, symbols, rng.choice(["symbol", "expr", "any", "numeric"]),
                           fit if (fit and rng.random() < 0.5) else None, max_nq=min(2, width))
        if rng.random() < wrapped and g.num_qubits < width:
            g = wrap(rng, g, rng.randint(1, 2), max_arity=min(width, 3))
        ops.append(g(*GC.rand_qubits(rng, g.num_qubits, width)))
    return ops


def _gate_key(g):
    """what a gate IS (wrappers, innermost gate, typed parameters) - own identity, for telling siblings apart"""
    mods, b = _chain(g)
    f = getattr(b, "matrix_factory", None)
    fid = id(f.gate_definition) if isinstance(f, _G.CustomGateMatrixFactory) else id(f)
    return (tuple(mods), getattr(b, "name", None), fid,
            tuple((type(p).__name__, sympy.srepr(p) if isinstance(p, sympy.Basic) else repr(p)) for p in b.params))


def sibling_tally(ops):
    """collisions among the DIFFERENT gates of a list of operations: which non-unique keys they share"""
    gates = {}
    for op in ops:
        if isinstance(op, _G.GateOperation):
            gates.setdefault(_gate_key(op.gate), op.gate)
    gs = list(gates.values())
    out = set()
    for i, g1 in enumerate(gs):
        for g2 in gs[i + 1:]:
            try:
                same_params = tuple(g1.params) == tuple(g2.params)
            except Exception:
                same_params = False
            if same_params and g1.name == g2.name:
                out.add("equal name and parameters")
            elif same_params:
                out.add("equal parameters")
            if str(g1) == str(g2):
                out.add("equal text")
    if len({id(op.gate) for op in ops if isinstance(op, _G.GateOperation)}) < \
            sum(isinstance(op, _G.GateOperation) for op in ops):
        out.add("one gate object on several operations")
    return sorted(out)


def plain_circuit(rng, symbols, max_ops=6):
    """circuit of independently drawn operations"""
    from orquestra.quantum.circuits import Circuit

    width = rng.randint(1, 3) if rng.random() < 0.8 else rng.randint(4, 5)
    defs = [rand_def(rng, "Foo")] if rng.random() < 0.3 else None
    nongate = 0.15 if rng.random() < 0.3 else 0.0
    ops = rand_ops(rng, rng.randint(1, max_ops), symbols, width, defs, nongate)
    if rng.random() < 0.25:  # all-symbolic circuit: the sympy circuit matrix is obtainable
        ops = [op for op in ops if isinstance(op, _G.GateOperation) and gate_symbols(op.gate)] or \
            [rand_base_gate(rng, symbols, "symbol", None, 1)(0)]
    return Circuit(ops, n_qubits=width + (rng.randint(0, 2) if rng.random() < 0.3 else 0)) if rng.random() < 0.7 else Circuit(ops)


def sibling_circuit(rng, symbols, max_ops=6):
    """circuit of sibling gates (rv.gen.siblings) sharing 1-2 parameter values, with a few unrelated operations"""
    from orquestra.quantum.circuits import Circuit

    width = rng.choice([2, 3, 3, 3, 4])
    style = rng.choice(["symbol", "symbol", "expr", "expr", "numeric", "any"])
    shared = [rand_param(rng, symbols, style) for _ in range(rng.choice([1, 1, 2]))]
    # (rv.gen.siblings builds twins of float subclasses through sympy.Float, which cannot ingest a numpy.float64)
    shared = [np.float32(p) if type(p) is np.float64 else p for p in shared]
    if rng.random() < 0.25:
        shared.append(SB.twin_param(rng, shared[0]))
    defs = None
    if rng.random() < 0.45:  # two definitions under one name (a circuit holding both cannot be serialised, but binds)
        d1 = rand_def(rng, "Foo")
        order = tuple(d1.params_ordering)
        d2 = rand_def(rng, "Foo", _def_width(d1), len(order), tuple(reversed(order)) if rng.random() < 0.3 else order)
        defs = [d1, d2]
    ops = SB.sibling_ops(rng, width, shared, rng.randint(2, max_ops), defs)
    for _ in range(rng.choice([0, 0, 1, 2])):
        ops.insert(rng.randint(0, len(ops)), rand_ops(rng, 1, symbols, width, None, nongate=0.3)[0])
    extra = rng.randint(1, 2) if rng.random() < 0.2 else 0
    c = Circuit(ops, n_qubits=width + extra) if extra or rng.random() < 0.5 else Circuit(ops)
    return c, sibling_tally(c.operations)


# ============================================================================ driver checks
def _numeric_assign(symbols, rng):
    return {s: rng.uniform(0.3, 2.7) for s in sorted(symbols, key=_skey)}


def _gate_np(g, assign):
    M = g.matrix
    if assign:
        M = M.xreplace({k: sympy.Float(v, 20) for k, v in assign.items()})
    return _matrix_at(M, None)


def _ref_unitary(circuit, assign, pre_map=None):
    """product of the per-gate matrices placed by the reference embedding; pre_map is applied to every
    symbolic gate matrix first (evaluate-then-substitute)"""
    n = circuit.n_qubits
    U = np.eye(2 ** n, dtype=complex)
    for op in circuit.operations:
        M = op.gate.matrix
        if pre_map:
            M = M.xreplace(pre_map)
        if assign:
            M = M.xreplace({k: sympy.Float(v, 20) for k, v in assign.items()})
        U = L.embed(_matrix_at(M, None), tuple(op.qubit_indices), n) @ U
    return U


def check_circuit_unitary(ctx, c, m, bound):
    """bound.to_unitary() vs the symbolic to_unitary() of c with the map applied afterwards"""
    if c.n_qubits > 3 or not c.operations or not all(isinstance(op, _G.GateOperation) and _cheap_matrix(op.gate)
                                                     for op in c.operations):
        return
    rng = ctx.rng
    if _numpy_in(m, *[tuple(_op_params(op)) for op in c.operations]):
        ctx.mon.note("circuit-unitary skipped: numpy scalars among the parameters / values (environment: their gate "
                     "matrices are not computable)")
        return
    if any(NT.is_exotic(p) for op in c.operations for p in _op_params(op)):
        try:  # can the matrix factories evaluate numbers of these types at all (Decimal does not mix with float)?
            for op in c.operations:
                op.gate.matrix
        except TypeError:
            ctx.mon.note("circuit-unitary skipped: a matrix factory cannot evaluate a parameter of an unusual numeric type")
            return
    all_symbolic = all(gate_symbols(op.gate) for op in c.operations)
    b_symbolic = [bool(gate_symbols(op.gate)) for op in bound.operations]
    remaining = set()
    for op in bound.operations:
        remaining |= gate_symbols(op.gate)
    for op in c.operations:  # what SHOULD remain (own substitution), in case the two disagree
        for p in _op_params(op):
            remaining |= _atoms(own_sub(p, m))
    assign = _numeric_assign(remaining, rng)
    fassign = {k: sympy.Float(v, 20) for k, v in assign.items()}
    smap = _smap(m)
    if all_symbolic and (all(b_symbolic) or not any(b_symbolic)):
        ctx.mon.note("circuit-unitary via to_unitary()")
        U0 = c.to_unitary()
        E = _matrix_at(sympy.Matrix(U0).xreplace(smap).xreplace(fassign), None)
        UB = bound.to_unitary()
        B = _matrix_at(sympy.Matrix(UB).xreplace(fassign), None) if isinstance(UB, sympy.MatrixBase) else np.asarray(UB, dtype=complex)
    else:
        ctx.mon.note("circuit-unitary via per-gate matrices + reference embedding (mixed circuit, K5)")
        E = _ref_unitary(c, assign, smap)
        B = _ref_unitary(bound, assign)
    d = L.maxdiff(E, B)
    scale = 1.0
    if not d <= 1e-9:
        # custom gates need not be unitary: the rounding error of a product of matrices grows with the product of
        # their norms, so the tolerance is relative to that product (1 for a circuit of unitary gates)
        try:
            for op in bound.operations:
                scale *= max(1.0, float(np.linalg.norm(_gate_np(op.gate, assign), 2)))
        except Exception:
            scale = 1.0
        if scale > 1.0 + 1e-6:
            ctx.mon.note("circuit-unitary: tolerance scaled by the product of the gate norms (non-unitary custom gates)")
    ctx.check("circuit-unitary", d <= 1e-9 * scale, lambda: f"{describe_circuit(c)} bound with {describe_map(m)}: circuit "
              f"matrix after binding differs by {d:.3g} (tolerance 1e-9 x {scale:.3g}) from the symbolic matrix with the "
              f"map applied (at {assign})")


def _same_ops(c1, c2, rng):
    if c1.n_qubits != c2.n_qubits or len(c1.operations) != len(c2.operations):
        return "different shape"
    for a, b in zip(c1.operations, c2.operations):
        if type(a) is not type(b) or tuple(a.qubit_indices) != tuple(b.qubit_indices):
            return f"{describe_op(a)} vs {describe_op(b)}"
        pa, pb = _op_params(a), _op_params(b)
        if len(pa) != len(pb):
            return f"{describe_op(a)} vs {describe_op(b)}"
        if isinstance(a, _G.GateOperation):
            why = gate_identity_mismatch(a.gate, b.gate)
            if why:
                return f"{describe_op(a)} vs {describe_op(b)}: {why}"
        for x, y in zip(pa, pb):
            if NT.is_number(x) or NT.is_number(y):
                ok = (NT.is_number(x) or isinstance(x, sympy.Expr)) and (NT.is_number(y) or isinstance(y, sympy.Expr)) \
                    and not _atoms(x) and not _atoms(y)
                if not ok or abs(_val(x, None) - _val(y, None)) > 1e-10 * max(1, abs(_val(x, None))):
                    return f"{describe_op(a)} vs {describe_op(b)}"
                continue
            why = cmp_param(x, y, rng, True)
            if why:
                return f"{describe_op(a)} vs {describe_op(b)}: {why}"
    return None


class _Lookup(dict):
    """a user's dict subclass (no behaviour of its own)"""


def _map_variant(rng, m):
    """the same map as another kind of dict: a subclass, an OrderedDict, a defaultdict (which INSERTS a key
    when it is looked up with [] instead of .get / in)"""
    import collections

    kind = rng.choice(["subclass", "ordered", "defaultdict", "defaultdict"])
    if kind == "subclass":
        return _Lookup(m)
    if kind == "ordered":
        return collections.OrderedDict(m)
    d = collections.defaultdict(float)
    d.update(m)
    return d


def _direct_helpers(obj, m):
    """the substitution and free-symbol helpers are also asked DIRECTLY about the object's parameters and the map
    (the hooks judge): whether bind() reaches them through this module, another one or not at all is the library's
    business, what they answer when called is not"""
    from orquestra.quantum.circuits import _operations as OPS

    sub, free = getattr(OPS, "sub_symbols", None), getattr(OPS, "get_free_symbols", None)
    try:
        if isinstance(obj, _G.GateOperation) or hasattr(obj, "qubit_indices"):
            plist = [tuple(_op_params(obj))]
        elif hasattr(obj, "operations"):
            plist = [tuple(_op_params(op)) for op in obj.operations[:4]]
        else:
            plist = [tuple(_chain(obj)[1].params)]
    except Exception:
        return
    for params in plist:
        if free is not None:
            try:
                free(params)
            except Exception:
                pass  # recorded by the hook
        if sub is not None:
            for p in params[:3]:
                try:
                    sub(p, m)
                except Exception:
                    pass


def _bind(obj, m, expect_refusal=False):
    """obj.bind(m); the hooks judge.  Returns the result or None when the library raised."""
    ctx = _MODE["ctx"]
    _direct_helpers(obj, m)
    passed = m
    if ctx is not None and ctx.rng.random() < 0.4:  # numtypes: the map handed over as another kind of dict
        passed = _map_variant(ctx.rng, m)
        ctx.mon.note(f"map passed as {type(passed).__name__}")
    try:
        return obj.bind(passed)
    except NotImplementedError:
        return None
    except Exception:
        return None  # recorded by the hook on the raising method
    finally:
        if passed is not m:
            # the hooks judged against the map as it is after the call; it must still be the map that was passed
            same = list(passed.keys()) == list(m.keys()) and all(passed[k] is m[k] for k in m)
            ctx.check("absent-untouched", same, lambda: f"binding {describe_map(m)} passed as a {type(passed).__name__} "
                      f"left the caller's map as {describe_map(passed)}: symbols absent from the map were looked up as "
                      f"if they were present")


def _envfix(m, params):
    """numtypes, environment: sympy 1.9 cannot ingest numpy floats, so a numpy float may only be the value of a
    symbol that is substituted by lookup (a bare-symbol parameter).  When the object has an expression parameter,
    numpy floats among the values are respelled (same value, a float subclass that sympy accepts)."""
    if not _MODE["exotic"]:
        return m
    if not any(isinstance(p, sympy.Expr) and not isinstance(p, sympy.Symbol) and _atoms(p) for p in params):
        return m
    for k in list(m):  # (sympy's subs converts every value of the map, also those of symbols that do not occur)
        if isinstance(m[k], np.floating):
            m[k] = NT.AngleFloat(float(m[k]))
    return m


def _snapshot(c):
    """what the circuit consists of when it is built (operations are immutable; the list is copied)"""
    return [(op, type(op), tuple(op.qubit_indices), tuple(_op_params(op))) for op in c.operations]


def _against_snapshot(snap, n_qubits, bound, m, rng):
    """None when ``bound`` is the snapshotted circuit with the map substituted (own substitution), else text"""
    if bound.n_qubits != n_qubits or len(bound.operations) != len(snap):
        return f"{len(snap)} operations on {n_qubits} qubits became {len(bound.operations)} on {bound.n_qubits}"
    for i, ((op, typ, qs, params), b) in enumerate(zip(snap, bound.operations)):
        if type(b) is not typ or tuple(b.qubit_indices) != qs:
            return f"operation {i}: {describe_op(op)} -> {describe_op(b)}"
        if isinstance(op, _G.GateOperation):
            why = gate_identity_mismatch(op.gate, b.gate)
            if why:
                return f"operation {i}: {describe_op(op)} -> {describe_op(b)}: {why}"
        why = _judge_params(_expected_params(params, m), tuple(_op_params(b)), rng)
        if why:
            return f"operation {i}: {describe_op(op)} -> {describe_op(b)}: {why}"
    return None


def _twin_value(rng, v):
    """the same value in another numeric type (for symbol maps)"""
    if NT.is_exotic(v) or (_MODE["exotic"] and NT.is_number(v)):
        _MODE["drawn"] += 1
        return NT.twin(rng, v)
    return SB.twin_value(rng, v)


def _describe(ctx, text, nontrivial):
    """numtypes: the case is non-trivial when a number of an unusual type was drawn into it"""
    if _MODE["exotic"]:
        ctx.describe(_MODE["tag"] + text, _MODE["drawn"] > 0)
    else:
        ctx.describe(text, nontrivial)


def run_rebind(ctx, symbols):
    """history class: the SAME objects are bound several times - other values under the same keys, the first map
    again, the same values as other numeric types, one dict object changed in place between two calls - then their
    gates are shared with a second circuit and the circuit is extended.  Every call is judged by the monitors against
    the object as it is at the call; the driver judges every result against the parameters the object was built with."""
    from orquestra.quantum.circuits import Circuit

    rng = ctx.rng
    sib = rng.random() < 0.5
    if sib:
        c, tally = sibling_circuit(rng, symbols, max_ops=4)
    else:
        c, tally = plain_circuit(rng, symbols, max_ops=4), []
    snap, n_qubits, text = _snapshot(c), c.n_qubits, describe_circuit(c)
    used = set()
    for _, _, _, params in snap:
        for p in params:
            used |= _atoms(p)
    fresh = [sympy.Symbol(n) for n in FRESH]
    steps = ["other-values", "again", "twin-values", "dict-changed-in-place", "shared-gates", "extended"]
    steps = [s for s in steps if rng.random() < 0.6] or ["other-values"]
    m1, mk = rand_map(rng, used, rng.choice(["total", "total", "partial", "superfluous", "partial_extra"]),
                      values=rng.choice([None, None, "float", "int", "snum"]))
    if "twin-values" in steps and rng.random() < 0.7:
        # values that have twins under == AND hash: 2 == 2.0 == Integer(2)
        m1 = {k: rng.choice([int, float, sympy.Integer])(rng.randint(-5, 5)) for k in m1}
    m2 = {k: rand_value(rng, fresh) for k in m1}
    m1t = {k: _twin_value(rng, v) for k, v in m1.items()}
    late, late_symbol = None, sympy.Symbol("late_s")
    lrng = _rng_for(text, "late")  # (own stream: drawn after the fact, the cases of the other steps stay what they were)
    if lrng.random() < 0.4:
        e = lrng.choice([late_symbol, 2 * late_symbol, late_symbol + (sorted(used, key=_skey)[0] if used else 1)])
        late = GC.builtin_table()[lrng.choice(SB.one_param_names(1))]["ref"](e)(lrng.randrange(n_qubits))
    all_params = [p for _, _, _, params in snap for p in params]
    for mm in (m1, m2, m1t):
        _envfix(mm, all_params)
    gate_ops = [op for op in c.operations if isinstance(op, _G.GateOperation)]
    target = rng.choice(["circuit", "circuit", "circuit", "operation", "gate"]) if gate_ops else "circuit"
    _describe(ctx, f"rebind[{target}{'; siblings' if sib else ''}]: {text} bind[{mk}] {describe_map(m1)}, then "
              f"{', '.join(steps)} (other values {describe_map(m2)}; twin values {describe_map(m1t)})"
              + (f"; then {describe_op(late)} appended in place" if late is not None and target == "circuit" else ""),
              bool(set(m1) & used) and len(steps) > 0)
    for t in tally:
        ctx.mon.note(f"siblings: different gates with {t}")
    for s in steps:
        ctx.mon.note(f"rebind step: {s}")
    if target == "circuit" and late is not None:
        ctx.mon.note("rebind step: operations-appended-in-place")

    if target != "circuit":
        op = rng.choice(gate_ops)
        obj = op if target == "operation" else op.gate
        g = op.gate
        base_params = tuple(_chain(g)[1].params)
        g_text = describe_gate(g)

        def judge(res, m, label):
            if res is None:
                return
            rg = res.gate if target == "operation" else res
            why = gate_identity_mismatch(g, rg) or _judge_params(_expected_params(base_params, m),
                                                                tuple(_chain(rg)[1].params), _rng_for(text, label))
            ctx.check("rebind", why is None, lambda: f"{describe_gate(g)} bound with {describe_map(m)} ({label}, after "
                      f"earlier binds of the same object): {describe_gate(rg)}: {why}")

        judge(_bind(obj, m1), m1, "first")
        for s in steps:
            if s == "other-values":
                judge(_bind(obj, m2), m2, s)
            elif s == "again":
                judge(_bind(obj, dict(m1)), m1, s)
            elif s == "twin-values":
                judge(_bind(obj, m1t), m1t, s)
            elif s == "dict-changed-in-place":
                md = dict(m1)
                judge(_bind(obj, md), dict(md), s + " (before)")
                md.update(m2)
                judge(_bind(obj, md), dict(md), s + " (after)")
            else:  # a sibling of the gate (same innermost parameters, other wrappers) bound right after it
                inner = _chain(g)[1]
                w = rng.choice([w for w in SB.WRAPPERS if inner.num_qubits + SB._EXTRA[w] <= 4])
                g2 = SB.apply_wrapper(inner, w)
                r2 = _bind(g2, m2)
                if r2 is not None:
                    why = gate_identity_mismatch(g2, r2) or _judge_params(
                        _expected_params(base_params, m2), tuple(_chain(r2)[1].params), _rng_for(text, s, w))
                    ctx.check("rebind", why is None, lambda: f"{describe_gate(g2)} bound with {describe_map(m2)} after "
                              f"binding its sibling {describe_gate(g)}: {describe_gate(r2)}: {why}")
        ctx.check("rebind", describe_gate(g) == g_text and all(x is y for x, y in zip(_chain(g)[1].params, base_params)),
                  lambda: f"the gate changed under binding: {g_text} -> {describe_gate(g)}")
        return

    def judge(res, m, label, sn=snap, nq=n_qubits, txt=text):
        if res is None:
            return
        why = _against_snapshot(sn, nq, res, m, _rng_for(txt, label))
        ctx.check("rebind", why is None, lambda: f"{txt} bound with {describe_map(m)} ({label}, after earlier binds of "
                  f"the same circuit) gives {describe_circuit(res)}: {why}")

    fs0 = list(c.free_symbols)
    first = _bind(c, m1)
    judge(first, m1, "first")
    for s in steps:
        if s == "other-values":
            judge(_bind(c, m2), m2, s)
        elif s == "again":
            again = _bind(c, dict(m1))
            judge(again, m1, s)
            if first is not None and again is not None:
                why = _same_ops(first, again, rng)
                ctx.check("rebind", why is None, lambda: f"{text}: binding {describe_map(m1)} a second time gives "
                          f"{describe_circuit(again)}, the first time {describe_circuit(first)}: {why}")
        elif s == "twin-values":
            judge(_bind(c, m1t), m1t, s)
        elif s == "dict-changed-in-place":
            md = dict(m1)
            judge(_bind(c, md), dict(md), s + " (before)")
            md.update(m2)
            judge(_bind(c, md), dict(md), s + " (after)")
        elif s == "shared-gates" and gate_ops:
            # the same gate objects on other qubits of another circuit, bound with the other values
            w2 = max(op.gate.num_qubits for op in gate_ops) + rng.randint(0, 1)
            ops2 = [op.gate(*GC.rand_qubits(rng, op.gate.num_qubits, w2)) for op in reversed(gate_ops)]
            c2 = Circuit(ops2, n_qubits=w2 + rng.randint(0, 1))
            judge(_bind(c2, m2), m2, s, _snapshot(c2), c2.n_qubits, describe_circuit(c2))
        elif s == "extended" and gate_ops:
            # a longer circuit that starts with the same operations and ends with a sibling of one of them
            inner = _chain(rng.choice(gate_ops).gate)[1]
            fit = [w for w in SB.WRAPPERS if inner.num_qubits + SB._EXTRA[w] <= max(n_qubits, inner.num_qubits)]
            g3 = SB.apply_wrapper(inner, rng.choice(fit))
            c3 = c + g3(*GC.rand_qubits(rng, g3.num_qubits, max(n_qubits, g3.num_qubits)))
            list(c3.free_symbols)
            judge(_bind(c3, m1), m1, s, _snapshot(c3), c3.n_qubits, describe_circuit(c3))
    # the circuit itself is what it was
    now = _snapshot(c)
    same = c.n_qubits == n_qubits and len(now) == len(snap) and all(
        a[0] is b[0] or (a[1] is b[1] and a[2] == b[2] and describe_op(a[0]) == describe_op(b[0])) for a, b in zip(snap, now))
    ctx.check("rebind", same and describe_circuit(c) == text and list(c.free_symbols) == fs0,
              lambda: f"the circuit changed under binding: {text} -> {describe_circuit(c)}, free symbols {fs0} -> "
              f"{list(c.free_symbols)}")
    if late is not None:
        # the list that c.operations handed out grows by an operation with a symbol of its own (the caller's doing,
        # on the caller's object): what the SAME circuit object reports and binds afterwards is judged against the
        # operations it holds now - nothing remembered from the calls above may survive
        c.operations.append(late)
        snap2, text2 = _snapshot(c), describe_circuit(c)
        fs2 = list(c.free_symbols)
        want = set(fs0) | gate_symbols(late.gate)
        ctx.check("rebind", set(fs2) == want, lambda: f"{text2} (an operation appended to the list c.operations handed "
                  f"out, after free_symbols / bind calls on the same circuit) reports free symbols {fs2}, its "
                  f"parameters depend on {sorted(map(str, want))}")
        mlate = dict(m1)
        mlate[late_symbol] = rng.choice([0.75, 2, sympy.Rational(1, 3)])
        judge(_bind(c, mlate), mlate, "operations-appended-in-place", snap2, c.n_qubits, text2)


NONASCII = ["\u03b8", "\u03c6_1", "\u03bb", "\u03b2\u2082", "\u00f1u", "\u89d2\u5ea6", "\u0394t"]
NUMTYPES_FLOWS = ["gate", "gate", "wrapped", "custom", "nongate", "nongate", "circuit", "circuit", "siblings", "twostep",
                  "rebind"]


def run_case(ctx):
    if ctx.cls != "numtypes":
        return _run_flow(ctx, ctx.cls)
    # the flows of the other classes with numeric parameters and map values spelled in other numeric types
    # (Fraction, Decimal, numpy integers and floats, mpmath, int / float subclasses, complex, integers beyond
    # 2**63, tiny and huge floats), maps passed as other kinds of dict, some non-ASCII symbol names
    flow = ctx.rng.choice(NUMTYPES_FLOWS)
    _MODE.update(exotic=True, tag=f"numtypes/", drawn=0, ctx=ctx)
    try:
        return _run_flow(ctx, flow)
    finally:
        _MODE.update(exotic=False, tag="", drawn=0, ctx=None)


def _run_flow(ctx, cls):
    from orquestra.quantum.circuits import Circuit

    rng = ctx.rng
    G, W = _G, _W
    symbols = GS.symbol_pool(rng, rng.randint(2, 4), rng.choice(["plain", "plain", "shadow", "any"]))
    if _MODE["exotic"] and rng.random() < 0.3:
        symbols = symbols[:2] + [sympy.Symbol(n) for n in rng.sample(NONASCII, 2)]
        rng.shuffle(symbols)
    if cls in ("gate", "wrapped", "custom"):
        defs = [rand_def(rng, rng.choice(["Foo", "V", "Rot"]))] if cls == "custom" else None
        g = rand_base_gate(rng, symbols, rng.choice(["symbol", "expr", "expr", "any"]), defs)
        if cls == "wrapped" or (cls == "custom" and rng.random() < 0.4):
            g = wrap(rng, g, rng.randint(1, 3))
        used = gate_symbols(g)
        m, mk = rand_map(rng, used)
        params = _chain(g)[1].params
        _envfix(m, params)
        _describe(ctx, f"{cls}: {describe_gate(g)} bind[{mk}] {describe_map(m)}", is_nontrivial(params, m, used))
        as_op = rng.random() < 0.5
        obj = g(*GC.rand_qubits(rng, g.num_qubits, g.num_qubits + 1)) if as_op else g
        if cls == "custom" and _cheap_matrix(g):
            try:
                g.matrix  # observed by the custom-matrix-factory monitor
            except Exception:
                pass
        b = _bind(obj, m)
        if b is not None:
            list(b.free_symbols)
            list(obj.free_symbols)
            if cls == "custom" and _cheap_matrix(g):
                try:
                    (b.gate if as_op else b).matrix
                except Exception:
                    pass
            bg = b.gate if as_op else b
            left = set().union(*[_atoms(own_sub(p, m)) for p in params]) if params else set()
            ctx.check("absent-untouched", left == gate_symbols(bg), lambda: f"{describe_gate(g)}.bind({describe_map(m)}) "
                      f"should still depend on {sorted(map(str, left))}: {describe_gate(bg)}")
            if rng.random() < 0.5:
                new = tuple(rand_param(rng, symbols, "any") for _ in params)
                try:
                    obj.replace_params(new)
                except Exception:
                    pass
        return
    if cls == "nongate":
        if rng.random() < 0.7:
            nq = rng.randint(1, 3)
            op = W.MultiPhaseOperation(tuple(rand_param(rng, symbols, rng.choice(["numeric", "symbol", "expr"]), "phase")
                                             for _ in range(2 ** nq)))
        else:
            op = W.ResetOperation(rng.randrange(5))
        used = set().union(*[_atoms(p) for p in op.params]) if op.params else set()
        m, mk = rand_map(rng, used or set(symbols[:1]),
                         values=rng.choice([None, "float", "int"] + (["bigvalue"] * 2 if _MODE["exotic"] else [])))
        _envfix(m, op.params)
        _describe(ctx, f"nongate: {describe_op(op)} bind[{mk}] {describe_map(m)}", is_nontrivial(op.params, m, used))
        b = _bind(op, m)
        list(op.free_symbols)
        if b is not None:
            list(b.free_symbols)
            if isinstance(op, W.MultiPhaseOperation) and not list(b.free_symbols) and \
                    all((NT.is_real_number(p) and abs(complex(p)) < 1e6) if NT.is_number(p) else
                        (p.is_real and abs(_val(p, None)) < 1e6) for p in b.params) and \
                    all(abs(_val(own_sub(p, m), None)) < 1e6 for p in op.params):
                # meaning: the bound operation multiplies by exp(i * theta_k) with the substituted values
                v = L.random_state(ctx.nprng, len(op.params))
                exp = np.array([np.exp(1j * _val(own_sub(p, m), None).real) for p in op.params]) * v
                got = b.apply(v)
                ctx.check("multiphase-apply", L.maxdiff(exp, got) <= 1e-9,
                          lambda: f"{describe_op(op)} bound with {describe_map(m)} applies {got} instead of {exp}")
        try:
            op.replace_params(tuple(op.params))
            if isinstance(op, W.MultiPhaseOperation):
                op.replace_params(tuple(rand_param(rng, symbols, "any", "phase") for _ in op.params))
        except Exception:
            pass
        if _MODE["exotic"] and isinstance(op, W.ResetOperation):
            # a reset that carries parameters (what replace_params gives) binds like every other operation
            carried = op.replace_params(tuple(rand_param(rng, symbols, rng.choice(["numeric", "symbol", "expr"]), "phase")
                                              for _ in range(rng.randint(1, 3))))
            mc, _ = rand_map(rng, set().union(*[_atoms(p) for p in carried.params]) or set(symbols[:1]))
            _envfix(mc, carried.params)
            ctx.mon.note("reset operation carrying parameters bound")
            bc = _bind(carried, mc)
            if bc is not None:
                left = set().union(*[_atoms(own_sub(p, mc)) for p in carried.params])
                ctx.check("absent-untouched", left == set(bc.free_symbols), lambda: f"{describe_op(carried)}.bind("
                          f"{describe_map(mc)}) should still depend on {sorted(map(str, left))}: {describe_op(bc)}")
        return
    if cls == "rebind":
        return run_rebind(ctx, symbols)
    if cls in ("circuit", "chained", "twostep", "siblings"):
        tally, tag = None, ""
        if cls == "siblings":  # the three circuit flows on circuits of colliding gates
            cls = rng.choice(["circuit", "circuit", "circuit", "twostep", "chained"])
            c, tally = sibling_circuit(rng, symbols)
            tag = f"siblings[{'; '.join(tally) or 'none'}]/"
            for t in tally:
                ctx.mon.note(f"siblings: different gates with {t}")
        else:
            c = plain_circuit(rng, symbols)
        used = set()
        for op in c.operations:
            for p in _op_params(op):
                used |= _atoms(p)
        params = [p for op in c.operations for p in _op_params(op)]
        if cls == "circuit":
            m, mk = rand_map(rng, used)
            _envfix(m, params)
            _describe(ctx, f"{tag}circuit: {describe_circuit(c)} bind[{mk}] {describe_map(m)}",
                      is_nontrivial(params, m, used) if tally is None else bool(tally))
            list(c.free_symbols)
            b = _bind(c, m)
            if b is not None:
                fs = list(b.free_symbols)
                left = set().union(*[_atoms(own_sub(p, m)) for p in params]) if params else set()
                ctx.check("absent-untouched", left == set(fs), lambda: f"{describe_circuit(c)}.bind({describe_map(m)}) "
                          f"should still depend on {sorted(map(str, left))}: reports {fs}")
                check_circuit_unitary(ctx, c, m, b)
            return
        if cls == "chained":
            compound = [p for p in params if isinstance(p, sympy.Expr) and not p.is_Atom and _atoms(p)]
            if not compound or rng.random() < 0.4:
                # make sure the circuit holds a compound expression over two symbols: a bare-symbol parameter is
                # substituted by lookup, only an expression goes through sympy's substitution
                from orquestra.quantum.circuits import RZ, Circuit

                pool = sorted(used, key=_skey) or list(symbols[:2])
                s1 = rng.choice(pool)
                s2 = rng.choice([x for x in pool if x != s1] or [sympy.Symbol("aux_k")])
                e = rng.choice([s1 + s2, s1 * s2, 2 * s1 - s2 / 3, s1 + 0.25, sympy.sin(s1) + s2, s1 ** 2, s1 - s2])
                c = Circuit(list(c.operations) + [RZ(e)(rng.randrange(max(1, c.n_qubits)))], n_qubits=max(1, c.n_qubits))
                used |= {s1, s2}
                params.append(e)
                compound.append(e)
            m, style = chained_map(rng, used or set(symbols), prefer=set().union(*[_atoms(p) for p in compound]))
            _describe(ctx, f"{tag}chained[{style}]: {describe_circuit(c)} bind {describe_map(m)}", True)
            ctx.tag("chained")
            b = _bind(c, m)
            if b is not None:
                list(b.free_symbols)
                check_circuit_unitary(ctx, c, m, b)
            return
        # two-step vs one-step binding with disjoint maps whose values do not mention any key
        ul = sorted(used, key=_skey)
        rng.shuffle(ul)
        cut = rng.randint(0, len(ul))
        fresh = [sympy.Symbol(n) for n in FRESH]
        m1 = {k: rand_value(rng, fresh) for k in ul[:cut]}
        m2 = {k: rand_value(rng, fresh) for k in ul[cut:] if rng.random() < 0.8}
        if rng.random() < 0.3:
            m2[sympy.Symbol("unused")] = 1.5
        _envfix(m1, params)
        _envfix(m2, params)
        _describe(ctx, f"{tag}twostep: {describe_circuit(c)} bind {describe_map(m1)} then {describe_map(m2)}",
                  (is_nontrivial(params, m1, used) or is_nontrivial(params, m2, used)) if tally is None else bool(tally))
        b1 = _bind(c, m1)
        b12 = _bind(b1, m2) if b1 is not None else None
        once = _bind(c, {**m1, **m2})
        if b12 is not None and once is not None:
            why = _same_ops(once, b12, rng)
            ctx.check("two-step", why is None, lambda: f"{describe_circuit(c)}: binding {describe_map(m1)} then "
                      f"{describe_map(m2)} gives {describe_circuit(b12)}, binding once gives {describe_circuit(once)}: {why}")
            ctx.check("two-step", list(once.free_symbols) == list(b12.free_symbols),
                      lambda: f"free symbols differ: {once.free_symbols} vs {b12.free_symbols}")
        return
    if cls == "refuse":
        base = rand_base_gate(rng, symbols, "numeric", None)
        kind = rng.choice(["alone", "alone", "controlled", "dagger", "circuit", "deep"])
        pe = G.Power(base, rng.choice([2, 0.5, -1, 3])) if rng.random() < 0.5 else G.Exponential(base)
        if rng.random() < 0.3:
            pe = base.power(rng.choice([2, 0.5])) if rng.random() < 0.5 else base.exp
        g = pe
        if kind == "controlled":
            g = rng.choice([G.ControlledGate(pe, 1), pe.controlled(rng.randint(1, 2))])
        elif kind == "dagger":
            g = rng.choice([G.Dagger(pe), pe.dagger])
        elif kind == "deep":
            g = wrap(rng, pe, rng.randint(1, 3), allow_pe=True, max_arity=5)
        m, mk = rand_map(rng, set(symbols), rng.choice(["partial", "total", "empty", "superfluous"]))
        ctx.describe(f"refuse[{kind}]: {describe_gate(g)} bind[{mk}] {describe_map(m)}", True)
        if kind == "circuit":
            others = rand_ops(rng, rng.randint(0, 3), symbols, 3)
            ops = others + [g(*GC.rand_qubits(rng, g.num_qubits, 3))]
            rng.shuffle(ops)
            target = Circuit(ops)
        else:
            target = g(*GC.rand_qubits(rng, g.num_qubits, g.num_qubits)) if rng.random() < 0.4 else g
        try:
            r = target.bind(m)
        except NotImplementedError:
            ctx.check("refusal", True)
        except Exception as e:
            ctx.check("refusal", False, f"{describe_gate(g)}.bind raised {e!r} instead of NotImplementedError")
        else:
            ctx.check("refusal", False, f"binding a {'circuit with a ' if kind == 'circuit' else ''}power/exponential "
                      f"gate {describe_gate(g)} returned {r} instead of refusing")
        list(g.free_symbols)
        try:
            g.replace_params(tuple(GS.rand_number(rng, "float") for _ in _chain(g)[1].params))
        except Exception:
            pass
        return
    raise ValueError(cls)
