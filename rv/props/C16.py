"""C16 - time-evolution circuits implement exp(-i t H) term by term, and its derivative."""
import itertools
import math
import random
import zlib

import numpy as np
import sympy

from ..core import Exhausted
from ..gen.circuits import to_np
from ..ref import linalg as L
from ..ref import pauli as P

ID = "C16"
LEVEL = "exploration"
RULE = (
    "seeded generator by input class: term_exh = every Pauli string over {I,X,Y,Z} on 2 (quick) / 3 (thorough) "
    "qubits, identity included, each with 6 (coefficient, time) variants (random floats, negative, integer, "
    "symbolic time, expression / sympy-number time, boundary times 0, pi/(2c), 1e3, 1e-9); term_rand = random "
    "strings on up to 5 (quick) / 7 (thorough) qubits with gaps, permuted qubit order, three constructors; "
    "term_heavy = strings of weight 5, 6, 7, 8 (9, 10 thorough) in turn, mixed / all-Z / all-X / all-Y / one X or Y among "
    "Z, qubits shuffled and optionally spread, numeric time, half of the lighter ones again inside a two-term sum; "
    "term_imag = coefficients with imaginary part +-{1e-12, 1e-3, 0.5} and purely imaginary ones; sum = 1-4 "
    "terms (duplicates, constants, non-commuting pairs), 1-4 steps, numeric and symbolic time; deriv = 1-3 "
    "terms, 1-3 steps, numeric and symbolic time, non-zero real coefficients. non-trivial: term with >=2 "
    "non-identity factors one of which is X or Y (basis change + CNOT ladder); imaginary-part case on a "
    "non-constant term; sum with a non-commuting pair of terms; derivative with >=2 steps or a non-commuting "
    "pair; distinct = distinct canonical case strings"
)
ASSUMPTIONS = [
    "oracle = scipy.linalg.expm on rv.ref.pauli dense matrices; the circuit matrix is the ordered product of each "
    "gate's own .matrix placed by rv.ref.linalg.embed (never Circuit.to_unitary); tolerance 1e-9 per entry",
    "symbolic time is judged by substituting two fixed real values into each gate's sympy matrix",
    "derivative oracle: exact derivative of the reference product formula (sum over positions with the generator "
    "-i c_k/steps P_k inserted), cross-checked inside the monitor against a 5-point stencil (h=1e-3); compared "
    "at 1e-6 * (|O| * sum|factor| + 1) for 2 random Hermitian observables x 3 states (|0..0> and 2 random)",
    "'non-negligible imaginary part' is read with a grey zone: |imag| <= 1e-10 must be accepted as real, "
    "|imag| >= 1e-6 must be rejected, in between no verdict (the library's own threshold is 1e-9)",
    "zero coefficients are outside the derivative workload (the parameter shift pi/(4r) divides by the coefficient); "
    "coefficients and times are Python numbers or sympy objects, never numpy scalars",
]
DECIDING = ["term", "term.constant", "term.reject-imag", "sum", "derivatives"]
BRANCHES = ["time_evolution_for_term:X-basis", "time_evolution_for_term:Y-basis",
            "time_evolution_for_term:constant", "time_evolution_for_term:reject",
            "time_evolution_derivatives:multi-step"]
EXHAUSTIVE = {
    "term_exh": "every Pauli string over {I,X,Y,Z} on 2 (quick) / 3 (thorough) qubits, identity included, "
                "x 6 (coefficient, time) variants",
}
BUDGET = {"quick": (4, 30, 700), "thorough": (16, 150, 6000)}
CASE_TIMEOUT = {"quick": 15, "thorough": 40}

TOL = 1e-9
IMAG_NEGLIGIBLE = 1e-10
IMAG_SIGNIFICANT = 1e-6
MAX_JUDGED = 7  # qubits actually touched (the oracle's register holds only those, see _compact)


def classes(tier):
    return ["term_exh", "term_rand", "term_imag", "sum", "deriv", "history", "term_heavy"]


# ----------------------------------------------------------------------------- oracle helpers
def _is_num(x):
    return isinstance(x, (int, float)) and not isinstance(x, bool)


def _coeff_ok(c):
    return isinstance(c, (int, float, complex)) and not isinstance(c, bool) and math.isfinite(abs(c))


def _term_view(term):
    """(sorted ops list, coefficient) or None when outside the oracle's domain"""
    if type(term).__name__ != "PauliTerm":
        return None
    c = term.coefficient
    if not _coeff_ok(c):
        return None
    ops = sorted((int(q), str(o)) for q, o in term.operations)
    return ops, c


def _ham_view(h):
    if type(h).__name__ not in ("PauliTerm", "PauliSum"):
        return None
    out = []
    for t in h.terms:
        v = _term_view(t)
        if v is None:
            return None
        out.append(v)
    return out


def _width(views):
    w = 0
    for ops, _ in views:
        for q, _o in ops:
            w = max(w, q + 1)
    return w


def _assignments(time):
    """list of (substitution dict or None, float value of time); None when
    ``time`` is outside the oracle's domain"""
    if _is_num(time):
        return [(None, float(time))] if math.isfinite(time) else None
    if isinstance(time, sympy.Expr):
        syms = sorted(time.free_symbols, key=lambda s: s.name)
        if not syms:
            try:
                return [(None, float(time))]
            except TypeError:
                return None
        r = random.Random(zlib.crc32(",".join(s.name for s in syms).encode()))
        out = []
        for _ in range(2):
            sub = {s: sympy.Float(round(r.uniform(-2.5, 2.5), 6)) for s in syms}
            try:
                v = float(time.xreplace(sub))
            except TypeError:
                return None
            out.append((sub, v))
        return out
    return None


_MAT_CACHE = {}


def _gate_matrix(gate, sub):
    """numeric matrix of the library gate (its own .matrix, taken as given)"""
    if sub is not None and gate.free_symbols:
        return to_np(gate.matrix.xreplace(sub))
    key = repr(gate)
    m = _MAT_CACHE.get(key)
    if m is None:
        m = to_np(gate.matrix)
        if len(_MAT_CACHE) < 5000:
            _MAT_CACHE[key] = m
    return m


def _foreign_symbols(circuits, assigns):
    """symbols that a returned circuit depends on and the time that was passed does not mention (as OBJECTS: a symbol
    that merely prints like the time's is another symbol) - the circuit's matrix is then not a function of t at all"""
    known = set()
    for sub, _t in assigns:
        if sub:
            known |= set(sub)
    out = set()
    for c in circuits:
        try:
            out |= {x for x in c.free_symbols if x not in known}
        except Exception:
            pass
    return sorted(out, key=str)


def _circuit_matrix(circuit, n, sub=None, qmap=None):
    """ordered product of the circuit's gates, placed by the reference embedding (qubit q of the circuit is qubit
    qmap[q] of the judged register)"""
    U = np.eye(2**n, dtype=complex)
    for op in circuit.operations:
        qs = tuple(op.qubit_indices) if qmap is None else tuple(qmap[q] for q in op.qubit_indices)
        U = L.embed(_gate_matrix(op.gate, sub), qs, n) @ U
    return U


def _compact(views, circuits):
    """The judged register holds exactly the qubits that the operator or any returned circuit touches, in ascending
    order; every other qubit is idle on both sides of the comparison (identity there), so it is left out.  This makes
    the oracle independent of how high the qubit indices are (terms on qubits 3 and 11 are judged on 2 qubits).
    -> (views with relabelled qubits, {qubit: position}, number of judged qubits)"""
    used = {q for ops, _ in views for q, _o in ops}
    for c in circuits:
        for op in c.operations:
            used.update(int(q) for q in op.qubit_indices)
    order = sorted(used)
    qmap = {q: i for i, q in enumerate(order)}
    return [([(qmap[q], o) for q, o in ops], c) for ops, c in views], qmap, max(1, len(order))


def _circuit_width(circuit):
    w = int(circuit.n_qubits)
    for op in circuit.operations:
        w = max(w, max(op.qubit_indices) + 1)
    return w


def _exp_term(ops, c, tau, n):
    return L.expm(-1j * tau * P.string_matrix(ops, c, n))


def _product_formula(views, t, steps, n):
    """(prod_k exp(-i t/steps c_k P_k), first listed term applied first) ** steps"""
    step = np.eye(2**n, dtype=complex)
    for ops, c in views:
        if ops:
            step = _exp_term(ops, c.real, t / steps, n) @ step
    return np.linalg.matrix_power(step, steps)


def _real(c):
    return abs(complex(c).imag) <= IMAG_NEGLIGIBLE


def _significant_imag(c):
    return abs(complex(c).imag) >= IMAG_SIGNIFICANT


def _show_term(ops, c):
    return f"{c!r}*" + ("*".join(f"{o}{q}" for q, o in ops) or "I")


# ----------------------------------------------------------------------------- monitors
def _get(call, i, name, default=None):
    if len(call.args) > i:
        return call.args[i]
    return call.kwargs.get(name, default)


def _post_term(mon, call):
    name = "term"
    term, time = _get(call, 0, "term"), _get(call, 1, "time")
    view = _term_view(term)
    assigns = _assignments(time)
    if view is None or assigns is None:
        mon.out_of_domain(name)
        return
    ops, c = view
    what = f"time_evolution_for_term({_show_term(ops, c)}, {time!r})"
    if not ops:
        # constant term: empty circuit (the statement puts this before the coefficient rule)
        if not _real(c):
            mon.out_of_domain(name)
            return
        if call.exc is not None:
            mon.violation("constant-term-raises", f"{what} raised {call.exc!r}")
        elif len(call.result.operations) != 0:
            mon.violation("constant-term-not-empty", f"{what} -> {call.result!r}")
        else:
            mon.ok("term.constant")
        return
    if _significant_imag(c):
        if call.exc is None:
            mon.violation(
                "imag-accepted-negative" if complex(c).imag < 0 else "imag-accepted-positive",
                f"{what}: coefficient with imaginary part {complex(c).imag!r} accepted -> {call.result!r}",
            )
        elif not isinstance(call.exc, Exception):
            mon.out_of_domain(name)
        else:
            mon.note(f"reject-imag:{type(call.exc).__name__}")
            mon.ok("term.reject-imag")
        return
    if not _real(c):
        mon.out_of_domain(name)  # grey zone of "non-negligible"
        return
    if call.exc is not None:
        mon.violation("term-raises", f"{what} raised {call.exc!r}")
        return
    circuit = call.result
    [(cops, _c)], qmap, n = _compact([view], [circuit])
    if n > MAX_JUDGED:
        mon.out_of_domain(name)
        return
    fs = _foreign_symbols([circuit], assigns)
    if fs:
        mon.violation("term-matrix", f"{what}: the circuit depends on {[sympy.srepr(x) for x in fs]}, which the time passed does not mention")
        return
    for sub, tval in assigns:
        got = _circuit_matrix(circuit, n, sub, qmap)
        exp = _exp_term(cops, complex(c).real, tval, n)
        d = L.maxdiff(got, exp)
        if not d <= TOL:
            extra = ""
            if L.equal_up_to_phase(got, exp):
                extra = " (equal up to a global phase)"
            mon.violation(
                "term-matrix",
                f"{what} at t={tval!r}: circuit {circuit!r} differs from expm(-i t c P) by {d:.3e}{extra}",
            )
            return
    mon.note("term:symbolic-time" if assigns[0][0] is not None else "term:numeric-time")
    mon.ok(name)


def _post_sum(mon, call):
    name = "sum"
    ham, time = _get(call, 0, "hamiltonian"), _get(call, 1, "time")
    method, steps = _get(call, 2, "method", "Trotter"), _get(call, 3, "n_steps", 1)
    views = _ham_view(ham) if ham is not None else None
    assigns = _assignments(time)
    if (views is None or assigns is None or method != "Trotter"
            or not (isinstance(steps, int) and not isinstance(steps, bool) and steps >= 1)):
        mon.out_of_domain(name)
        return
    what = f"time_evolution([{', '.join(_show_term(o, c) for o, c in views)}], {time!r}, n_steps={steps})"
    nonconst = [(o, c) for o, c in views if o]
    if any(_significant_imag(c) for _, c in nonconst):
        if call.exc is None:
            mon.violation("sum-imag-accepted", f"{what}: a term with a complex coefficient was accepted")
        else:
            mon.ok("sum.reject-imag")
        return
    if not all(_real(c) for _, c in views):
        mon.out_of_domain(name)
        return
    if call.exc is not None:
        mon.violation("sum-raises", f"{what} raised {call.exc!r}")
        return
    circuit = call.result
    cviews, qmap, n = _compact(views, [circuit])
    if n > MAX_JUDGED:
        mon.out_of_domain(name)
        return
    fs = _foreign_symbols([circuit], assigns)
    if fs:
        mon.violation("sum-matrix" if steps == 1 else "sum-matrix-steps",
                      f"{what}: the circuit depends on {[sympy.srepr(x) for x in fs]}, which the time passed does not mention")
        return
    for sub, tval in assigns:
        got = _circuit_matrix(circuit, n, sub, qmap)
        exp = _product_formula(cviews, tval, steps, n)
        d = L.maxdiff(got, exp)
        if not d <= TOL:
            mon.violation(
                "sum-matrix" if steps == 1 else "sum-matrix-steps",
                f"{what} at t={tval!r}: circuit differs from the ordered product of per-term exponentials "
                f"at t/steps by {d:.3e}",
            )
            return
    mon.note(f"sum:steps={steps}")
    mon.note(f"sum:terms={len(views)}")
    mon.ok(name)


def _reference_derivative(views, t, steps, n):
    """U(t) and dU/dt of the reference product formula (exact)"""
    gens = []
    for _ in range(steps):
        for ops, c in views:
            if ops:
                gens.append(P.string_matrix(ops, c.real, n))
    facs = [L.expm(-1j * (t / steps) * G) for G in gens]
    dim = 2**n
    prefix = [np.eye(dim, dtype=complex)]
    for F in facs:
        prefix.append(F @ prefix[-1])
    U = prefix[-1]
    dU = np.zeros((dim, dim), dtype=complex)
    suffix = np.eye(dim, dtype=complex)
    for j in range(len(facs) - 1, -1, -1):
        # factor j: exp(-i t/steps G_j); d/dt = (-i/steps) G_j exp(...)
        dU += suffix @ ((-1j / steps) * gens[j]) @ prefix[j + 1]
        suffix = suffix @ facs[j]
    return U, dU


def _post_deriv(mon, call):
    name = "derivatives"
    ham, time = _get(call, 0, "hamiltonian"), _get(call, 1, "time")
    method, steps = _get(call, 2, "method", "Trotter"), _get(call, 3, "n_steps", 1)
    views = _ham_view(ham) if ham is not None else None
    assigns = _assignments(time)
    if (views is None or assigns is None or method != "Trotter" or not views
            or not (isinstance(steps, int) and not isinstance(steps, bool) and steps >= 1)):
        mon.out_of_domain(name)
        return
    if any(not _real(c) or complex(c).real == 0 for _, c in views):
        mon.out_of_domain(name)  # the shift divides by the coefficient; complex ones are the term hook's business
        return
    what = (f"time_evolution_derivatives([{', '.join(_show_term(o, c) for o, c in views)}], {time!r}, "
            f"n_steps={steps})")
    if call.exc is not None:
        mon.violation("derivatives-raise", f"{what} raised {call.exc!r}")
        return
    try:
        circuits, factors = call.result
        circuits, factors = list(circuits), [float(f) for f in factors]
    except Exception as e:
        mon.violation("derivatives-shape", f"{what} returned {call.result!r} ({e!r})")
        return
    if len(circuits) != len(factors):
        mon.violation("derivatives-shape", f"{what}: {len(circuits)} circuits but {len(factors)} factors")
        return
    views, qmap, n = _compact(views, circuits)
    if n > MAX_JUDGED:
        mon.out_of_domain(name)
        return
    dim = 2**n
    rng = np.random.default_rng(zlib.crc32(what.encode()))
    observables = []
    for _ in range(2):
        A = rng.normal(size=(dim, dim)) + 1j * rng.normal(size=(dim, dim))
        observables.append((A + A.conj().T) / 2)
    zero = np.zeros(dim, dtype=complex)
    zero[0] = 1
    states = [zero, L.random_state(rng, dim), L.random_state(rng, dim)]
    fsum = sum(abs(f) for f in factors)
    fs = _foreign_symbols(circuits, assigns)
    if fs:
        mon.violation("derivative-mismatch", f"{what}: the circuits depend on {[sympy.srepr(x) for x in fs]}, which the time passed does not mention")
        return
    for sub, tval in assigns:
        U, dU = _reference_derivative(views, tval, steps, n)
        mats = [_circuit_matrix(c, n, sub, qmap) for c in circuits]
        for O in observables:
            onorm = float(np.linalg.norm(O, 2))
            for psi in states:
                exp = 2 * float(np.real(np.vdot(U @ psi, O @ (dU @ psi))))
                # cross-check of the oracle itself: 5-point stencil on the reference
                h = 1e-3
                f = {}
                for k in (-2, -1, 1, 2):
                    v = _product_formula(views, tval + k * h, steps, n) @ psi
                    f[k] = float(np.real(np.vdot(v, O @ v)))
                sten = (f[-2] - 8 * f[-1] + 8 * f[1] - f[2]) / (12 * h)
                if abs(sten - exp) > 1e-5 * (onorm * 50 + 1):
                    raise RuntimeError(f"oracle self-check failed: analytic {exp!r} vs stencil {sten!r}")
                got = 0.0
                for fk, V in zip(factors, mats):
                    v = V @ psi
                    got += fk * float(np.real(np.vdot(v, O @ v)))
                if not abs(got - exp) <= 1e-6 * (onorm * fsum + 1):
                    kind = "derivative-mismatch" if steps == 1 else "derivative-mismatch-steps"
                    if steps >= 2 and _full_time_signature(views, tval, steps, n, mats, factors):
                        kind = "derivative-unshifted-steps-at-full-time"
                    mon.violation(
                        kind,
                        f"{what} at t={tval!r}: sum_k factor_k <O>_k = {got!r} but d/dt <O> under the "
                        f"{steps}-step evolution circuit = {exp!r} (|O|={onorm:.3f}, {len(factors)} circuits)",
                    )
                    return
    mon.note(f"deriv:steps={steps}")
    mon.note(f"deriv:terms={len(views)}")
    mon.ok(name)


def _full_time_signature(views, t, steps, n, mats, factors):
    """Diagnosis only (names the violation kind, never decides): do the
    returned circuits equal the ones in which the parameter-shifted step is
    correct but every other step evolves for the FULL time t instead of
    t/steps, with the factors +-c_k/steps?"""
    m = len(views)
    if len(mats) != 2 * m * steps:
        return False
    full = _product_formula(views, t, 1, n)
    k = 0
    for pos in range(steps):
        for i, (ops_i, c_i) in enumerate(views):
            for sign in (1.0, -1.0):
                r = c_i.real / steps
                if abs(factors[k] - sign * r) > 1e-12:
                    return False
                shifted = np.eye(2**n, dtype=complex)
                for j, (ops, c) in enumerate(views):
                    if not ops:
                        continue
                    tau = (t + sign * math.pi / (4 * r)) / steps if i == j else t / steps
                    shifted = _exp_term(ops, c.real, tau, n) @ shifted
                pred = np.eye(2**n, dtype=complex)
                for s in range(steps):
                    pred = (shifted if s == pos else full) @ pred
                if L.maxdiff(mats[k], pred) > 1e-8:
                    return False
                k += 1
    return True


def install(mon, reach):
    from orquestra.quantum import evolution as E

    reach.watch(E.time_evolution_for_term, "time_evolution_for_term", markers={
        "X-basis": r"basis_change \+= H\(", "Y-basis": r"basis_change \+= RX\(", "constant": r"return circuit\s*$",
        "reject": r"raise ValueError", "central-RZ": r"central_gate\s*="})
    reach.watch(E.time_evolution, "time_evolution")
    reach.watch(E.time_evolution_derivatives, "time_evolution_derivatives",
                markers={"multi-step": r"repeated_circuit\s*=", "single-step": r"return single_trotter_derivatives"})
    reach.watch(getattr(E, "_generate_circuit_sequence", None), "_generate_circuit_sequence")
    mon.hook_func(E, "time_evolution_for_term", post=_post_term, name="time_evolution_for_term")
    mon.hook_func(E, "time_evolution", post=_post_sum, name="time_evolution")
    mon.hook_func(E, "time_evolution_derivatives", post=_post_deriv, name="time_evolution_derivatives")


# ----------------------------------------------------------------------------- generators
def _commute(ops_a, ops_b):
    da, db = dict(ops_a), dict(ops_b)
    anti = sum(1 for q in da if q in db and da[q] != db[q])
    return anti % 2 == 0


def _nontrivial_ops(ops):
    return len(ops) >= 2 and any(o in "XY" for _, o in ops)


def rand_real_coeff(rng, lo=0.05, hi=2.0):
    r = rng.random()
    if r < 0.2:
        return rng.choice([1, -1, 2, -2, 3])
    v = rng.uniform(lo, hi) * rng.choice([1, -1])
    if r < 0.3:
        return round(v, 2)
    if r < 0.4:
        return complex(v, 0.0)
    return v


def rand_time(rng, symbolic=0.25):
    r = rng.random()
    if r < symbolic:
        k = rng.random()
        nm_ = rng.choice(["t", "time", "tau", "theta", "beta_1"])
        # the time symbol as an application declares it: plain, with assumptions (a time is real, often positive), or
        # a Dummy - symbols that PRINT alike and are different objects
        t = rng.choice([sympy.Symbol(nm_), sympy.Symbol(nm_), sympy.Symbol(nm_, real=True), sympy.Symbol(nm_, positive=True),
                        sympy.Dummy(nm_)])
        if k < 0.6:
            return t
        if k < 0.8:
            return 2 * t - sympy.Float(0.3)
        return t / 3 + sympy.Symbol("s")
    if r < symbolic + 0.08:
        return rng.choice([sympy.pi / 3, sympy.Rational(3, 7), sympy.Float(0.625), -sympy.pi / 5])
    if r < symbolic + 0.2:
        return rng.choice([1, -1, 2, 3, 0, -4])
    if r < symbolic + 0.3:
        return rng.choice([0.0, math.pi, -math.pi / 2, math.pi / 4, 1e-9, 1e3, -250.5])
    return rng.uniform(-3, 3)


def rand_ops(rng, width, kmin=1, kmax=None):
    kmax = kmax or width
    k = rng.randint(kmin, min(kmax, width))
    qs = rng.sample(range(width), k)
    return {q: rng.choice("XYZ") for q in qs}  # insertion order = random qubit order


HIGH = list(range(0, 14)) + [15, 16, 17, 23, 24, 31, 32, 33, 40, 63, 64, 65, 100]


def spread(rng, list_of_ops):
    """the same operators on other qubit labels: one injective relabelling of the qubits 0..w-1 of a case into indices
    up to 100 (not order preserving), so that gaps, two-digit labels, and indices whose set / dict iteration order
    is not ascending (8 and above next to smaller ones) occur; the oracle's register holds only the touched qubits"""
    used = sorted({q for ops in list_of_ops for q in ops})
    if not used:
        return list_of_ops
    pool = HIGH if rng.random() < 0.5 else list(range(0, 13))
    new = rng.sample(pool, len(used))
    m = dict(zip(used, new))
    return [{m[q]: o for q, o in ops.items()} for ops in list_of_ops]


def make_term(rng, ops, c, how=None):
    """PauliTerm through one of its three constructors"""
    from orquestra.quantum.operators import PauliTerm

    how = how or rng.choice(["dict", "dict", "string", "iterable"])
    if how == "string" and isinstance(c, float) and ops:
        body = "*".join(f"{o}{q}" for q, o in ops.items())
        try:
            term = PauliTerm(f"{c!r}*{body}")
        except ValueError:
            term = None
        if term is not None and term.coefficient == c and dict(term.operations) == dict(ops):
            return term, "string"
    if how == "iterable" and ops:
        return PauliTerm.from_iterable([(o, q) for q, o in ops.items()], c), "iterable"
    return PauliTerm(dict(ops) if ops else {0: "I"}, c), "dict"


def _fmt_ops(ops):
    return "*".join(f"{o}{q}" for q, o in ops.items()) or "I"


# ----------------------------------------------------------------------------- cases
def run_case(ctx):
    from orquestra.quantum.evolution import time_evolution, time_evolution_derivatives, time_evolution_for_term
    from orquestra.quantum.operators import PauliSum

    rng = ctx.rng
    cls = ctx.cls
    mon = ctx.mon

    if cls == "term_exh":
        K = 2 if ctx.quick else 3
        strings = ["".join(s) for s in itertools.product("IXYZ", repeat=K)]
        nvar = 6
        if ctx.index >= len(strings) * nvar:
            raise Exhausted()
        s, var = strings[ctx.index // nvar], ctx.index % nvar
        ops = {q: o for q, o in enumerate(s) if o != "I"}
        c = rng.uniform(0.1, 2.0)
        t = rng.uniform(0.1, 3.0)
        if var == 1:
            c, t = -c, -t * rng.choice([1, 0.5])
        elif var == 2:
            c, t = rng.choice([1, -1, 2, -3]), rng.choice([1, 2, -1, 5])
        elif var == 3:
            t = sympy.Symbol("t")
        elif var == 4:
            t = rng.choice([2 * sympy.Symbol("tau") - sympy.Float(0.3), sympy.pi / 3, sympy.Rational(3, 7),
                            sympy.Symbol("t") / 3 + sympy.Symbol("s")])
        elif var == 5:
            t = rng.choice([0, 0.0, math.pi / (2 * c), 1e3, 1e-9, -math.pi / c])
        term, how = make_term(rng, ops, c, "dict")
        ctx.describe(f"term_exh {s} c={c!r} t={t!r}", _nontrivial_ops(list(ops.items())))
        mon.note("term-ops:" + "".join(sorted(set(s) - {"I"})) if ops else "term-ops:identity")
        time_evolution_for_term(term, t)
        return

    if cls == "term_rand":
        width = rng.randint(1, 5 if ctx.quick else 7)
        ops = rand_ops(rng, width, kmax=4 if ctx.quick else 5)
        if rng.random() < 0.04:
            ops = {}
        if rng.random() < 0.35:
            [ops] = spread(rng, [ops])
            mon.note("term-spread")
        c = rand_real_coeff(rng)
        if rng.random() < 0.1:
            c = complex(c.real if isinstance(c, complex) else c, rng.choice([1e-12, -1e-12, 1e-13, 0.0]))
        t = rand_time(rng)
        term, how = make_term(rng, ops, c)
        ctx.describe(f"term_rand {how} {_fmt_ops(ops)} c={c!r} t={t!r}", _nontrivial_ops(list(ops.items())))
        mon.note(f"term-constructor:{how}")
        mon.note(f"term-weight:{len(ops)}")
        time_evolution_for_term(term, t)
        return

    if cls == "term_heavy":
        # Pauli strings of weight 5 - 8 (9, 10 thorough): every weight in turn (powers of two and the numbers between
        # them), mixed X / Y / Z, all-Z, all-X, on neighbouring or spread qubits in any order
        weights = [5, 6, 7, 8] if ctx.quick else [5, 6, 7, 8, 9, 10]
        k = weights[ctx.index % len(weights)]
        style = rng.choice(["mixed", "mixed", "all-Z", "all-X", "all-Y", "one-X"])
        qs = list(range(k))
        rng.shuffle(qs)
        if style == "mixed":
            ops = {q: rng.choice("XYZ") for q in qs}
        elif style == "one-X":
            ops = {q: "Z" for q in qs}
            ops[rng.choice(qs)] = rng.choice("XY")
        else:
            ops = {q: style[-1] for q in qs}
        if rng.random() < 0.4:
            [ops] = spread(rng, [ops])
            mon.note("term-spread")
        c = rand_real_coeff(rng)
        t = rand_time(rng, symbolic=0.0)
        term, how = make_term(rng, ops, c)
        ctx.describe(f"term_heavy {how} {_fmt_ops(ops)} c={c!r} t={t!r}", True)
        mon.note(f"term-weight:{len(ops)}")
        time_evolution_for_term(term, t)
        if k <= 6 and rng.random() < 0.5:
            # the same heavy term inside a sum next to a light one, two steps
            other, _ = make_term(rng, {rng.choice(sorted(ops)): rng.choice("XYZ")}, rand_real_coeff(rng))
            from orquestra.quantum.operators import PauliSum

            time_evolution(PauliSum([term, other]), t, n_steps=rng.choice([1, 2]))
        return

    if cls == "term_imag":
        width = rng.randint(1, 4)
        ops = rand_ops(rng, width)
        re = rng.choice([0.0, 1.0, -1.0, rng.uniform(-2, 2), rng.uniform(0.1, 1), 2.0, -40.0, 150.0, 1e4])
        # imaginary parts from clearly negligible (1e-12) over "small next to the real part" (a relative tolerance would
        # let 150+1e-3j or 2+1e-5j pass; the library's limit is the absolute 1e-9) to dominant
        im = rng.choice([1e-12, -1e-12, 1e-3, -1e-3, 0.5, -0.5, 1.0, -1.0, rng.uniform(0.01, 2), -rng.uniform(0.01, 2),
                         1e-5, -1e-5, 1e-6, -3e-7, 1e-7, -2e-8])
        if abs(im) <= 1e-10 and re == 0.0:
            re = 0.7
        c = complex(re, im)
        t = rand_time(rng, symbolic=0.15)
        term, how = make_term(rng, ops, c, "dict")
        ctx.describe(f"term_imag {_fmt_ops(ops)} c={c!r} t={t!r}", True)
        mon.note("imag:" + ("negligible" if abs(im) <= 1e-10 else ("positive" if im > 0 else "negative")))
        try:
            time_evolution_for_term(term, t)
        except ValueError:
            pass
        return

    if cls == "history":
        # several requests in one process that agree in everything a too-coarse memo key could look at
        # (Pauli string, hash bucket / tolerance-equality of the coefficient, time, object identity) and
        # differ by more than the oracle's tolerance; every call is judged by the hooks
        width = rng.randint(1, 3)
        ops = rand_ops(rng, width)
        c = rng.choice([0.5, 1.0, -0.75, rng.uniform(0.2, 1.5)])
        t = rng.choice([1.0, rng.uniform(0.5, 3.0), -2.0, 1e3])
        near_c = [c, c + 2e-7, c * (1 + 3e-6), c - 4e-7, -c, c]
        near_t = [t, t + 1e-6, t * (1 + 1e-7), -t, 2 * t, t]
        other = dict(ops)
        q = rng.choice(sorted(other))
        other[q] = rng.choice([o for o in "XYZ" if o != other[q]])
        if rng.random() < 0.25:
            ops, other = spread(rng, [ops, other])
        mode = rng.choice(["coeff", "time", "ops", "object", "sum", "deriv", "mutate", "mutate"])
        ctx.describe(f"history {mode} {_fmt_ops(ops)} c={c!r} t={t!r} other={_fmt_ops(other)}", True)
        mon.note(f"history:{mode}")
        if mode == "coeff":
            for cc in near_c:
                time_evolution_for_term(make_term(rng, ops, cc, "dict")[0], t)
        elif mode == "time":
            term = make_term(rng, ops, c, "dict")[0]
            for tt in near_t:
                time_evolution_for_term(term, tt)
        elif mode == "ops":
            for o in (ops, other, ops):
                time_evolution_for_term(make_term(rng, o, c, "dict")[0], t)
        elif mode == "object":
            term = make_term(rng, ops, c, "dict")[0]
            first = time_evolution_for_term(term, t)
            first.operations.clear() if rng.random() < 0.5 else None  # a caller may do what it likes with its result
            time_evolution_for_term(term, t)
            time_evolution_for_term(make_term(rng, ops, c, "dict")[0], t)
        elif mode == "mutate":
            # ONE term object whose public coefficient is reassigned between requests (rescaling, a sweep, making it
            # complex and real again), alone and as a member of a sum; every request is judged on the coefficient the
            # term has at that moment
            term = make_term(rng, ops, c, "dict")[0]
            partner = make_term(rng, other, 0.5, "dict")[0]
            ham = PauliSum([term, partner])
            steps = rng.choice([1, 2])
            tt = abs(t) if abs(t) < 10 else 1.5
            for cc in (c, 2 * c, c + 0.25, complex(c, 0.5), -c, c * (1 + 3e-6), complex(c, -1e-3), c):
                term.coefficient = cc
                which = rng.choice(["term", "term", "sum", "deriv"])
                try:
                    if which == "term":
                        time_evolution_for_term(term, t)
                    elif which == "sum":
                        time_evolution(ham, tt, n_steps=steps)
                    elif isinstance(cc, complex):
                        time_evolution_for_term(term, t)
                    else:
                        time_evolution_derivatives(ham, tt, n_steps=steps)
                except ValueError:
                    if not isinstance(cc, complex):
                        raise
        else:
            steps = rng.choice([1, 2, 3])
            fn = time_evolution if mode == "sum" else time_evolution_derivatives
            tt = abs(t) if abs(t) < 10 else 1.5
            for cc in (c, c + 2e-7, c):
                ham = PauliSum([make_term(rng, ops, cc, "dict")[0], make_term(rng, other, 0.5, "dict")[0]])
                fn(ham, tt, n_steps=steps)
                fn(ham, tt, n_steps=steps % 3 + 1)
        return

    if cls in ("sum", "deriv"):
        deriv = cls == "deriv"
        if deriv:
            width = rng.randint(1, 3)
            m = rng.randint(1, 3)
            steps = rng.choice([1, 2, 2, 3]) if m <= 2 else rng.choice([1, 2, 3])
        else:
            width = rng.randint(1, 3 if ctx.quick else 4)
            m = rng.randint(1, 4)
            steps = rng.randint(1, 4)
        term_ops = []
        for i in range(m):
            r = rng.random()
            if i > 0 and r < 0.5:
                # force a non-commuting neighbour: change one operator of the previous term
                prev = dict(term_ops[-1])
                if prev:
                    q = rng.choice(sorted(prev))
                    new = dict(prev)
                    new[q] = rng.choice([o for o in "XYZ" if o != prev[q]])
                    if rng.random() < 0.5 and len(new) < width:
                        q2 = rng.choice([x for x in range(width) if x not in new])
                        new[q2] = rng.choice("XYZ")
                        # keep an odd number of differing shared positions
                    term_ops.append(new)
                    continue
            if i > 0 and r < 0.58:
                term_ops.append(dict(term_ops[rng.randrange(len(term_ops))]))  # duplicate string
                continue
            if r > 0.93:
                term_ops.append({})  # constant term
                continue
            term_ops.append(rand_ops(rng, width))
        if rng.random() < 0.3:
            term_ops = spread(rng, term_ops)
            mon.note(f"{cls}-spread")
        coeffs = []
        for _ in range(m):
            if deriv:
                c = rng.choice([1, -1, 2, -2]) if rng.random() < 0.2 else rng.uniform(0.2, 1.5) * rng.choice([1, -1])
            else:
                c = rand_real_coeff(rng)
            coeffs.append(c)
        rejected = False
        if not deriv and rng.random() < 0.06:
            cand = [i for i, o in enumerate(term_ops) if o]
            if cand:
                i = rng.choice(cand)
                coeffs[i] = complex(complex(coeffs[i]).real, rng.choice([0.5, -0.5, 1e-3, -1e-3]))
                rejected = True
        twin = None
        if m >= 2 and not rejected and rng.random() < 0.22:
            # a Hamiltonian that lists one term TWICE (symmetric splittings A/2 + B + A/2 do): the last term repeats the
            # first one - equal string, equal coefficient - as the very same object or as an equal copy; whatever
            # sits in between usually does not commute with it.  Anything that finds "the position of this term" by
            # equality (list.index, a dict keyed by the term) meets two candidates here
            term_ops[-1] = dict(term_ops[0])
            coeffs[-1] = coeffs[0]
            twin = rng.choice(["same-object", "equal-copy"])
            mon.note(f"{cls}-twin-terms:{twin}")
        terms = [make_term(rng, o, c)[0] for o, c in zip(term_ops, coeffs)]
        if twin == "same-object":
            terms[-1] = terms[0]
        r = rng.random()
        if m == 1 and r < 0.5:
            ham, form = terms[0], "term"
        else:
            ham, form = PauliSum(terms), "sum"
        t = rand_time(rng, symbolic=0.2) if not deriv else (
            rand_time(rng, symbolic=1.0) if rng.random() < 0.15 else rng.choice([rng.uniform(-2, 2), rng.uniform(0.1, 1), 1, 0.0]))
        noncomm = any(not _commute(list(a.items()), list(b.items()))
                      for a, b in itertools.combinations([o for o in term_ops if o], 2))
        desc = (f"{cls} {form} [" + " + ".join(f"{c!r}*{_fmt_ops(o)}" for o, c in zip(term_ops, coeffs))
                + f"] t={t!r} steps={steps}")
        kw = rng.random() < 0.5
        if deriv:
            ctx.describe(desc, noncomm or steps >= 2)
            mon.note(f"deriv-case:steps={steps}")
            if kw:
                time_evolution_derivatives(ham, t, n_steps=steps)
            else:
                time_evolution_derivatives(ham, t, "Trotter", steps)
        else:
            ctx.describe(desc, noncomm)
            mon.note("sum-case:complex-term" if rejected else
                     ("sum-case:noncommuting" if noncomm else "sum-case:commuting"))
            try:
                if kw:
                    time_evolution(ham, t, n_steps=steps)
                else:
                    time_evolution(ham, t, "Trotter", steps)
            except ValueError:
                if not rejected:
                    raise
        return
    raise ValueError(cls)
