"""C17 - outcome distributions stay normalised; marginals and distances obey their laws."""
import io
import itertools
import json
import math
import os
import tempfile

import numpy as np

from ..core import Exhausted

ID = "C17"
LEVEL = "exploration"
RULE = (
    "seeded generator by input class (construct / invalid / all ordered qubit sub-lists of n<=3 "
    "(quick) or n<=4 (thorough) / random sub-lists n<=8 / invalid sub-lists / distance pairs / "
    "save-load); a case is non-trivial when the distribution has >=3 outcomes with >=2 distinct "
    "positive weights (and, for marginals, at least two outcomes collide under the projection); "
    "distinct = distinct canonical case strings"
)
ASSUMPTIONS = [
    "oracle = dictionary fold in plain Python; tolerances 1e-12 (1e-9 for order-dependent float sums)",
    "MMD is only driven with binary outcomes (the function integer-codes outcomes in base 2)",
]
DECIDING = ["MOD.__init__", "MOD.subdistribution", "mmd-laws", "nll-entropy-bound", "js-symmetric", "save-load"]
EXHAUSTIVE = {"marginal_exh": "all ordered lists of distinct qubits of an n-subsystem distribution, n<=3 quick / n<=4 thorough"}
BUDGET = {"quick": (4, 15, 3000), "thorough": (16, 120, 100000)}

_TMP = None


def classes(tier):
    return ["construct", "construct_invalid", "marginal_exh", "marginal_rand",
            "marginal_invalid", "distances", "saveload", "wide", "history"]


# ----------------------------------------------------------------------------- oracle helpers
def _canon_key(k):
    if isinstance(k, tuple):
        if not all(isinstance(x, (int, np.integer)) and not isinstance(x, bool) or isinstance(x, bool) for x in k):
            raise TypeError(k)
        return tuple(int(x) for x in k)
    if isinstance(k, str):
        return tuple(int(x) for x in (k.split(",") if "," in k else k))
    raise TypeError(k)


def _valid_input(d):
    if not isinstance(d, dict) or not d:
        return False
    try:
        keys = [_canon_key(k) for k in d]
    except Exception:
        return False
    if len({len(k) for k in keys}) != 1:
        return False
    if any(x < 0 for k in keys for x in k):
        return False
    try:
        return all(v >= 0 for v in d.values())
    except Exception:
        return False


def _items(dist):
    return [(tuple(k), float(v)) for k, v in dist.distribution_dict.items()]


# ----------------------------------------------------------------------------- monitors
def _pre_init(mon, call):
    d = call.args[1] if len(call.args) > 1 else call.kwargs.get("input_dict")
    if isinstance(d, dict):
        try:
            return [(k, v) for k, v in d.items()]
        except Exception:
            return None
    return None


def _post_init(mon, call):
    self = call.args[0]
    d = call.args[1] if len(call.args) > 1 else call.kwargs.get("input_dict")
    normalize = call.args[2] if len(call.args) > 2 else call.kwargs.get("normalize", True)
    name = "MOD.__init__"
    if not isinstance(d, dict) or call.pre is None:
        mon.out_of_domain(name)
        return
    items = call.pre  # the input as it was before the call
    din = dict(items)
    valid = _valid_input(din)
    if not valid:
        if call.exc is None:
            mon.violation("construct-accepts-invalid", f"input {din!r} accepted: {getattr(self, 'distribution_dict', None)!r}")
        else:
            mon.ok(name)
        return
    total = sum(v for _, v in items)
    if total == 0 or not math.isfinite(total) or (0 < total < 1e-300):
        mon.out_of_domain(name)  # nothing to normalise; either outcome is loud
        return
    if call.exc is not None:
        if _has_duplicate_canonical_keys(din):
            mon.out_of_domain(name)
            return
        mon.violation("construct-rejects-valid", f"input {din!r} raised {call.exc!r}")
        return
    if _has_duplicate_canonical_keys(din):
        mon.out_of_domain(name)
        return
    got = dict(_items(self))
    exp_keys = {_canon_key(k) for k in din}
    if set(got) != exp_keys:
        mon.violation("construct-keys", f"input {din!r} -> keys {sorted(got)}")
        return
    already = math.isclose(total, 1)
    if not normalize and not already:
        # un-normalised on request: values must be untouched
        for k, v in din.items():
            if got[_canon_key(k)] != v:
                mon.violation("construct-values", f"normalize=False changed {k}: {v} -> {got[_canon_key(k)]}")
                return
        mon.ok(name)
        return
    s = sum(got.values())
    bad = None
    if any(v < 0 for v in got.values()):
        bad = "negative value"
    elif not math.isclose(s, 1, rel_tol=1e-9):
        bad = f"sum {s!r} != 1"
    else:
        for k, v in din.items():
            exp = v if already else v / total
            if abs(got[_canon_key(k)] - exp) > 1e-12 * max(1.0, abs(exp)):
                bad = f"proportion of {k!r}: {got[_canon_key(k)]!r} vs {exp!r}"
                break
    if bad:
        mon.violation("construct-normalisation", f"input {din!r}: {bad}")
    else:
        mon.ok(name)


def _has_duplicate_canonical_keys(d):
    ks = [_canon_key(k) for k in d]
    return len(set(ks)) != len(ks)


def _pre_sub(mon, call):
    self = call.args[0]
    return list(_items(self))


def _post_sub(mon, call):
    name = "MOD.subdistribution"
    self = call.args[0]
    qubits = call.args[1] if len(call.args) > 1 else call.kwargs.get("active_qubits")
    before = call.pre
    after = list(_items(self))
    try:
        qubits = [int(q) for q in qubits]
    except Exception:
        mon.out_of_domain(name)
        return
    n = len(before[0][0]) if before else 0
    if after != before:
        mon.violation(
            "marginal-mutates-source",
            f"subdistribution({qubits}) changed its source: {before!r} -> {after!r}",
        )
        return
    valid = len(qubits) > 0 and len(set(qubits)) == len(qubits) and all(0 <= q < n for q in qubits)
    if not valid:
        if call.exc is None:
            mon.violation("marginal-accepts-invalid", f"qubits {qubits} on {n} subsystems accepted")
        else:
            mon.ok(name)
        return
    if call.exc is not None:
        mon.violation("marginal-raises", f"subdistribution({qubits}) on {before!r} raised {call.exc!r}")
        return
    if any(x > 9 for k, _ in before for x in k):
        mon.out_of_domain(name)  # projected keys are joined digit strings
        return
    exp = {}
    for k, v in before:
        nk = tuple(k[q] for q in qubits)
        exp[nk] = exp.get(nk, 0.0) + v
    tot = sum(exp.values())
    src_norm = math.isclose(sum(v for _, v in before), 1)
    got = dict(_items(call.result))
    if set(got) != set(exp):
        mon.violation("marginal-keys", f"sub({qubits}) of {before!r}: keys {sorted(got)} expected {sorted(exp)}")
        return
    for k, v in exp.items():
        e = v / tot if (src_norm and not math.isclose(tot, 1)) else v
        if abs(got[k] - e) > 1e-9:
            mon.violation("marginal-values", f"sub({qubits}) of {before!r}: {k} -> {got[k]!r} expected {e!r}")
            return
    mon.ok(name)


def _post_mmd(mon, call):
    if call.exc is not None:
        return
    v = call.result
    if not (v >= -1e-12):
        mon.violation("mmd-negative", f"mmd={v!r} for {call.args[:2]!r}")
    else:
        mon.ok("mmd.nonneg")


def install(mon, reach):
    from orquestra.quantum.distributions import _measurement_outcome_distribution as M
    from orquestra.quantum.distributions import clipped_negative_log_likelihood as NLL
    from orquestra.quantum.distributions import jensen_shannon_divergence as JS
    from orquestra.quantum.distributions import mmd as MMD

    reach.watch(getattr(M.MeasurementOutcomeDistribution, "__init__", None), "MOD.__init__")
    reach.watch(M.MeasurementOutcomeDistribution.subdistribution, "MOD.subdistribution")
    reach.watch(M.normalize_measurement_outcome_distribution, "normalize")
    reach.watch(M.preprocess_distibution_dict, "preprocess")
    reach.watch(MMD.compute_mmd, "compute_mmd")
    reach.watch(MMD.compute_multi_rbf_kernel, "multi_rbf_kernel")
    reach.watch(NLL.compute_clipped_negative_log_likelihood, "clipped_nll")
    reach.watch(JS.compute_jensen_shannon_divergence, "jsd")
    reach.watch(M.save_measurement_outcome_distribution, "save")
    reach.watch(M.load_measurement_outcome_distribution, "load")
    reach.watch(M.save_measurement_outcome_distributions, "save_many")
    reach.watch(M.load_measurement_outcome_distributions, "load_many")
    mon.hook_method(M.MeasurementOutcomeDistribution, "__init__", post=_post_init, pre=_pre_init, name="MOD.__init__")
    mon.hook_method(M.MeasurementOutcomeDistribution, "subdistribution", post=_post_sub, pre=_pre_sub, name="MOD.subdistribution")
    mon.hook_func(MMD, "compute_mmd", post=_post_mmd, name="compute_mmd")


# ----------------------------------------------------------------------------- generators
def rand_weights(rng, k, style=None):
    style = style or rng.choice(["float", "int", "dyadic", "zeros", "skew"])
    if style == "float":
        w = [rng.random() + 1e-3 for _ in range(k)]
    elif style == "int":
        w = [rng.randint(1, 50) for _ in range(k)]
    elif style == "dyadic":
        w = [rng.randint(1, 16) / 16 for _ in range(k)]
    elif style == "zeros":
        w = [rng.random() if rng.random() < 0.6 else 0.0 for _ in range(k)]
        if sum(w) == 0:
            w[0] = 1.0
    else:
        w = [10 ** rng.uniform(-6, 2) for _ in range(k)]
    return w


def rand_dist_dict(rng, n=None, binary=None, keystyle=None, maxdigit=None, kmin=1):
    n = n or rng.randint(1, 6)
    binary = rng.random() < 0.6 if binary is None else binary
    md = 1 if binary else (maxdigit or rng.choice([2, 3, 9, 12, 40]))
    space = (md + 1) ** n
    k = rng.randint(kmin, max(kmin, min(space, 12)))
    keys = set()
    tries = 0
    while len(keys) < k and tries < 200:
        keys.add(tuple(rng.randint(0, md) for _ in range(n)))
        tries += 1
    keys = sorted(keys)
    rng.shuffle(keys)
    w = rand_weights(rng, len(keys))
    keystyle = keystyle or rng.choice(["tuple", "str", "comma"])
    if keystyle == "str" and md > 9:
        keystyle = "comma"
    if keystyle == "comma" and n == 1:
        keystyle = "tuple" if md > 9 else "str"
    out = {}
    for key, v in zip(keys, w):
        if keystyle == "tuple":
            out[key] = v
        elif keystyle == "str":
            out["".join(map(str, key))] = v
        else:
            out[",".join(map(str, key))] = v
    return out


def _nontrivial_dict(d):
    vals = [v for v in d.values() if v > 0]
    return len(d) >= 3 and len(set(vals)) >= 2


def _collides(d, qubits):
    ks = [_canon_key(k) for k in d]
    proj = [tuple(k[q] for q in qubits) for k in ks]
    return len(set(proj)) < len(proj)


def _default_parameters(ctx, a, b, nll, jsd, compute_mmd, p, pe, sig, eps):
    """the measures with their parameters LEFT OUT, asked after calls that gave them explicitly (possibly coarse
    ones): the documented defaults (epsilon 1e-9, sigma 1.0) are in force whatever was passed earlier in the
    process (what happens to the caller's parameter dicts is C20's business, not judged here)"""
    d0 = 1e-9
    db = dict(_items(b))
    exp = -sum(v * math.log(max(d0, db.get(k_, 0))) for k_, v in _items(a))
    got = nll(a, b, {})
    ctx.check("nll-value", abs(got - exp) <= 1e-9 * max(1, abs(exp)),
              lambda: f"nll with the default clipping constant, asked after a call with epsilon={eps}: {got!r} vs fold at 1e-9 {exp!r}")
    ent = -sum(v * math.log(v) for _, v in _items(a) if v > 0)
    K = len(set(k_ for k_, _ in _items(a)) | set(db))
    ctx.check("nll-entropy-bound", got >= ent - K * d0 - 1e-12,
              lambda: f"nll (default epsilon, after epsilon={eps}) = {got!r} < entropy {ent!r} for target {_items(a)} model {_items(b)}")
    j_ab, j_ba = jsd(a, b, {}), jsd(b, a, {})
    da = dict(_items(a))
    exp_ba = -sum(v * math.log(max(d0, da.get(k_, 0))) for k_, v in _items(b))
    ctx.check("js-symmetric", abs(j_ab - j_ba) <= 1e-12 * max(1, abs(j_ab)) and abs(j_ab - (exp + exp_ba) / 2) <= 1e-9 * max(1, abs(j_ab)),
              lambda: f"jsd with default parameters after epsilon={eps}: ab={j_ab!r} ba={j_ba!r}, fold {(exp + exp_ba) / 2!r}")
    m1, m2 = compute_mmd(a, b, {}), compute_mmd(a, b, {"sigma": 1.0})
    ctx.check("mmd-laws", abs(m1 - m2) <= 1e-15 * max(1, abs(m2)),
              lambda: f"mmd with the default bandwidth after sigma={sig}: {m1!r} vs sigma=1.0 given: {m2!r}")
    ctx.mon.note("default-parameters-after-explicit")


# ----------------------------------------------------------------------------- cases
def run_case(ctx):
    from orquestra.quantum.distributions import (
        MeasurementOutcomeDistribution as MOD,
        compute_clipped_negative_log_likelihood as nll,
        compute_jensen_shannon_divergence as jsd,
        compute_mmd,
        load_measurement_outcome_distribution,
        load_measurement_outcome_distributions,
        save_measurement_outcome_distribution,
        save_measurement_outcome_distributions,
    )

    global _TMP
    rng = ctx.rng
    cls = ctx.cls
    if cls == "construct":
        d = rand_dist_dict(rng)
        normalize = rng.random() < 0.85
        if rng.random() < 0.3:  # already normalised input
            t = sum(d.values())
            d = {k: v / t for k, v in d.items()}
        ctx.describe(f"construct normalize={normalize} {d!r}", _nontrivial_dict(d))
        if ctx.index % 3 == 2 and normalize:
            # the caller KEEPS the mapping it built the object from (a running tally that is updated later, the
            # dict of another distribution) and goes on using it: the object must go on holding what it was built
            # with - "always holds non-negative probabilities summing to 1 in the same proportions as the input"
            own = dict(d)
            obj = MOD(own, normalize)
            held = list(_items(obj))
            edit = rng.choice(["bump", "newkey", "scale", "clear", "negative"])
            ks = list(own)
            if edit == "bump":
                own[rng.choice(ks)] += rng.choice([1, 7, 0.25])
            elif edit == "newkey":
                k0 = _canon_key(ks[0])
                nk = tuple((x + 1) % 2 for x in k0)
                own[nk if isinstance(ks[0], tuple) else ("".join(map(str, nk)) if "," not in ks[0] else ",".join(map(str, nk)))] = 3.0
            elif edit == "scale":
                for k_ in ks:
                    own[k_] *= 5
            elif edit == "clear":
                own.clear()
            else:
                own[rng.choice(ks)] = -1.0
            after = list(_items(obj))
            s_after = sum(v for _, v in after)
            ctx.mon.note("construct-owner-edit:" + edit)
            ctx.check("construct-input-kept-by-caller",
                      after == held and after and math.isclose(s_after, 1, rel_tol=1e-9) and all(v >= 0 for _, v in after),
                      lambda: f"distribution built from {d!r} held {held!r}; after the caller's own edit ({edit}) of the "
                              f"mapping it had passed in, the object holds {after!r}")
            # another object built from the same source data is what it would have been anyway
            obj2 = MOD(dict(d), normalize)
            ctx.check("construct-input-kept-by-caller", list(_items(obj2)) == held,
                      lambda: f"second object from equal input {d!r}: {list(_items(obj2))!r} vs first {held!r}")
            return
        MOD(dict(d), normalize)
        return
    if cls == "construct_invalid":
        kind = rng.choice(["empty", "negative", "ragged", "neg_key", "nonint_key"])
        d = rand_dist_dict(rng, kmin=2, keystyle="tuple")
        if kind == "empty":
            d = {}
        elif kind == "negative":
            k = rng.choice(list(d))
            # clearly negative, or negative by "round-off" amounts down to the smallest denormal: still negative
            d[k] = rng.choice([-abs(d[k]) - 0.01, -abs(d[k]) - 0.01, -1e-9, -1e-13, -1e-17, -1e-300, -5e-324])
        elif kind == "ragged":
            k = rng.choice(list(d))
            v = d.pop(k)
            d[k + (0,)] = v
            if len(d) < 2:
                d[(0,) * len(k)] = 0.5
        elif kind == "neg_key":
            k = rng.choice(list(d))
            v = d.pop(k)
            d[(-1,) + k[1:]] = v
        else:
            k = rng.choice(list(d))
            v = d.pop(k)
            d[(0.5,) + k[1:]] = v
        ctx.describe(f"construct_invalid {kind} {d!r}", True)
        try:
            MOD(dict(d))
        except Exception:
            pass
        else:
            if kind != "nonint_key":
                pass  # the hook has judged
            else:
                ctx.check("construct-accepts-invalid", False, f"non-integer key accepted: {d!r}")
        return
    if cls == "marginal_exh":
        nmax = 3 if ctx.quick else 4
        space = []
        for n in range(1, nmax + 1):
            for r in range(1, n + 1):
                for sub in itertools.permutations(range(n), r):
                    space.append((n, list(sub)))
        if ctx.index >= len(space):
            raise Exhausted()
        n, sub = space[ctx.index]
        d = rand_dist_dict(rng, n=n, binary=rng.random() < 0.7, maxdigit=rng.choice([2, 3, 9]), kmin=min(3, 2**n))
        normalize = rng.random() < 0.9
        ctx.describe(f"marginal n={n} sub={sub} norm={normalize} {d!r}", _nontrivial_dict(d) and _collides(d, sub))
        dist = MOD(dict(d), normalize)
        dist.subdistribution(list(sub))
        dist.subdistribution(list(sub))  # the source must still be usable
        return
    if cls == "marginal_rand":
        n = rng.randint(2, 8)
        d = rand_dist_dict(rng, n=n, binary=rng.random() < 0.7, maxdigit=rng.choice([2, 3, 9]), kmin=3)
        r = rng.randint(1, n)
        sub = rng.sample(range(n), r)
        ctx.describe(f"marginal n={n} sub={sub} {d!r}", _nontrivial_dict(d) and _collides(d, sub))
        dist = MOD(dict(d))
        sd = dist.subdistribution(sub)
        # the same qubits, in the same (listed) order, spelled as other ordered containers the signature accepts
        how = rng.choice(["tuple", "ndarray", "np-ints", "range", "dict-keys", "list"])
        if how == "range" and len(sub) >= 2:
            step = rng.choice([-1, 1, 2, -2])
            start = rng.randrange(n)
            alt = range(start, -1 if step < 0 else n, step)
            alt = alt if len(alt) else range(n - 1, -1, -1)
        else:
            alt = {"tuple": tuple(sub), "ndarray": np.array(sub), "np-ints": [np.int64(q) for q in sub],
                   "dict-keys": dict.fromkeys(sub).keys(), "list": list(sub), "range": tuple(sub)}[how]
        ctx.mon.note(f"subdistribution-argument:{how}")
        dist.subdistribution(alt)
        # marginal of a marginal = marginal (driver-level relational check)
        if len(sub) >= 2:
            pos = rng.sample(range(len(sub)), rng.randint(1, len(sub)))
            a = sd.subdistribution(pos)
            b = dist.subdistribution([sub[p] for p in pos])
            da, db = dict(_items(a)), dict(_items(b))
            ctx.check("marginal-compose", set(da) == set(db) and all(abs(da[k] - db[k]) < 1e-9 for k in da),
                      lambda: f"sub({sub}) then {pos}: {da} vs {db}")
        return
    if cls == "marginal_invalid":
        n = rng.randint(1, 5)
        d = rand_dist_dict(rng, n=n, kmin=2)
        kind = rng.choice(["range", "dup", "both"])
        if kind == "range":
            sub = rng.sample(range(n), rng.randint(0, n - 1)) + [n + rng.randint(0, 2)]
            rng.shuffle(sub)
        elif kind == "dup":
            q = rng.randrange(n)
            sub = [q, q] + rng.sample(range(n), rng.randint(0, n - 1))
            rng.shuffle(sub)
        else:
            sub = [n, n]
        ctx.describe(f"marginal_invalid {kind} n={n} sub={sub} {d!r}", True)
        dist = MOD(dict(d))
        try:
            dist.subdistribution(sub)
        except Exception:
            pass
        return
    if cls == "distances":
        n = rng.randint(1, 5)
        d1 = rand_dist_dict(rng, n=n, binary=True, kmin=2)
        d2 = rand_dist_dict(rng, n=n, binary=True, kmin=2)
        if rng.random() < 0.3:  # overlapping supports
            for k in list(d1)[: rng.randint(1, len(d1))]:
                kk = _canon_key(k)
                if not any(_canon_key(x) == kk for x in d2):
                    d2[kk if not isinstance(next(iter(d2)), str) else ("".join(map(str, kk)) if "," not in next(iter(d2)) else ",".join(map(str, kk)))] = rng.random()
        if _has_duplicate_canonical_keys(d2) or _has_duplicate_canonical_keys(d1):
            d2 = {_canon_key(k): v for k, v in d2.items()}
        sig = rng.choice([1.0, 0.3, 7.5, [0.5, 2.0], [1.0], [0.1, 1.0, 10.0]])
        eps = rng.choice([1e-9, 1e-6, 1e-3, 0.05, 0.3])
        ctx.describe(f"distances sigma={sig} eps={eps} {d1!r} {d2!r}", _nontrivial_dict(d1) or _nontrivial_dict(d2))
        a, b = MOD(dict(d1)), MOD(dict(d2))
        p = {"sigma": sig}
        m_ab, m_ba, m_aa = compute_mmd(a, b, p), compute_mmd(b, a, p), compute_mmd(a, a, p)
        ok = abs(m_ab - m_ba) <= 1e-12 and m_ab >= -1e-12 and abs(m_aa) <= 1e-15
        ctx.check("mmd-laws", ok, lambda: f"mmd ab={m_ab!r} ba={m_ba!r} aa={m_aa!r} for {d1!r} {d2!r} sigma={sig}")
        # identical content, different object / key order
        a2 = MOD(dict(reversed(list(_items(a)))))
        m_aa2 = compute_mmd(a, a2, p)
        ctx.check("mmd-laws", abs(m_aa2) <= 1e-12, lambda: f"mmd(a, reordered a)={m_aa2!r}")
        pe = {"epsilon": eps}
        for t, m in ((a, b), (b, a), (a, a)):
            val = nll(t, m, pe)
            tv = [v for _, v in _items(t)]
            ent = -sum(v * math.log(v) for v in tv if v > 0)
            K = len(set(k for k, _ in _items(t)) | set(k for k, _ in _items(m)))
            ctx.check("nll-entropy-bound", val >= ent - K * eps - 1e-12,
                      lambda: f"nll={val!r} < entropy={ent!r} - {K}*{eps} for target {_items(t)} model {_items(m)}")
        # exact value against a dictionary fold
        exp = 0.0
        db = dict(_items(b))
        for k, v in _items(a):
            exp -= v * math.log(max(eps, db.get(k, 0)))
        got = nll(a, b, pe)
        ctx.check("nll-value", abs(got - exp) <= 1e-9 * max(1, abs(exp)), lambda: f"nll {got!r} vs fold {exp!r}")
        j_ab, j_ba = jsd(a, b, pe), jsd(b, a, pe)
        ctx.check("js-symmetric", abs(j_ab - j_ba) <= 1e-12 * max(1, abs(j_ab)), lambda: f"jsd ab={j_ab!r} ba={j_ba!r}")
        # the same laws through the public entry point that dispatches to a distance measure
        from orquestra.quantum.distributions import evaluate_distribution_distance as edd

        e_ab = edd(a, b, compute_mmd, distance_measure_parameters=p)
        e_ba = edd(b, a, compute_mmd, distance_measure_parameters=p)
        e_aa = edd(a, a, compute_mmd, distance_measure_parameters=p)
        ctx.check("mmd-laws", abs(e_ab - e_ba) <= 1e-12 and e_ab >= -1e-12 and abs(e_aa) <= 1e-15 and abs(e_ab - m_ab) <= 1e-12,
                  lambda: f"evaluate_distribution_distance(mmd): ab={e_ab!r} ba={e_ba!r} aa={e_aa!r}, direct ab={m_ab!r}")
        e_nll = edd(a, b, nll, distance_measure_parameters=pe)
        ctx.check("nll-value", abs(e_nll - exp) <= 1e-9 * max(1, abs(exp)),
                  lambda: f"evaluate_distribution_distance(nll) {e_nll!r} vs fold {exp!r}")
        ej_ab, ej_ba = edd(a, b, jsd, distance_measure_parameters=pe), edd(b, a, jsd, distance_measure_parameters=pe)
        ctx.check("js-symmetric", abs(ej_ab - ej_ba) <= 1e-12 * max(1, abs(ej_ab)) and abs(ej_ab - j_ab) <= 1e-12 * max(1, abs(j_ab)),
                  lambda: f"evaluate_distribution_distance(jsd) ab={ej_ab!r} ba={ej_ba!r} direct={j_ab!r}")
        _default_parameters(ctx, a, b, nll, jsd, compute_mmd, p, pe, sig, eps)
        return
    if cls == "wide":
        # registers wider than a byte / a machine word: outcomes on 9..70 subsystems, few keys.  Bit-packed fast
        # paths and fixed-width integer arithmetic go wrong only up here.
        n = rng.choice([9, 12, 16, 17, 31, 32, 33, 40, 63, 64, 65, 70])
        k = rng.randint(2, 6)
        keys = set()
        while len(keys) < k:
            r = rng.random()
            if r < 0.25:
                key = tuple(rng.choice([0, 1]) for _ in range(n))
            elif r < 0.5:  # differs from an earlier key in one (often high-numbered / low-numbered) position
                base = list(rng.choice(sorted(keys))) if keys else [0] * n
                q = rng.choice([0, 1, n - 1, n - 2, rng.randrange(n)])
                base[q] ^= 1
                key = tuple(base)
            elif r < 0.75:
                key = tuple([rng.choice([0, 1])] * n)
            else:
                q = rng.randrange(n)
                key = tuple(1 if i == q else 0 for i in range(n))
            keys.add(key)
        keys = sorted(keys)
        rng.shuffle(keys)
        w = rand_weights(rng, len(keys))
        style = rng.choice(["tuple", "str"])
        d1 = {(k_ if style == "tuple" else "".join(map(str, k_))): v for k_, v in zip(keys, w)}
        keys2 = list(keys)
        rng.shuffle(keys2)
        keys2 = keys2[: rng.randint(1, len(keys2))]
        extra = tuple(rng.choice([0, 1]) for _ in range(n))
        if extra not in keys2:
            keys2.append(extra)
        d2 = {k_: v for k_, v in zip(keys2, rand_weights(rng, len(keys2)))}
        sub = rng.sample(range(n), rng.randint(1, min(n, 6)))
        if rng.random() < 0.5:
            sub[0] = rng.choice([n - 1, n - 2, 8 % n, 0])
            sub = list(dict.fromkeys(sub))
        mode = rng.choice(["marginal", "distances", "saveload"])
        ctx.describe(f"wide {mode} n={n} sub={sub} {d1!r} {d2!r}", True)
        ctx.mon.note(f"wide:n={n}")
        a, b = MOD(dict(d1)), MOD(dict(d2))
        if mode == "marginal":
            a.subdistribution(sub)
            b.subdistribution(list(reversed(sub)))
            a.subdistribution(sub)
        elif mode == "distances":
            sig = rng.choice([1.0, 0.3, [0.5, 2.0], 1e6])
            p = {"sigma": sig}
            m_ab, m_ba, m_aa = compute_mmd(a, b, p), compute_mmd(b, a, p), compute_mmd(a, a, p)
            ok = abs(m_ab - m_ba) <= 1e-12 and m_ab >= -1e-12 and abs(m_aa) <= 1e-15
            ctx.check("mmd-laws", ok, lambda: f"mmd ab={m_ab!r} ba={m_ba!r} aa={m_aa!r} for {d1!r} {d2!r} sigma={sig}")
            eps = rng.choice([1e-9, 1e-3])
            pe = {"epsilon": eps}
            for t, m in ((a, b), (b, a), (a, a)):
                val = nll(t, m, pe)
                tv = [v for _, v in _items(t)]
                ent = -sum(v * math.log(v) for v in tv if v > 0)
                K = len(set(k_ for k_, _ in _items(t)) | set(k_ for k_, _ in _items(m)))
                ctx.check("nll-entropy-bound", val >= ent - K * eps - 1e-12,
                          lambda: f"nll={val!r} < entropy={ent!r} - {K}*{eps} for target {_items(t)} model {_items(m)}")
            j_ab, j_ba = jsd(a, b, pe), jsd(b, a, pe)
            ctx.check("js-symmetric", abs(j_ab - j_ba) <= 1e-12 * max(1, abs(j_ab)), lambda: f"jsd ab={j_ab!r} ba={j_ba!r}")
        else:
            if _TMP is None:
                _TMP = tempfile.mkdtemp(prefix="rv-c17-")
            path = os.path.join(_TMP, f"w{ctx.index}.json")
            try:
                save_measurement_outcome_distribution(a, path)
                back = load_measurement_outcome_distribution(path)
            finally:
                if os.path.exists(path):
                    os.remove(path)
            ia, ib = dict(_items(a)), dict(_items(back))
            ctx.check("save-load", set(ia) == set(ib) and all(abs(ia[k_] - ib[k_]) <= 1e-12 for k_ in ia),
                      lambda: f"saved {ia!r} loaded {ib!r}")
        return
    if cls == "history":
        # several queries in one process that agree in everything a too-coarse memo key could look at (same keys /
        # same number of keys / same qubit list / same object / same parameters) and differ in what matters
        n = rng.randint(2, 5)
        d1 = rand_dist_dict(rng, n=n, binary=True, keystyle="tuple", kmin=3)
        keys = list(d1)
        d2 = dict(zip(keys, rand_weights(rng, len(keys))))  # same keys, other probabilities
        d3 = dict(zip(reversed(keys), d1.values()))  # same values, permuted over the keys
        sub = rng.sample(range(n), rng.randint(1, n))
        sub2 = list(reversed(sub)) if len(sub) > 1 else [(sub[0] + 1) % n]
        mode = rng.choice(["marginal", "distances", "saveload", "short-lived"])
        ctx.describe(f"history {mode} n={n} sub={sub} {d1!r} {d2!r}", True)
        ctx.mon.note(f"history:{mode}")
        a, b, c = MOD(dict(d1)), MOD(dict(d2)), MOD(dict(d3))
        if mode == "marginal":
            for dist, q in ((a, sub), (b, sub), (a, sub2), (c, sub), (a, sub), (b, sub2)):
                dist.subdistribution(list(q))
        elif mode == "distances":
            sig, sig2 = rng.choice([1.0, 0.3, [0.5, 2.0]]), rng.choice([2.5, [1.0, 4.0]])
            eps = rng.choice([1e-9, 1e-3])
            pe = {"epsilon": eps}
            for x, y in ((a, b), (a, c), (b, c), (a, b)):
                for p_ in ({"sigma": sig}, {"sigma": sig2}, {"sigma": sig}):
                    m_xy, m_yx, m_xx = compute_mmd(x, y, p_), compute_mmd(y, x, p_), compute_mmd(x, x, p_)
                    ctx.check("mmd-laws", abs(m_xy - m_yx) <= 1e-12 and m_xy >= -1e-12 and abs(m_xx) <= 1e-15,
                              lambda: f"mmd xy={m_xy!r} yx={m_yx!r} xx={m_xx!r} sigma={p_}")
                # exact NLL value against a dictionary fold, with the same parameter dict reused
                dy = dict(_items(y))
                exp = -sum(v * math.log(max(eps, dy.get(k_, 0))) for k_, v in _items(x))
                got = nll(x, y, pe)
                ctx.check("nll-value", abs(got - exp) <= 1e-9 * max(1, abs(exp)), lambda: f"nll {got!r} vs fold {exp!r}")
                j_xy, j_yx = jsd(x, y, pe), jsd(y, x, pe)
                ctx.check("js-symmetric", abs(j_xy - j_yx) <= 1e-12 * max(1, abs(j_xy)), lambda: f"jsd xy={j_xy!r} yx={j_yx!r}")
                _default_parameters(ctx, x, y, nll, jsd, compute_mmd, {"sigma": sig}, pe, sig, eps)
        elif mode == "saveload":
            if _TMP is None:
                _TMP = tempfile.mkdtemp(prefix="rv-c17-")
            path = os.path.join(_TMP, f"h{ctx.index}.json")  # the same path written again and again
            try:
                for dist in (a, b, a, c):
                    save_measurement_outcome_distribution(dist, path)
                    back = load_measurement_outcome_distribution(path)
                    ia, ib = dict(_items(dist)), dict(_items(back))
                    ctx.check("save-load", set(ia) == set(ib) and all(abs(ia[k_] - ib[k_]) <= 1e-12 for k_ in ia),
                              lambda: f"saved {ia!r} loaded {ib!r}")
            finally:
                if os.path.exists(path):
                    os.remove(path)
        else:
            for k_ in range(6):  # objects that die immediately: address-keyed memos meet recycled ids
                dist = MOD(dict(zip(keys, rand_weights(rng, len(keys)))))
                dist.subdistribution(list(sub))
                compute_mmd(dist, a, {"sigma": 1.0})
                del dist
        return
    if cls == "saveload":
        if _TMP is None:
            _TMP = tempfile.mkdtemp(prefix="rv-c17-")
        many = rng.random() < 0.3
        single_big = rng.random() < 0.12
        dicts = []
        for _ in range(rng.randint(1, 3) if many else 1):
            if single_big:
                d = rand_dist_dict(rng, n=1, binary=False, maxdigit=rng.choice([12, 40]), keystyle="tuple", kmin=2)
            else:
                n = rng.randint(1, 5)
                d = rand_dist_dict(rng, n=n, binary=rng.random() < 0.4, kmin=1)
            dicts.append(d)
        ctx.describe(f"saveload many={many} {dicts!r}", any(_nontrivial_dict(d) for d in dicts))
        dists = [MOD(dict(d)) for d in dicts]
        path = os.path.join(_TMP, f"d{ctx.index}.json")
        load_exc = None
        back = []
        try:
          try:
              if many:
                  save_measurement_outcome_distributions(dists, path)
                  if rng.random() < 0.5:
                      back = load_measurement_outcome_distributions(path)
                  else:
                      with open(path) as f:
                          back = load_measurement_outcome_distributions(f)
              else:
                  save_measurement_outcome_distribution(dists[0], path)
                  if rng.random() < 0.5:
                      back = [load_measurement_outcome_distribution(path)]
                  else:
                      with open(path) as f:
                          back = [load_measurement_outcome_distribution(f)]
              with open(path) as f:
                  json.load(f)  # real JSON text
          except Exception as e:  # judged below
            load_exc = e
        finally:
            if os.path.exists(path):
                os.remove(path)
        ok = len(back) == len(dists)
        why = ""
        known = None
        if load_exc is not None:
            ok = False
            why = f"save/load of {dicts!r} raised {load_exc!r}"
            for a in dists:
                ia = dict(_items(a))
                if len(next(iter(ia))) == 1 and any(k[0] >= 10 for k in ia) and len({len(str(k[0])) for k in ia}) > 1:
                    # same format ambiguity, loud variant: digit-split keys of unequal length are rejected
                    known = "K4-single-subsystem-multidigit-outcome"
        for a, b in zip(dists, back):
            ia, ib = dict(_items(a)), dict(_items(b))
            if set(ia) != set(ib) or any(abs(ia[k] - ib[k]) > 1e-12 for k in ia):
                ok = False
                why = f"saved {ia!r} loaded {ib!r}"
                n_sub = len(next(iter(ia)))
                if n_sub == 1 and any(k[0] >= 10 for k in ia):
                    # K4: a single-subsystem outcome >= 10 has no comma in its
                    # text form; predicted wrong result = digits split
                    pred = {}
                    good = True
                    for k, v in ia.items():
                        nk = tuple(int(c) for c in str(k[0]))
                        if nk in pred:
                            good = False
                        pred[nk] = v
                    lens = {len(k) for k in pred}
                    if good and len(lens) == 1 and set(pred) == set(ib):
                        known = "K4-single-subsystem-multidigit-outcome"
                break
        if not ok and known is None and single_big:
            # ragged digit counts make the loader reject the file: same mechanism
            known = None
        ctx.check("save-load", ok, why, known=known)
        return
    raise ValueError(cls)


def finish(mon, res):
    global _TMP
    if _TMP and os.path.isdir(_TMP):
        import shutil

        shutil.rmtree(_TMP, ignore_errors=True)
        _TMP = None
