"""C10 - statistics computed from measurements are the exact sample statistics."""
import math
from collections import Counter

import numpy as np

from ..gen import shot_histories as H
from ..gen import shots as G
from ..gen import shots_wide as W
from ..ref import stats as R
from ..ref import stats_multiset as RM

ID = "C10"
LEVEL = "exploration"
RULE = (
    "seeded generator by input class: shot lists of 1-300 shots, widths 1-8 (styles: small pool with heavy "
    "repetition / uniform / per-qubit biased / constant / single shot / two shots / every outcome present) x "
    "Z-type operators built through every constructor route (styles: overlapping unequal supports / repeated "
    "supports / constants inside sums / single term / constants only / nested / disjoint / full width / random; "
    "coefficients +-1, integers, dyadics, floats 1e-6..1e6, zeros), Bessel on and off; histograms with 0-8 "
    "outcomes; direct calls of the frequency / parity helpers with tuple, list, set, frozenset and range qubit "
    "collections; histories on 1-4 measurement objects of one width (<= 40 shots each, built from a list, from a "
    "list shared with another object, from counts, empty + add_counts, with numpy integers): a query (counts / "
    "distribution / expectation values with one of 2-3 operators of equal length that share supports or "
    "coefficients / parity tallies / frequencies), then 1-4 rounds of a change (other shots of the SAME number - new "
    "list, slice assignment, single items, through the list given to the constructor, emptied and refilled by "
    "add_counts; other number - new list, add_counts, +=, extend, append, del; lists swapped between objects; "
    "reordering; the caller modifying a returned histogram / result arrays / a counts argument after the call; "
    "copy, deepcopy, a second object on the same list) followed by queries on the same and on the other objects; "
    "repeated calls of the frequency / parity helpers whose arguments keep identity, key set, total, shape or "
    "length while their content changes (in place or as new objects); class scale: (a) registers of 9-257 qubits (one below / "
    "at / one above 16, 32, 64, 128, 256 and values in between), 1-60 shots (up to 300 all distinct) whose outcomes "
    "differ on the qubits above the highest word boundary (styles: pool / only the high qubits vary / all ones, all "
    "zeros and blocks / outcomes one edge qubit apart / all distinct), terms and marked qubits on the qubits next to "
    "and above the boundaries (single high qubit / overlapping low-high pairs / all and all-but-one qubits / blocks "
    "across a boundary / edge qubits / random), driven through every observed function, "
    "both denominators; (b) 127-4097 and (1 case in 10) 32767-70000 shots on 1-8 qubits with the total and the "
    "multiplicity of one outcome next to 8 / 12 / 15 / 16 bit counters, built from a list, from_counts or add_counts; "
    "histograms handed to the frequency helper with entries of 2^15 ... 2^52; operators of 9-40 terms. "
    "A case is non-trivial when (history classes) "
    "some object is queried, changed and queried again and the initial shots contain >= 2 distinct outcomes / two consecutive helper calls differ in content with a "
    "marked qubit or >= 2 terms, (other classes) the shots contain >=2 distinct outcomes and (operator classes) the "
    "operator has >=2 terms of which at least one is not constant, or (helper classes) at least one qubit is marked, "
    "(wide registers) the shots contain >= 2 distinct outcomes and a term acts above the highest word boundary; "
    "distinct = distinct canonical case strings"
)
ASSUMPTIONS = [
    "oracle = per-shot loops in plain Python (rv/ref/stats.py); for more than 400 shots, 8 qubits or 8 terms the same "
    "loops run once per distinct outcome, weighted by its multiplicity, with exact integer tallies "
    "(rv/ref/stats_multiset.py); tolerance 1e-12 x |c| (values), 1e-12 x |ci cj| "
    "(correlations), 1e-12 x |ci cj| / denominator (covariances); counts, parities and tallies are compared exactly",
    "zero shots and Bessel's correction on a single shot are outside the workload (mean / variance undefined; the "
    "single-shot divergence is documented) - values and correlations of the single-shot Bessel call are still judged",
    "coefficients are finite numbers, 0 or 1e-6..1e6 in magnitude: int / float in most classes (occasionally a complex "
    "with zero imaginary part). Genuinely complex coefficients are outside the oracles' domain: the property's quantifier "
    "is over real coefficients, and for complex ones 'product of means' has no single reading (conjugated or not)",
    "from_counts / add_counts are judged as multisets of shots (the property does not fix an order)",
    "histories: every query is judged against the shots the object holds at the moment of the call (its public "
    "`bitstrings` list, read by the monitor after the call); nothing is demanded about whether two objects built "
    "from one list, or a copy and its original, share later changes - each is judged against its own current list; "
    "objects left without shots are only asked for their counts",
    "the DECIDING entries in square brackets are the verdicts of the monitor named before the bracket, tallied a "
    "second time for one branch / input class (they add to the total of monitor verdicts)",
]
DECIDING = [
    "M.get_expectation_values", "M.get_counts", "M.from_counts", "M.add_counts", "M.get_distribution",
    "expectation_from_frequencies", "check_parity", "check_parity_of_vector", "get_parities_from_measurements",
    "counts-roundtrip", "counts-sum",
    # verdicts of the monitors above, tallied once more per branch / input class that must have been judged
    "M.get_expectation_values[plain denominator, real coefficients]",
    "M.get_expectation_values[Bessel denominator, real coefficients]",
    "M.get_expectation_values[term on a qubit >= 8 that varies over the shots]",
    "M.get_expectation_values[term on a qubit >= 64 that varies over the shots]",
    "M.get_expectation_values[>= 65536 shots]",
    "M.get_expectation_values[>= 33 terms]",
    "M.get_counts[>= 65536 shots]",
    "M.get_distribution[>= 65536 shots]",
    "get_parities_from_measurements[>= 65536 shots]",
    "get_parities_from_measurements[term on a qubit >= 64 that varies over the shots]",
    "expectation_from_frequencies[an outcome seen >= 2^32 times]",
    "expectation_from_frequencies[marked qubit >= 64]",
    "check_parity[marked qubit >= 64]",
    "check_parity_of_vector[marked qubit >= 64]",
]
BRANCHES = ["check_parity_of_vector:no-marked-qubits", "check_parity_of_vector:marked",
            "Measurements.get_expectation_values:pair-correlation"]
BUDGET = {"quick": (4, 30, 10000), "thorough": (16, 120, 400000)}

_LIB = {}


def classes(tier):
    return ["expect", "expect_boundary", "counts", "freq", "parity", "parities", "history", "helper_history",
            "scale"]


# ----------------------------------------------------------------------------- domain helpers
def _is_int(x):
    return isinstance(x, (int, np.integer)) and not isinstance(x, (bool, np.bool_))


_BITCHARS = {"0", "1"}
_INT_TYPE = {}  # type -> is it an integer type that is not a boolean


def _int_types(types):
    for t in types:
        ok = _INT_TYPE.get(t)
        if ok is None:
            ok = _INT_TYPE[t] = issubclass(t, (int, np.integer)) and not issubclass(t, (bool, np.bool_))
        if not ok:
            return False
    return True


def _clean_shot(s, bits_only=True):
    """tuple of integers (bits_only: of 0 / 1) -> the same as a tuple of Python ints, else None"""
    if not isinstance(s, tuple):
        return None
    types = set(map(type, s))
    if not _int_types(types):
        return None
    if bits_only and not set(s) <= {0, 1}:
        return None
    return s if types == {int} or not types else tuple(map(int, s))


def _shots_in_domain(bitstrings, allow_empty=False):
    """-> list of tuples of Python ints, or None"""
    if not isinstance(bitstrings, list):
        return None
    if not bitstrings:
        return [] if allow_empty else None
    width = len(bitstrings[0]) if isinstance(bitstrings[0], tuple) else 0
    if width == 0:
        return None
    # every distinct tuple OBJECT is validated once (lists of 70 000 shots repeat a few objects)
    objs = {id(s): s for s in bitstrings}
    clean = {}
    same = True
    for i, s in objs.items():
        t = _clean_shot(s)
        if t is None or len(t) != width:
            return None
        same = same and t is s
        clean[i] = t
    if same:
        return list(bitstrings)
    return [clean[id(s)] for s in bitstrings]


def _counts_of_tally(tally):
    """multiset of clean shots -> histogram keyed by 0/1 strings"""
    out = {}
    for shot, m_ in tally.items():
        key = "".join("1" if b == 1 else "0" for b in shot)
        out[key] = out.get(key, 0) + m_
    return out


def _coeff_in_domain(c):
    """finite number -> int / float (also for a complex without imaginary part) or complex; else None"""
    if isinstance(c, (bool, np.bool_)):
        return None
    if isinstance(c, (int, float, np.integer, np.floating)):
        c = float(c) if not isinstance(c, int) else c
        return c if math.isfinite(c) else None
    if isinstance(c, (complex, np.complexfloating)):
        c = complex(c)
        if not (math.isfinite(c.real) and math.isfinite(c.imag)):
            return None
        # the property quantifies over REAL coefficients ("all Ising operators (..., any real coefficients)"): an
        # operator with a genuinely complex coefficient is outside every oracle's domain (a covariance that
        # conjugates one factor, for instance, is a legitimate choice there that the statement does not rule out)
        return c.real if c.imag == 0 else None
    return None


def _terms_in_domain(op, width):
    """Z-type operator with finite coefficients whose qubits are inside the
    shots -> [(sorted qubits, coefficient)], else None"""
    if not isinstance(op, (_LIB["PauliTerm"], _LIB["PauliSum"])):
        return None
    terms = []
    try:
        for t in op.terms:
            ops = dict(t.operations)
            if any(v != "Z" for v in ops.values()):
                return None
            qs = sorted(int(q) for q in ops)
            if any(q < 0 or q >= width for q in qs):
                return None
            c = _coeff_in_domain(t.coefficient)
            if c is None:
                return None
            terms.append((qs, c))
    except Exception:
        return None
    return terms


def _arg(call, pos, name, default=None):
    if len(call.args) > pos:
        return call.args[pos]
    return call.kwargs.get(name, default)


def _close(got, exp, scale):
    try:
        got = complex(got)
    except Exception:
        return False
    if not (math.isfinite(got.real) and math.isfinite(got.imag)):
        return False
    return abs(got - exp) <= 1e-12 * scale


def _is_large(n_shots, width, n_terms):
    """inputs for which the per-shot loops of rv.ref.stats are replaced by the per-distinct-outcome
    loops of rv.ref.stats_multiset (the same plain arithmetic, exact integer tallies)"""
    return n_shots > 400 or width > 8 or n_terms > 8


def _show_tally(tally, width):
    if width <= 16:
        return repr(dict(tally))
    return "{" + ", ".join(f"0x{W.hex_of(s_)} (qubit k = bit k): {m_}" for s_, m_ in list(tally.items())[:12]) \
        + (", ..." if len(tally) > 12 else "") + "}"


def _varies_at_or_above(tally, b):
    first = None
    for s_ in tally:
        if first is None:
            first = s_[b:]
        elif s_[b:] != first:
            return True
    return False


# ----------------------------------------------------------------------------- monitors
def _post_gev(mon, call):
    name = "M.get_expectation_values"
    self = call.args[0]
    op = _arg(call, 1, "ising_operator")
    bessel = bool(_arg(call, 2, "use_bessel_correction", False))
    shots = _shots_in_domain(getattr(self, "bitstrings", None))
    if shots is None:
        mon.out_of_domain(name)
        return
    terms = _terms_in_domain(op, len(shots[0]))
    if terms is None:
        mon.out_of_domain(name)
        return
    n = len(shots)
    if call.exc is not None:
        mon.violation("expectation-raises", f"{n} shots {Counter(shots).most_common(4)!r} terms {terms!r} bessel={bessel}: {call.exc!r}")
        return
    res = call.result
    k = len(terms)
    tally = Counter(shots)
    width = len(shots[0])
    if _is_large(n, width, k):
        vals, corr, cov_num = RM.expectation_values(terms, tally.items())
    else:
        vals, corr, cov_num = R.expectation_values(terms, shots)
    ctx = f"shots={_show_tally(tally, width)} terms={terms!r} bessel={bessel}"
    try:
        gv = np.asarray(res.values)
        gc = res.correlations
        ge = res.estimator_covariances
        if gv.shape != (k,) or len(gc) != 1 or len(ge) != 1 or np.asarray(gc[0]).shape != (k, k) \
                or np.asarray(ge[0]).shape != (k, k):
            mon.violation("expectation-shape", f"{ctx}: values {gv.shape}, {len(gc)} correlation frames, {len(ge)} covariance frames")
            return
        gc, ge = np.asarray(gc[0]), np.asarray(ge[0])
    except Exception as e:
        mon.violation("expectation-shape", f"{ctx}: result not readable ({e!r})")
        return
    for i in range(k):
        if not _close(gv[i], vals[i], max(abs(terms[i][1]), 1e-300)):
            mon.violation("expectation-value", f"{ctx}: value[{i}] = {gv[i]!r}, per-shot mean gives {vals[i]!r}")
            return
    for i in range(k):
        for j in range(k):
            sc = max(abs(terms[i][1] * terms[j][1]), 1e-300)
            if not _close(gc[i, j], corr[i][j], sc):
                mon.violation("expectation-correlation",
                              f"{ctx}: correlation[{i},{j}] = {gc[i, j]!r}, per-shot mean of products gives {corr[i][j]!r}")
                return
    mon.note("bessel" if bessel else "plain")
    if bessel and n == 1:
        mon.note("single-shot-bessel(covariances not judged)")
        mon.ok(name)
        return
    den = n - 1 if bessel else n
    for i in range(k):
        for j in range(k):
            sc = max(abs(terms[i][1] * terms[j][1]), 1e-300) / den
            exp = cov_num[i][j] / den
            if not _close(ge[i, j], exp, sc):
                mon.violation("expectation-covariance",
                              f"{ctx}: covariance[{i},{j}] = {ge[i, j]!r}, (correlation - product of means)/{den} = {exp!r}")
                return
    mon.ok(name)
    # the same verdict, tallied per branch / input class that has to be deciding (see DECIDING)
    cx = any(isinstance(c, complex) for _qs, c in terms)
    mon.ok(f"{name}[{'Bessel' if bessel else 'plain'} denominator, {'complex' if cx else 'real'} coefficients]")
    if len(tally) >= 2:
        top = max((qs[-1] for qs, _c in terms if qs), default=-1)
        for b in (8, 64):
            if top >= b and _varies_at_or_above(tally, b):
                mon.ok(f"{name}[term on a qubit >= {b} that varies over the shots]")
        if n >= 65536:
            mon.ok(f"{name}[>= 65536 shots]")
        if k >= 33:
            mon.ok(f"{name}[>= 33 terms]")


def _post_counts(mon, call):
    name = "M.get_counts"
    self = call.args[0]
    shots = _shots_in_domain(getattr(self, "bitstrings", None), allow_empty=True)
    if shots is None:
        mon.out_of_domain(name)
        return
    if call.exc is not None:
        mon.violation("counts-raises", f"get_counts on {len(shots)} shots raised {call.exc!r}")
        return
    exp = _counts_of_tally(Counter(shots)) if len(shots) > 400 or (shots and len(shots[0]) > 8) else R.counts(shots)
    got = call.result
    ok = isinstance(got, dict) and set(got) == set(exp) and all(_is_int(v) and int(v) == exp[k_] for k_, v in got.items())
    if not ok:
        mon.violation("counts-wrong", f"shots {shots[:40]!r}: get_counts() = {got!r}, tally = {exp!r}")
        return
    if sum(got.values()) != len(shots):
        mon.violation("counts-sum", f"counts {got!r} sum to {sum(got.values())}, {len(shots)} shots")
        return
    mon.ok(name)
    if len(shots) >= 65536 and len(got) >= 2:
        mon.ok(f"{name}[>= 65536 shots]")


def _counts_in_domain(counts):
    """dict of 0/1 strings (one width) -> non-negative ints; returns the expected
    multiset of shots, else None"""
    if not isinstance(counts, dict):
        return None
    exp = Counter()
    width = None
    for key, v in counts.items():
        if not isinstance(key, str) or not key or any(ch not in "01" for ch in key):
            return None
        if width is None:
            width = len(key)
        if len(key) != width or not _is_int(v) or v < 0:
            return None
        if v:
            exp[tuple(int(ch) for ch in key)] += int(v)
    return exp


def _multiset(bitstrings):
    objs = {id(s): s for s in bitstrings}
    per_object = Counter(map(id, bitstrings))
    out = Counter()
    for i, s in objs.items():
        t = _clean_shot(s, bits_only=False)
        if t is None:
            return None
        out[t] += per_object[i]
    return out


def _post_from_counts(mon, call):
    name = "M.from_counts"
    counts = _arg(call, 1, "counts")
    exp = _counts_in_domain(counts)
    if exp is None:
        mon.out_of_domain(name)
        return
    if call.exc is not None:
        mon.violation("from-counts-raises", f"from_counts({counts!r}) raised {call.exc!r}")
        return
    got = _multiset(getattr(call.result, "bitstrings", None) or [])
    if got != exp:
        mon.violation("from-counts-wrong", f"from_counts({counts!r}) holds {dict(got) if got is not None else None!r}, expected {dict(exp)!r}")
        return
    mon.ok(name)


def _pre_add_counts(mon, call):
    self = call.args[0]
    b = getattr(self, "bitstrings", None)
    return list(b) if isinstance(b, list) else None


def _post_add_counts(mon, call):
    name = "M.add_counts"
    self = call.args[0]
    counts = _arg(call, 1, "counts")
    add = _counts_in_domain(counts)
    before = _multiset(call.pre) if call.pre is not None else None
    if add is None or before is None:
        mon.out_of_domain(name)
        return
    if call.exc is not None:
        mon.violation("add-counts-raises", f"add_counts({counts!r}) raised {call.exc!r}")
        return
    after = _multiset(self.bitstrings)
    if after != before + add:
        mon.violation("add-counts-wrong",
                      f"add_counts({counts!r}) on {dict(before)!r} gives {dict(after) if after is not None else None!r}")
        return
    mon.ok(name)


def _post_distribution(mon, call):
    name = "M.get_distribution"
    self = call.args[0]
    shots = _shots_in_domain(getattr(self, "bitstrings", None))
    if shots is None:
        mon.out_of_domain(name)
        return
    if call.exc is not None:
        mon.violation("distribution-raises", f"get_distribution on {len(shots)} shots raised {call.exc!r}")
        return
    n = len(shots)
    exp = {k_: v / n for k_, v in Counter(shots).items()}
    try:
        got = {tuple(int(x) for x in k_): float(v) for k_, v in call.result.distribution_dict.items()}
    except Exception as e:
        mon.violation("distribution-wrong", f"result not readable: {e!r}")
        return
    if set(got) != set(exp) or any(abs(got[k_] - exp[k_]) > 1e-12 for k_ in exp):
        mon.violation("distribution-wrong", f"{n} shots with counts {dict(Counter(shots))!r}: distribution {got!r}")
        return
    mon.ok(name)
    if n >= 65536 and len(exp) >= 2:
        mon.ok(f"{name}[>= 65536 shots]")


class OneShot:
    """a one-shot iterable of marked qubits (the signatures say Iterable[int]): can be walked exactly once; the
    monitors read what it held from ``_rv_items``"""

    def __init__(self, items):
        self._rv_items = [int(x) for x in items]
        self._it = iter(self._rv_items)

    def __iter__(self):
        return self

    def __next__(self):
        return next(self._it)

    def __repr__(self):
        return f"OneShot({self._rv_items!r})"


def _nmarked(q):
    return len(q._rv_items) if isinstance(q, OneShot) else len(list(q))


def _snapshot_qubits(q):
    """marked-qubit collections that can be read without consuming them"""
    if isinstance(q, OneShot):
        return list(q._rv_items)
    if isinstance(q, np.ndarray) and q.ndim == 1 and (q.dtype.kind in "iu" or q.size == 0):
        return [int(x) for x in q.tolist()]
    if isinstance(q, type({}.keys())):
        q = list(q)
    if isinstance(q, (tuple, list, set, frozenset, range)):
        qs = list(q)
        if all(_is_int(x) for x in qs):
            return [int(x) for x in qs]
    return None


def _pre_freq(mon, call):
    return _snapshot_qubits(_arg(call, 0, "marked_qubits"))


def _post_freq(mon, call):
    name = "expectation_from_frequencies"
    qs = call.pre
    freqs = _arg(call, 1, "bitstring_frequencies")
    if qs is None or not isinstance(freqs, dict) or not freqs:
        mon.out_of_domain(name)
        return
    width = None
    total = 0
    acc = 0
    for key, v in freqs.items():
        if not isinstance(key, str) or not key or not set(key) <= _BITCHARS or not _is_int(v) or v < 0:
            mon.out_of_domain(name)
            return
        if width is None:
            width = len(key)
        if len(key) != width:
            mon.out_of_domain(name)
            return
        total += int(v)
    if total == 0 or any(q < 0 or q >= width for q in qs):
        mon.out_of_domain(name)
        return
    if call.exc is not None:
        mon.violation("frequencies-raises", f"marked {qs!r} frequencies {freqs!r}: {call.exc!r}")
        return
    for key, v in freqs.items():
        acc += int(v) * R.term_value(qs, key)
    exp = acc / total
    got = call.result
    if not isinstance(got, (int, float)) or not _close(got, exp, 1.0):
        mon.violation("frequencies-wrong", f"marked {qs!r} frequencies {freqs!r}: {got!r}, per-shot mean {exp!r}")
        return
    mon.ok(name)
    if sum(1 for v in freqs.values() if v) >= 2 and qs:
        if max(freqs.values()) >= 2 ** 32:
            mon.ok(f"{name}[an outcome seen >= 2^32 times]")
        if max(qs) >= 64:
            mon.ok(f"{name}[marked qubit >= 64]")


def _bits_of(bitstring):
    if isinstance(bitstring, str):
        if bitstring and all(ch in "01" for ch in bitstring):
            return [int(ch) for ch in bitstring]
        return None
    if isinstance(bitstring, (tuple, list)):
        if bitstring and all(_is_int(b) and b in (0, 1) for b in bitstring):
            return [int(b) for b in bitstring]
    return None


def _pre_parity(mon, call):
    return _snapshot_qubits(_arg(call, 1, "marked_qubits"))


def _post_parity(mon, call):
    name = "check_parity"
    qs = call.pre
    bits = _bits_of(_arg(call, 0, "bitstring"))
    if qs is None or bits is None or any(q < 0 or q >= len(bits) for q in qs):
        mon.out_of_domain(name)
        return
    if call.exc is not None:
        mon.violation("parity-raises", f"check_parity({_arg(call, 0, 'bitstring')!r}, {qs!r}) raised {call.exc!r}")
        return
    exp = R.term_value(qs, bits) == 1
    got = call.result
    if not isinstance(got, (bool, np.bool_)) or bool(got) != exp:
        mon.violation("parity-wrong", f"check_parity({_arg(call, 0, 'bitstring')!r}, {qs!r}) = {got!r}, even parity is {exp}")
        return
    mon.ok(name)
    if qs and max(qs) >= 64:
        mon.ok(f"{name}[marked qubit >= 64]")


def _post_parity_vec(mon, call):
    name = "check_parity_of_vector"
    qs = call.pre
    vec = _arg(call, 0, "bitstrings_vector")
    if qs is None or not isinstance(vec, np.ndarray) or vec.ndim != 2 or vec.shape[0] == 0 or vec.shape[1] == 0 \
            or vec.dtype.kind not in "iu" or not np.isin(vec, (0, 1)).all() \
            or any(q < 0 or q >= vec.shape[1] for q in qs):
        mon.out_of_domain(name)
        return
    if call.exc is not None:
        mon.violation("parity-vector-raises", f"rows {vec.tolist()[:10]!r} marked {qs!r}: {call.exc!r}")
        return
    exp = [1 if R.term_value(qs, row) == 1 else 0 for row in vec.tolist()]
    got = call.result
    try:
        got_l = np.asarray(got).tolist()
    except Exception:
        got_l = None
    if not isinstance(got_l, list) or len(got_l) != len(exp) or any(g != e for g, e in zip(got_l, exp)):
        mon.violation("parity-vector-wrong", f"rows {vec.tolist()[:10]!r} marked {qs!r}: {got_l!r}, expected {exp!r}")
        return
    mon.ok(name)
    if qs and max(qs) >= 64:
        mon.ok(f"{name}[marked qubit >= 64]")


def _post_parities(mon, call):
    name = "get_parities_from_measurements"
    meas = _arg(call, 0, "measurements")
    op = _arg(call, 1, "ising_operator")
    shots = _shots_in_domain(meas)
    if shots is None:
        mon.out_of_domain(name)
        return
    terms = _terms_in_domain(op, len(shots[0]))
    if terms is None:
        mon.out_of_domain(name)
        return
    tally = Counter(shots)
    width = len(shots[0])
    ctx = f"shots={_show_tally(tally, width)} terms={[t for t, _ in terms]!r}"
    if call.exc is not None:
        mon.violation("parities-raises", f"{ctx}: {call.exc!r}")
        return
    k = len(terms)
    if _is_large(len(shots), width, k):
        vals, corr = RM.parities(terms, tally.items())
    else:
        vals, corr = R.parities(terms, shots)
    try:
        gv = np.asarray(call.result.values)
        gcs = call.result.correlations
        gc = np.asarray(gcs[0])
        if len(gcs) != 1 or (k and gv.shape != (k, 2)) or gc.shape != (k, k, 2):
            mon.violation("parities-shape", f"{ctx}: values {gv.shape} correlations {len(gcs)} x {gc.shape}")
            return
    except Exception as e:
        mon.violation("parities-shape", f"{ctx}: result not readable ({e!r})")
        return
    for i in range(k):
        if [gv[i][0], gv[i][1]] != vals[i]:
            mon.violation("parities-values", f"{ctx}: term {i} tallies {gv[i].tolist()!r}, even/odd shots {vals[i]!r}")
            return
    for i in range(k):
        for j in range(k):
            if [gc[i, j, 0], gc[i, j, 1]] != corr[i][j]:
                mon.violation("parities-correlations",
                              f"{ctx}: pair ({i},{j}) tallies {gc[i, j].tolist()!r}, even/odd shots of the product {corr[i][j]!r}")
                return
    mon.ok(name)
    top = max((qs[-1] for qs, _c in terms if qs), default=-1)
    if top >= 64 and _varies_at_or_above(tally, 64):
        mon.ok(f"{name}[term on a qubit >= 64 that varies over the shots]")
    if len(shots) >= 65536 and len(tally) >= 2:
        mon.ok(f"{name}[>= 65536 shots]")


def install(mon, reach):
    from orquestra.quantum.measurements import measurements as MM
    from orquestra.quantum.measurements import parities as PP
    from orquestra.quantum.operators import PauliSum, PauliTerm

    _LIB["PauliSum"], _LIB["PauliTerm"] = PauliSum, PauliTerm
    M = MM.Measurements
    reach.watch(PP.check_parity_of_vector, "check_parity_of_vector",
                markers={"no-marked-qubits": r"return np\.ones", "marked": r"bitstring_subset ="})
    reach.watch(PP.check_parity, "check_parity")
    reach.watch(PP.get_parities_from_measurements, "get_parities_from_measurements")
    reach.watch(MM.get_expectation_value_from_frequencies, "get_expectation_value_from_frequencies")
    reach.watch(getattr(MM, "_convert_bitstrings_to_vector", None), "_convert_bitstrings_to_vector")
    reach.watch(M.get_expectation_values, "Measurements.get_expectation_values",
                markers={"pair-correlation": r"symmetric_difference"})
    reach.watch(M.get_counts, "Measurements.get_counts")
    reach.watch(M.add_counts, "Measurements.add_counts")
    reach.watch(M.from_counts, "Measurements.from_counts")
    reach.watch(M.get_distribution, "Measurements.get_distribution")

    mon.hook_method(M, "get_expectation_values", post=_post_gev, name="M.get_expectation_values")
    mon.hook_method(M, "get_counts", post=_post_counts, name="M.get_counts")
    mon.hook_method(M, "from_counts", post=_post_from_counts, name="M.from_counts")
    mon.hook_method(M, "add_counts", post=_post_add_counts, pre=_pre_add_counts, name="M.add_counts")
    mon.hook_method(M, "get_distribution", post=_post_distribution, name="M.get_distribution")
    mon.hook_func(MM, "get_expectation_value_from_frequencies", post=_post_freq, pre=_pre_freq,
                  name="expectation_from_frequencies")
    mon.hook_func(PP, "check_parity", post=_post_parity, pre=_pre_parity, name="check_parity")
    mon.hook_func(PP, "check_parity_of_vector", post=_post_parity_vec, pre=_pre_parity, name="check_parity_of_vector")
    mon.hook_func(PP, "get_parities_from_measurements", post=_post_parities, name="get_parities_from_measurements")


# ----------------------------------------------------------------------------- building library inputs
def build_operator(rng, terms):
    """term specification -> library operator, through every constructor route.
    Terms are kept as given (no simplification): repeated and constant terms stay."""
    from orquestra.quantum.operators import PauliSum, PauliTerm

    built = []
    for qs, c in terms:
        route = rng.choice(["dict", "string", "iterable", "dict"])
        if not qs:
            route = rng.choice(["I0", "empty", "Iq", "iterable"])
            if route == "I0":
                t = PauliTerm("I0", c)
            elif route == "empty":
                t = PauliTerm({}, c)
            elif route == "Iq":
                t = PauliTerm({rng.randint(0, 9): "I"}, c)
            else:
                t = PauliTerm.from_iterable([], c)
        elif route == "dict":
            order = list(qs)
            rng.shuffle(order)
            t = PauliTerm({q: "Z" for q in order}, c)
        elif route == "string":
            order = list(qs)
            rng.shuffle(order)
            t = PauliTerm("*".join(f"Z{q}" for q in order), c)
        else:
            order = list(qs)
            rng.shuffle(order)
            t = PauliTerm.from_iterable([("Z", q) for q in order], c)
        built.append(t)
    if len(built) == 1 and rng.random() < 0.5:
        return built[0]
    return PauliSum(built)


def _shots_as_given(rng, shots):
    """the same shots with numpy integer entries now and then (simulators return those)"""
    r = rng.random()
    if r < 0.7:
        return list(shots)
    if r < 0.78:
        return [tuple(np.int64(b) for b in s) for s in shots]
    if r < 0.86:
        return [tuple(np.int8(b) if rng.random() < 0.5 else b for b in s) for s in shots]
    # rows of a sample ARRAY of one integer dtype, signed or unsigned, of every width (tuple(row) of what a device
    # driver or numpy's random generator hands back): arithmetic on unsigned bits must not wrap
    dt = rng.choice([np.uint8, np.uint8, np.uint16, np.uint32, np.uint64, np.int16, np.int32, np.intc, np.uintp])
    arr = np.array([list(s) for s in shots], dtype=dt).reshape(len(shots), -1)
    return [tuple(row) for row in arr]


def _desc_shots(shots):
    c = G.counts_of(shots)
    return f"n={len(shots)} w={len(shots[0]) if shots else 0} counts={sorted(c.items())!r}"


def _marked(rng, width, allow_dup=False):
    k = rng.randint(0, width)
    qs = rng.sample(range(width), k)
    if allow_dup and qs and rng.random() < 0.15:
        qs.append(rng.choice(qs))
    kind = rng.choice(["tuple", "list", "set", "frozenset", "range", "ndarray", "np-ints", "dict-keys", "one-shot"])
    if kind == "ndarray":
        return np.array(qs, dtype=int)
    if kind == "np-ints":
        return [np.int64(q) for q in qs]
    if kind == "dict-keys":
        return dict.fromkeys(qs).keys()
    if kind == "one-shot":
        return OneShot(qs)
    if kind == "tuple":
        return tuple(qs)
    if kind == "list":
        return list(qs)
    if kind == "set":
        return set(qs)
    if kind == "frozenset":
        return frozenset(qs)
    a = rng.randint(0, width)
    b = rng.randint(a, width)
    return range(a, b)


# ----------------------------------------------------------------------------- histories
def _build_operator_from(terms, route_seed):
    import random

    return build_operator(random.Random(route_seed), terms)


def _run_history(ctx, plan):
    """Executes a plan of rv.gen.shot_histories.rand_history.  The monitors judge every
    library call against the shots the object holds at that moment; the driver only
    drives (and checks that the counts sum to the current number of shots)."""
    import copy
    import random

    from orquestra.quantum.measurements import Measurements, get_parities_from_measurements
    from orquestra.quantum.measurements.measurements import get_expectation_value_from_frequencies

    mon = ctx.mon
    width = plan["width"]
    objs, sources, last_arg = [], [], []
    for o in plan["objects"]:
        init, shots = o["init"], o["shots"]
        src = arg = None
        if init == "shared" and objs and sources[0] is not None:
            src = sources[0]
            m = Measurements(src)
        elif init == "from_counts":
            arg = G.counts_of(shots)
            m = Measurements.from_counts(arg)
        elif init == "default_add":
            arg = G.counts_of(shots)
            m = Measurements()
            m.add_counts(arg)
        elif init == "np":
            src = [tuple(np.int64(b) for b in s) for s in shots]
            m = Measurements(src)
        else:
            src = list(shots)
            m = Measurements(src)
        objs.append(m)
        sources.append(src)
        last_arg.append(arg)
    ops = [_build_operator_from(t, 1000 + i) for i, t in enumerate(plan["ops"])]
    last_res = {}
    seen = {}  # object index -> (number of shots, multiset) at its previous query

    def assign_items(lst, items):
        if not lst:
            return
        for frac, shot in items:
            lst[int(frac * len(lst)) % len(lst)] = shot

    for st in plan["steps"]:
        kind, j = st[0], st[1]
        if j >= len(objs):
            continue
        m = objs[j]
        # ---- queries
        if kind in ("counts", "dist", "expect", "parities", "freq"):
            now = (len(m.bitstrings), _multiset(m.bitstrings))
            if j in seen and seen[j][1] != now[1]:
                mon.note("history: query after a change that kept the number of shots" if seen[j][0] == now[0]
                         else "history: query after a change of the number of shots")
            elif j in seen:
                mon.note("history: query on unchanged shots")
            seen[j] = now
            if not m.bitstrings:
                kind = "counts"
            if kind == "counts":
                c = m.get_counts()
                n = len(m.bitstrings)
                ctx.check("counts-sum", sum(c.values()) == n, lambda: f"history: {n} shots, counts {c!r}")
                last_res[j] = c
            elif kind == "dist":
                last_res[j] = m.get_distribution()
            elif kind == "expect":
                _k, _j, k, bessel, fresh = st
                op = _build_operator_from(plan["ops"][k], 2000 + k) if fresh else ops[k]
                last_res[j] = m.get_expectation_values(op, bessel)
                del op
            elif kind == "parities":
                get_parities_from_measurements(m.bitstrings, ops[st[2]])
            else:
                c = m.get_counts()
                last_res[j] = c
                get_expectation_value_from_frequencies(st[2], c)
            continue
        # ---- changes
        mon.note(f"history-change:{kind}")
        n = len(m.bitstrings)
        if kind in ("replace_same", "slice_same", "clear_add"):
            (pool, weights), sub = st[2], st[3]
            new = random.Random(sub).choices(pool, weights=weights, k=max(n, 1))
            if kind == "replace_same":
                m.bitstrings = new
            elif kind == "slice_same":
                m.bitstrings[:] = new
            else:
                if st[4] == "assign":
                    m.bitstrings = []
                else:
                    m.bitstrings.clear()
                arg = G.counts_of(new)
                m.add_counts(arg)
                last_arg[j] = arg
        elif kind == "items":
            assign_items(m.bitstrings, st[2])
        elif kind == "source":
            assign_items(sources[j] if sources[j] is not None else m.bitstrings, st[2])
        elif kind == "replace_new":
            m.bitstrings = list(st[2])
        elif kind == "add_counts":
            arg = dict(st[2])
            m.add_counts(arg)
            last_arg[j] = arg
        elif kind == "extend":
            if st[3] == "iadd":
                m.bitstrings += list(st[2])
            elif st[3] == "extend":
                m.bitstrings.extend(st[2])
            else:
                m.bitstrings.append(st[2][0])
        elif kind == "pop":
            k = min(st[2], n - 1)
            if k > 0:
                del m.bitstrings[-k:]
        elif kind == "swap":
            if st[2] < len(objs):
                other = objs[st[2]]
                m.bitstrings, other.bitstrings = other.bitstrings, m.bitstrings
        elif kind == "shuffle":
            random.Random(st[2]).shuffle(m.bitstrings)
        elif kind == "result":
            r = last_res.get(j)
            if isinstance(r, dict):
                for key in list(r):
                    r[key] += 3
                r["1" * width] = 99
                r.pop(next(iter(r)))
            elif r is not None and hasattr(r, "distribution_dict"):
                try:
                    r.distribution_dict.clear()
                except Exception:
                    pass
            elif r is not None:
                for arr in [r.values] + list(r.correlations or []) + list(r.estimator_covariances or []):
                    try:
                        arr[...] = 7
                    except Exception:
                        pass
        elif kind == "arg":
            a = last_arg[j]
            if a is not None:
                for key in list(a):
                    a[key] += 2
                a["0" * width] = 50
        elif kind == "copy":
            if len(objs) < H.MAX_OBJECTS:
                how = st[2]
                src = arg = None
                if how == "copy":
                    new_m = copy.copy(m)
                elif how == "deepcopy":
                    new_m = copy.deepcopy(m)
                elif how == "alias_ctor":
                    src = m.bitstrings
                    new_m = Measurements(src)
                elif how == "list_ctor":
                    src = list(m.bitstrings)
                    new_m = Measurements(src)
                else:
                    arg = m.get_counts()
                    new_m = Measurements.from_counts(arg)
                objs.append(new_m)
                sources.append(src)
                last_arg.append(arg)
        else:
            raise ValueError(kind)


def _container(kind, qs):
    return {"list": list, "set": set, "tuple": tuple, "frozenset": frozenset}[kind](qs)


def _update_marked(live, kind, qs):
    """the same list / set object with the new content when it can be modified"""
    if kind == "list":
        live[:] = qs
        return live
    if kind == "set":
        live.clear()
        live.update(qs)
        return live
    return _container(kind, qs)


def _run_helper_history(ctx, plan):
    from orquestra.quantum.measurements import check_parity, check_parity_of_vector, get_parities_from_measurements
    from orquestra.quantum.measurements.measurements import get_expectation_value_from_frequencies

    kind = plan["kind"]
    calls = plan["calls"]
    mon = ctx.mon
    if kind == "parities":
        ops = [_build_operator_from(t, 3000 + i) for i, t in enumerate(plan["ops"])]
        live = None
        for how, k, shots in calls:
            if how == "inplace" and live is not None and len(live) == len(shots):
                for i, s in enumerate(shots):
                    if live[i] != s:
                        live[i] = s
            else:
                live = list(shots)
            mon.note(f"helper-history:{kind}:{how}")
            get_parities_from_measurements(live, ops[k])
        return
    ckind = plan["container"]
    live = live_marked = None
    for how, marked, value in calls:
        mon.note(f"helper-history:{kind}:{how}")
        inplace = how == "inplace" and live is not None
        live_marked = _update_marked(live_marked, ckind, marked) if inplace else _container(ckind, marked)
        if kind == "freq":
            if inplace:
                for key in [key for key in live if key not in value]:
                    del live[key]
                for key, v in value.items():
                    live[key] = v
            else:
                live = dict(value)
            get_expectation_value_from_frequencies(live_marked, live)
        elif kind == "vector":
            if inplace:
                live[...] = np.array(value, dtype=live.dtype)
            else:
                live = np.array(value, dtype={"int": int, "int8": np.int8, "uint8": np.uint8, "int64": np.int64}[plan["dtype"]])
            check_parity_of_vector(live, live_marked)
        else:
            form = plan["form"]
            if form == "list":
                if inplace:
                    live[:] = value
                else:
                    live = list(value)
            elif form == "str":
                live = "".join(map(str, value))
            else:
                live = tuple(value)
            check_parity(live, live_marked)


# ----------------------------------------------------------------------------- wide registers, large numbers
def _desc_wide(shots):
    c = Counter(shots)
    return f"n={len(shots)} w={len(shots[0])} counts(hex, qubit k = bit k)={sorted((W.hex_of(s), v) for s, v in c.items())!r}"


def _marked_as(rng, qs, width):
    kind = rng.choice(["tuple", "list", "set", "frozenset", "range", "ndarray", "one-shot"])
    if kind == "ndarray":
        return np.array(list(qs), dtype=int)
    if kind == "one-shot":
        return OneShot(qs)
    if kind == "range":
        a = rng.choice(qs) if qs else 0
        return range(a, min(width, a + rng.randint(1, 9)))
    return {"tuple": tuple, "list": list, "set": set, "frozenset": frozenset}[kind](qs)


def _run_wide(ctx):
    """registers of 9-257 qubits; terms and marked qubits next to / above the byte and word
    boundaries; every observed function"""
    from orquestra.quantum.measurements import Measurements, check_parity, check_parity_of_vector, \
        get_parities_from_measurements
    from orquestra.quantum.measurements.measurements import get_expectation_value_from_frequencies

    rng, mon = ctx.rng, ctx.mon
    width = W.rand_width(rng)
    sub = rng.choice(["expect", "expect", "expect", "expect", "parities", "counts", "freq", "parity", "vector"])
    sstyle, shots = W.rand_wide_shots(rng, width, max_shots=40 if sub in ("parity", "vector") else 60)
    tstyle, terms = W.rand_wide_terms(rng, width)
    share = "real"
    distinct = len(set(shots))
    high = W.high_qubits(width)[0]
    reaches = any(qs and qs[-1] >= high for qs, _ in terms)
    mon.note(f"wide:{sub}")
    mon.note(f"wide shots:{sstyle}")
    mon.note(f"wide terms:{tstyle}")
    mon.note(f"wide register:{'9-16' if width <= 16 else '17-32' if width <= 32 else '33-64' if width <= 64 else '65-128' if width <= 128 else '129-257'} qubits")
    if sub in ("expect", "parities"):
        bessel = rng.random() < 0.5
        ctx.describe(f"wide {sub} shots[{sstyle}] {_desc_wide(shots)} terms[{tstyle},{share}]={terms!r} bessel={bessel}",
                     distinct >= 2 and reaches)
        op = build_operator(rng, terms)
        given = _shots_as_given(rng, shots)
        if sub == "parities":
            get_parities_from_measurements(given, op)
            return
        m = Measurements(given)
        m.get_expectation_values(op, bessel)
        m.get_expectation_values(op, use_bessel_correction=not bessel)
        return
    if sub == "counts":
        ctx.describe(f"wide counts shots[{sstyle}] {_desc_wide(shots)}", distinct >= 2)
        m = Measurements(_shots_as_given(rng, shots))
        c = m.get_counts()
        ctx.check("counts-sum", sum(c.values()) == len(shots), lambda: f"{len(shots)} shots, counts {c!r}")
        back = Measurements.from_counts(dict(c))
        c2 = back.get_counts()
        ctx.check("counts-roundtrip", c2 == c and len(back.bitstrings) == len(shots),
                  lambda: f"counts {c!r} -> from_counts -> get_counts {c2!r} ({len(back.bitstrings)} shots)")
        m.get_distribution()
        extra = G.counts_of(W.rand_wide_shots(rng, width, max_shots=12)[1])
        back.add_counts(extra)
        c3 = back.get_counts()
        ctx.check("counts-sum", sum(c3.values()) == len(shots) + sum(extra.values()),
                  lambda: f"{len(shots)} shots + add_counts({extra!r}): counts {c3!r}")
        return
    marked = _marked_as(rng, list(terms[0][0]), width)
    if sub == "freq":
        freqs = G.counts_of(shots)
        ctx.describe(f"wide freq marked={marked!r} {_desc_wide(shots)}", distinct >= 2 and _nmarked(marked) >= 1)
        get_expectation_value_from_frequencies(marked, freqs)
        return
    if sub == "parity":
        bits = shots[0]
        form = rng.choice(["str", "tuple", "list", "np"])
        b = {"str": "".join(map(str, bits)), "tuple": bits, "list": list(bits),
             "np": tuple(np.int64(x) for x in bits)}[form]
        ctx.describe(f"wide parity scalar {form} 0x{W.hex_of(bits)} w={width} marked={marked!r}", _nmarked(marked) >= 1)
        check_parity(b, marked)
        return
    dt = rng.choice([int, np.int8, np.uint8, np.int64])
    ctx.describe(f"wide parity vector {dt.__name__} {_desc_wide(shots)} marked={marked!r}",
                 _nmarked(marked) >= 1 and distinct >= 2)
    check_parity_of_vector(np.array(shots, dtype=dt), marked)


def _run_large(ctx):
    """numbers above 8 / 16 / 32 bit counters: shots (and the multiplicity of one outcome),
    histogram entries, terms of one operator"""
    from orquestra.quantum.measurements import Measurements, get_parities_from_measurements
    from orquestra.quantum.measurements.measurements import get_expectation_value_from_frequencies

    rng, mon = ctx.rng, ctx.mon
    sub = rng.choice(["shots", "shots", "shots", "hist", "hist", "hist", "terms"])
    mon.note(f"large:{sub}")
    if sub == "hist":
        width = rng.choice([1, 2, 3, rng.randint(1, 8), W.rand_width(rng)])
        freqs = W.rand_huge_counts(rng, width)
        marked = _marked(rng, width) if width <= 8 else _marked_as(rng, list(W.rand_wide_terms(rng, width)[1][0][0]), width)
        ctx.describe(f"large hist marked={marked!r} freqs={sorted(freqs.items())!r}", _nmarked(marked) >= 1)
        get_expectation_value_from_frequencies(marked, freqs)
        return
    if sub == "terms":
        width = rng.randint(2, 8)
        sstyle, shots = G.rand_shots(rng, width, max_shots=30)
        terms = W.rand_many_terms(rng, width)
        share = "real"
        bessel = rng.random() < 0.5
        what = rng.choice(["expect", "expect", "parities"]) if len(terms) <= 17 else "expect"
        ctx.describe(f"large terms {what} shots[{sstyle}] {_desc_shots(shots)} {len(terms)} terms[{share}]={terms!r} bessel={bessel}",
                     len(set(shots)) >= 2)
        mon.note(f"large terms:{len(terms)}")
        op = build_operator(rng, terms)
        if what == "parities":
            get_parities_from_measurements(list(shots), op)
            return
        m = Measurements(list(shots))
        m.get_expectation_values(op, bessel)
        m.get_expectation_values(op, not bessel)
        return
    big = rng.random() < 0.1
    width = rng.choice([1, 2, 3, 4, rng.randint(1, 8)])
    multiset, total = W.rand_many_shots(rng, width, big=big)
    tstyle, terms = G.rand_terms(rng, width)
    # the rare (and dear) lists of >= 32767 shots are put through every query
    what = "all" if big else rng.choice(["expect", "expect", "counts", "parities"])
    bessel = rng.random() < 0.5
    ctx.describe(f"large shots {what} n={total} w={width} counts={sorted(multiset)!r} terms[{tstyle}]={terms!r} bessel={bessel}",
                 len(multiset) >= 2)
    mon.note(f"large shots:{'>= 32767' if big else '127-4097'}")
    how = rng.choice(["list", "list", "from_counts", "add"])
    shots = []
    for s_, m_ in multiset:
        shots += [s_] * m_
    if how == "list":
        if total <= 5000 and rng.random() < 0.5:
            rng.shuffle(shots)
        m = Measurements(shots)
    elif how == "from_counts":
        m = Measurements.from_counts(G.counts_of(shots))
    else:
        m = Measurements()
        for s_, m_ in multiset:
            m.add_counts({"".join(map(str, s_)): m_})
    if what in ("counts", "all"):
        c = m.get_counts()
        ctx.check("counts-sum", sum(c.values()) == total, lambda: f"{total} shots, counts {c!r}")
        back = Measurements.from_counts(dict(c))
        c2 = back.get_counts()
        ctx.check("counts-roundtrip", c2 == c and len(back.bitstrings) == total,
                  lambda: f"counts {c!r} -> from_counts -> get_counts {c2!r} ({len(back.bitstrings)} shots)")
        m.get_distribution()
        if what == "counts":
            return
    op = build_operator(rng, terms)
    if what in ("parities", "all"):
        get_parities_from_measurements(m.bitstrings, op)
        if what == "parities":
            return
    m.get_expectation_values(op, bessel)
    m.get_expectation_values(op, not bessel)


# ----------------------------------------------------------------------------- cases
def run_case(ctx):
    from orquestra.quantum.measurements import Measurements, check_parity, check_parity_of_vector, \
        get_parities_from_measurements
    from orquestra.quantum.measurements.measurements import get_expectation_value_from_frequencies

    rng = ctx.rng
    cls = ctx.cls
    mon = ctx.mon

    if cls in ("expect", "expect_boundary", "parities"):
        if cls == "expect_boundary":
            width = rng.choice([1, 1, 2, 8, rng.randint(1, 8)])
            sstyle, shots = G.rand_shots(rng, width, style=rng.choice(["single", "two", "constant", "pool", "cover"]),
                                         max_shots=rng.choice([3, 300]))
            tstyle, terms = G.rand_terms(rng, width, style=rng.choice(
                ["single", "constant_only", "constants", "repeated", "full", "overlap"]))
        else:
            width = rng.randint(1, 8)
            sstyle, shots = G.rand_shots(rng, width)
            tstyle, terms = G.rand_terms(rng, width)
        if cls == "expect" and ctx.index % 1500 == 1499:
            # a record with MORE THAN 2**14 DISTINCT outcomes (16 bits, 17 000 - 20 000 different bitstrings, some twice):
            # whatever is processed in blocks of distinct outcomes has its boundary below this
            width = 16
            codes = rng.sample(range(2 ** 16), rng.choice([17000, 20000]))
            codes += rng.sample(codes, 500)
            shots = [tuple((c >> (15 - q)) & 1 for q in range(16)) for c in codes]
            sstyle = "many-distinct"
            terms = [((0,), 1.5), ((3, 15), -2.0), ((), 2.5)]
            tstyle = "fixed3"
        bessel = rng.random() < 0.5
        distinct = len(set(shots))
        nontrivial = distinct >= 2 and len(terms) >= 2 and any(qs for qs, _ in terms)
        ctx.describe(f"{cls} shots[{sstyle}] {_desc_shots(shots)} terms[{tstyle}]={terms!r} bessel={bessel}", nontrivial)
        mon.note(f"shots:{sstyle}")
        mon.note(f"terms:{tstyle}")
        if G.has_overlapping_pair(terms):
            mon.note("operator with overlapping unequal supports")
        if any(not qs for qs, _ in terms) and any(qs for qs, _ in terms):
            mon.note("operator with a constant inside a sum")
        if len({qs for qs, _ in terms}) < len(terms):
            mon.note("operator with a repeated support")
        op = build_operator(rng, terms)
        given = _shots_as_given(rng, shots)
        if cls == "parities":
            get_parities_from_measurements(given, op)
            return
        m = Measurements(given)
        m.get_expectation_values(op, bessel)
        if rng.random() < 0.5:
            m.get_expectation_values(op, use_bessel_correction=not bessel)
        elif rng.random() < 0.5:
            m.get_expectation_values(op)
        return

    if cls == "counts":
        width = rng.randint(1, 8)
        kind = rng.choice(["from_shots", "from_shots", "from_counts", "add", "empty"])
        if kind == "empty":
            ctx.describe("counts empty measurements", False)
            m = Measurements()
            c = m.get_counts()
            ctx.check("counts-sum", c == {}, lambda: f"empty measurements: counts {c!r}")
            m2 = Measurements.from_counts({})
            ctx.check("counts-roundtrip", m2.bitstrings == [] and m2.get_counts() == {},
                      lambda: f"from_counts({{}}) -> {m2.bitstrings!r}")
            return
        if kind == "from_shots":
            sstyle, shots = G.rand_shots(rng, width)
            ctx.describe(f"counts from_shots[{sstyle}] {_desc_shots(shots)}", len(set(shots)) >= 2)
            m = Measurements(_shots_as_given(rng, shots))
            c = m.get_counts()
            ctx.check("counts-sum", sum(c.values()) == len(shots), lambda: f"{len(shots)} shots, counts {c!r}")
            back = Measurements.from_counts(dict(c))
            c2 = back.get_counts()
            ctx.check("counts-roundtrip", c2 == c and len(back.bitstrings) == len(shots),
                      lambda: f"counts {c!r} -> from_counts -> get_counts {c2!r} ({len(back.bitstrings)} shots)")
            m.get_distribution()
            return
        if kind == "from_counts":
            zero = rng.random() < 0.2
            counts = G.rand_counts(rng, width, zero_entries=zero)
            if not counts:
                counts = {"0" * width: rng.randint(1, 5)}
            if rng.random() < 0.15:
                counts = {k: np.int64(v) for k, v in counts.items()}
            ctx.describe(f"counts from_counts {sorted(counts.items())!r}", sum(1 for v in counts.values() if v) >= 2)
            m = Measurements.from_counts(dict(counts))
            c = m.get_counts()
            pos = {k: int(v) for k, v in counts.items() if v}
            ctx.check("counts-roundtrip", c == pos, lambda: f"from_counts({counts!r}).get_counts() = {c!r}")
            ctx.check("counts-sum", len(m.bitstrings) == sum(pos.values()),
                      lambda: f"from_counts({counts!r}) holds {len(m.bitstrings)} shots")
            if m.bitstrings:
                m.get_distribution()
            return
        # add: histories of add_counts on one object
        sstyle, shots = G.rand_shots(rng, width, max_shots=40)
        steps = [G.rand_counts(rng, width, zero_entries=rng.random() < 0.2) for _ in range(rng.randint(1, 4))]
        ctx.describe(f"counts add {_desc_shots(shots)} + {[sorted(s.items()) for s in steps]!r}",
                     len(set(shots)) >= 2 and any(len(s) >= 2 for s in steps))
        m = Measurements(list(shots)) if rng.random() < 0.7 else Measurements()
        total = Counter(G.counts_of(m.bitstrings))
        for s in steps:
            m.add_counts(dict(s))
            total.update({k: v for k, v in s.items() if v})
            c = m.get_counts()
            ctx.check("counts-sum", c == {k: v for k, v in total.items() if v} and sum(c.values()) == len(m.bitstrings),
                      lambda: f"after add_counts({s!r}): counts {c!r}, running tally {dict(total)!r}")
        return

    if cls == "freq":
        width = rng.randint(1, 8)
        if rng.random() < 0.7:
            sstyle, shots = G.rand_shots(rng, width)
            freqs = G.counts_of(shots)
        else:
            freqs = G.rand_counts(rng, width, zero_entries=rng.random() < 0.3)
            if sum(freqs.values()) == 0:
                freqs["1" * width] = rng.randint(1, 9)
        if rng.random() < 0.2:
            freqs = dict(Counter(freqs))
        marked = _marked(rng, width, allow_dup=True)
        ctx.describe(f"freq marked={marked!r} freqs={sorted(freqs.items())!r}",
                     sum(1 for v in freqs.values() if v) >= 2 and _nmarked(marked) >= 1)
        mon.note(f"marked:{type(marked).__name__}")
        get_expectation_value_from_frequencies(marked, freqs)
        return

    if cls == "parity":
        width = rng.randint(1, 8)
        marked = _marked(rng, width, allow_dup=True)
        if rng.random() < 0.5:
            bits = G.rand_bits(rng, width)
            form = rng.choice(["str", "tuple", "list", "np"])
            if form == "str":
                b = "".join(map(str, bits))
            elif form == "tuple":
                b = bits
            elif form == "list":
                b = list(bits)
            else:
                b = tuple(np.int64(x) for x in bits)
            ctx.describe(f"parity scalar {form} {bits!r} marked={marked!r}", _nmarked(marked) >= 1)
            check_parity(b, marked)
        else:
            sstyle, shots = G.rand_shots(rng, width, max_shots=30)
            dt = rng.choice([int, np.int8, np.uint8, np.int64])
            ctx.describe(f"parity vector {dt.__name__} rows={shots!r} marked={marked!r}",
                         _nmarked(marked) >= 1 and len(set(shots)) >= 2)
            check_parity_of_vector(np.array(shots, dtype=dt), marked)
        return

    if cls == "scale":
        # sizes above plausible thresholds: wide registers / large numbers (shots, multiplicities, terms)
        if rng.random() < 0.6:
            _run_wide(ctx)
        else:
            _run_large(ctx)
        return

    if cls == "history":
        plan = H.rand_history(rng)
        ctx.describe(f"history {H.describe_history(plan)}", H.history_is_nontrivial(plan))
        _run_history(ctx, plan)
        return

    if cls == "helper_history":
        plan = H.rand_helper_history(rng)
        ctx.describe(f"helper_history {plan!r}", H.helper_history_is_nontrivial(plan))
        _run_helper_history(ctx, plan)
        return

    raise ValueError(cls)
