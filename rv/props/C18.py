"""C18 - decomposing a circuit never changes what it does."""
import cmath
import copy
import math
import random
import zlib

import numpy as np
import sympy

from ..gen import circuits as GC
from ..gen.circuits import to_np
from ..ref import linalg as L

ID = "C18"
LEVEL = "exploration"
RULE = (
    "seeded generator by input class: u3 = circuits of 1-8 operations on 1-5 (quick) / 1-6 (thorough) qubits mixing "
    "plain and controlled (1-3 controls) U3 at random and special angles (incl. phi+lambda = 0, 2pi, 4pi) on "
    "arbitrary ordered qubit tuples with other built-in gates, controlled non-U3 gates, daggers/powers, wrapped "
    "U3 look-alikes, idle qubits, a small share of symbolic angles and of non-gate operations, decomposed with "
    "the bundled rule; empty = the same circuits with the empty rule list; order = harness rules Z->S,S / "
    "S->T,T / X->H,Z,H in every order (expected expansions known exactly); mixed = the bundled rule combined "
    "with harness rules (incl. RY->U3 before/after it, the bundled rule twice); direct = direct calls of "
    "decompose_operation(s), predicate and production. non-trivial: a U3-family operation that is controlled "
    "or sits next to another operation sharing a qubit, or a rule chain in which >=2 rules fire on one "
    "operation; distinct = distinct canonical case strings"
)
ASSUMPTIONS = [
    "oracle = whole-sequence reference unitaries (each gate's own .matrix placed by rv.ref.linalg.embed, ordered "
    "product) compared up to ONE global phase taken from the largest entry (1e-8); circuits are compared on the "
    "common register max(width in, width out) after identity padding when the rule list is not empty",
    "operations no rule applies to must come back equal (own structural signature: classes, names, wrapper "
    "nesting, controls, exponent, parameters, qubit tuple) and in order; object identity is only tallied",
    "harness rules are semantics-preserving and their expansions are known, so chains made of them are compared "
    "exactly with an independent recursive model of 'apply each rule, in order, to the previous rule's output'",
    "symbolic angles are judged at one fixed real assignment substituted into each gate's sympy matrix",
    "gates named like a built-in but defined by the user (discouraged by the library's documentation) are outside "
    "the workload",
]
DECIDING = ["circuit", "circuit.empty-rules", "operations", "operation", "chain-exact",
            "predicate", "production"]
BUDGET = {"quick": (4, 25, 140), "thorough": (16, 150, 1500)}
CASE_TIMEOUT = {"quick": 20, "thorough": 40}

K2 = "K2-controlled-u3-relative-phase"
PHASE_TOL = 1e-8


def classes(tier):
    return ["u3", "empty", "order", "mixed", "direct", "history"]


# ----------------------------------------------------------------------------- views of library objects
def _cname(x):
    return type(x).__name__


def _is_gate_op(op):
    return _cname(op) == "GateOperation"


def _is_nongate_op(op):
    return _cname(op) in ("MultiPhaseOperation", "ResetOperation")


def _is_builtin_u3(gate):
    return (_cname(gate) == "MatrixFactoryGate" and gate.name == "U3" and len(gate.params) == 3
            and getattr(gate.matrix_factory, "__name__", "") == "u3_matrix")


def _mentions_u3(gate):
    for _ in range(12):
        if _cname(gate) == "MatrixFactoryGate":
            return gate.name == "U3"
        if hasattr(gate, "wrapped_gate"):
            gate = gate.wrapped_gate
        else:
            return False
    return False


def _u3_status(op):
    """'plain' / 'controlled' (what the bundled rule has to replace), 'exotic'
    (U3 under another wrapper: no verdict on the predicate), 'no'"""
    if not _is_gate_op(op):
        return "no"
    g = op.gate
    if _is_builtin_u3(g):
        return "plain"
    if _cname(g) == "ControlledGate" and _is_builtin_u3(g.wrapped_gate):
        return "controlled"
    return "exotic" if _mentions_u3(g) else "no"


def _param_sig(p):
    if isinstance(p, sympy.Basic):
        return "s:" + sympy.srepr(p)
    return f"{type(p).__name__}:{p!r}"


def _gate_sig(g):
    c = _cname(g)
    if c == "MatrixFactoryGate":
        return (c, g.name, g.num_qubits, tuple(_param_sig(p) for p in g.params),
                getattr(g.matrix_factory, "__name__", _cname(g.matrix_factory)))
    if c == "ControlledGate":
        return (c, g.num_control_qubits, _gate_sig(g.wrapped_gate))
    if c == "Power":
        return (c, repr(g.exponent), _gate_sig(g.wrapped_gate))
    if c in ("Dagger", "Exponential"):
        return (c, _gate_sig(g.wrapped_gate))
    return (c, repr(g))


def _op_sig(op):
    if _is_gate_op(op):
        return ("op", _gate_sig(op.gate), tuple(int(q) for q in op.qubit_indices))
    return (_cname(op), tuple(_param_sig(p) for p in getattr(op, "params", ())),
            tuple(getattr(op, "qubit_indices", ())))


def _same_op(a, b):
    return a is b or _op_sig(a) == _op_sig(b)


def _show_gate(g):
    c = _cname(g)
    if c == "MatrixFactoryGate":
        return g.name + ("(" + ", ".join(str(p) for p in g.params) + ")" if g.params else "")
    if c == "ControlledGate":
        return f"C{g.num_control_qubits}[{_show_gate(g.wrapped_gate)}]"
    if c == "Power":
        return f"Pow[{_show_gate(g.wrapped_gate)}, {g.exponent!r}]"
    if c in ("Dagger", "Exponential"):
        return f"{c}[{_show_gate(g.wrapped_gate)}]"
    return repr(g)


def _show_op(op):
    if _is_gate_op(op):
        return f"{_show_gate(op.gate)}@{','.join(str(q) for q in op.qubit_indices)}"
    return f"{_cname(op)}{tuple(getattr(op, 'params', ()))}"


def _show_ops(ops):
    return "[" + "; ".join(_show_op(o) for o in ops) + "]"


def _is_lib_rule(r):
    return _cname(r) == "U3GateToRotation"


def _is_harness_rule(r):
    return isinstance(r, HarnessRule)


def _show_rules(rules):
    return "[" + ", ".join("U3GateToRotation" if _is_lib_rule(r) else getattr(r, "label", _cname(r)) for r in rules) + "]"


def _rules_known(rules):
    return isinstance(rules, (list, tuple)) and all(_is_lib_rule(r) or _is_harness_rule(r) for r in rules)


# ----------------------------------------------------------------------------- matrices
_MAT_CACHE = {}


def _free_symbols(ops):
    out = set()
    for op in ops:
        for p in getattr(op, "params", ()):
            if isinstance(p, sympy.Basic):
                out |= p.free_symbols
    return out


def _assignment(ops):
    syms = sorted(_free_symbols(ops), key=lambda s: s.name)
    if not syms:
        return None
    r = random.Random(zlib.crc32(",".join(s.name for s in syms).encode()))
    return {s: sympy.Float(round(r.uniform(-3, 3), 6)) for s in syms}


def _gate_matrix(gate, sub):
    """numeric matrix of the library gate (its own .matrix, taken as given)"""
    if sub is not None and gate.free_symbols:
        return to_np(gate.matrix.xreplace(sub))
    key = repr(gate)
    m = _MAT_CACHE.get(key)
    if m is None:
        m = to_np(gate.matrix)
        if len(_MAT_CACHE) < 5000:
            _MAT_CACHE[key] = m
    return m


def _num(p, sub):
    if isinstance(p, sympy.Basic):
        return float(p.xreplace(sub) if sub else p)
    return float(p)


def _seq_unitary(ops, W, sub, k2=False):
    """ordered product on a W-qubit register; with k2=True every controlled-U3 is
    replaced by controlled-(exp(-i(phi+lambda)/2) U3): the predicted result of
    known finding K2"""
    U = np.eye(2**W, dtype=complex)
    for op in ops:
        g = op.gate
        if k2 and _u3_status(op) == "controlled":
            _theta, phi, lam = (_num(p, sub) for p in g.params)
            M = L.controlled(cmath.exp(-0.5j * (phi + lam)) * _gate_matrix(g.wrapped_gate, sub), g.num_control_qubits)
        else:
            M = _gate_matrix(g, sub)
        U = L.embed(M, tuple(int(q) for q in op.qubit_indices), W) @ U
    return U


def _span(ops):
    w = 0
    for op in ops:
        qs = tuple(getattr(op, "qubit_indices", ()))
        if qs:
            w = max(w, max(qs) + 1)
    return w


# ----------------------------------------------------------------------------- independent model of the chaining
def _model(op, rules):
    """Expected output of the rule chain for one operation, or None when only its
    action can be judged (the bundled rule fires on it: the property does not fix
    the replacement sequence)."""
    if not rules:
        return [op]
    r, rest = rules[0], rules[1:]
    if _is_lib_rule(r):
        if _u3_status(op) != "no":
            return None
        new = [op]
    else:
        new = list(r.rv_expand(op)) if r.rv_matches(op) else [op]
    out = []
    for o in new:
        m = _model(o, rest)
        if m is None:
            return None
        out += m
    return out


def _u3_must_vanish(rules):
    lib = [i for i, r in enumerate(rules) if _is_lib_rule(r)]
    if not lib:
        return False
    return not any(_is_harness_rule(r) and r.makes_u3 for r in rules[lib[-1] + 1:])


def _judge(mon, what, in_ops, out_ops, rules, W=None):
    """Compare the output sequence of a decomposition with its input.  Returns
    (ok, chain_exact): records the violation itself."""
    in_ops, out_ops, rules = list(in_ops), list(out_ops), list(rules)
    # 0. well-formed output
    for o in out_ops:
        if _is_gate_op(o):
            if len(o.qubit_indices) != o.gate.num_qubits or len(set(o.qubit_indices)) != len(o.qubit_indices):
                mon.violation("malformed-operation",
                              f"{what}: output operation {_show_op(o)} names {len(o.qubit_indices)} qubits for a "
                              f"{o.gate.num_qubits}-qubit gate")
                return False, False
        elif not _is_nongate_op(o):
            mon.violation("malformed-operation", f"{what}: output contains {o!r}")
            return False, False
    # 1. exact expectation where the chain consists of modelled steps only
    models = [_model(op, rules) for op in in_ops]
    exact = all(m is not None for m in models)
    chain_exact = False
    if exact:
        exp = [o for m in models for o in m]
        if len(exp) != len(out_ops) or not all(_same_op(a, b) for a, b in zip(out_ops, exp)):
            kind = "empty-rules-changes-operations" if not rules else (
                "untouched-operation-changed" if all(len(m) == 1 and m[0] is op for m, op in zip(models, in_ops))
                else "rule-chain-order")
            mon.violation(kind, f"{what}: got {_show_ops(out_ops)} expected {_show_ops(exp)}")
            return False, False
        fired = sum(1 for r_i in range(len(rules)) if _is_harness_rule(rules[r_i])
                    and any(_chain_fires(op, rules, r_i) for op in in_ops))
        chain_exact = len(rules) >= 2 and fired >= 2
        if all(len(m) == 1 and m[0] is op for m, op in zip(models, in_ops)):
            # nothing applied: are the untouched operations the very same objects?
            mon.note("untouched:identical-objects" if all(a is b for a, b in zip(out_ops, exp))
                     else "untouched:equal-copies")
    else:
        # untouched operations: kept, equal, in order (greedy subsequence match)
        pos = 0
        for op, m in zip(in_ops, models):
            if m is not None and len(m) == 1 and m[0] is op:
                while pos < len(out_ops) and not _same_op(out_ops[pos], op):
                    pos += 1
                if pos == len(out_ops):
                    mon.violation("untouched-operation-changed",
                                  f"{what}: {_show_op(op)} (no rule applies) is missing or out of order in "
                                  f"{_show_ops(out_ops)}")
                    return False, False
                pos += 1
    # 2. every U3 / controlled U3 is replaced when the bundled rule has the last word
    if _u3_must_vanish(rules):
        left = [o for o in out_ops if _u3_status(o) in ("plain", "controlled")]
        if left:
            mon.violation("u3-not-replaced", f"{what}: output still contains {_show_ops(left)}")
            return False, False
    # 3. same action up to one global phase (non-gate operations act as barriers)
    seg_in, seg_out = _segments(in_ops), _segments(out_ops)
    if len(seg_in) != len(seg_out):
        mon.violation("untouched-operation-changed",
                      f"{what}: non-gate operations of {_show_ops(in_ops)} not kept in {_show_ops(out_ops)}")
        return False, False
    sub = _assignment(in_ops + out_ops)
    has_lib = any(_is_lib_rule(r) for r in rules)
    for a, b in zip(seg_in, seg_out):
        if not a and not b:
            continue
        width = max(W or 0, _span(a), _span(b), 1)
        if width > 8:
            mon.out_of_domain("width")
            continue
        Ua, Ub = _seq_unitary(a, width, sub), _seq_unitary(b, width, sub)
        cu3 = [o for o in a if _u3_status(o) == "controlled"]
        if L.equal_up_to_phase(Ub, Ua, PHASE_TOL):
            if has_lib and cu3:
                mon.note("controlled-u3:same-action (phi+lambda = 0 mod 4pi)")
            continue
        if has_lib and cu3 and L.equal_up_to_phase(Ub, _seq_unitary(a, width, sub, k2=True), PHASE_TOL):
            mon.note("K2:controls=" + ",".join(sorted({str(o.gate.num_control_qubits) for o in cu3})))
            mon.violation(
                "controlled-u3-relative-phase",
                f"{what}: output {_show_ops(b)} acts like the input with every controlled U3 replaced by "
                f"controlled exp(-i(phi+lambda)/2)*U3 (relative phase on the control=1 subspace)",
                known=K2)
            return False, False
        p = L.phase_between(Ub, Ua)
        d = L.maxdiff(Ub, p * Ua) if p is not None else float("inf")
        mon.violation("action-changed",
                      f"{what}: {_show_ops(b)} differs from {_show_ops(a)} by more than a global phase "
                      f"(residual {d:.3e} on {width} qubits)")
        return False, False
    return True, chain_exact


def _chain_fires(op, rules, idx):
    """does rule number idx fire on something derived from op (harness rules only upstream)?"""
    cur = [op]
    for i, r in enumerate(rules):
        if i == idx:
            if _is_lib_rule(r):
                return any(_u3_status(o) in ("plain", "controlled") for o in cur)
            return any(r.rv_matches(o) for o in cur)
        if _is_lib_rule(r):
            if any(_u3_status(o) != "no" for o in cur):
                return False
            continue
        nxt = []
        for o in cur:
            nxt += list(r.rv_expand(o)) if r.rv_matches(o) else [o]
        cur = nxt
    return False


def _segments(ops):
    segs, cur = [], []
    for o in ops:
        if _is_gate_op(o):
            cur.append(o)
        else:
            segs.append(cur)
            cur = []
    segs.append(cur)
    return segs


def _ops_in_domain(ops):
    return isinstance(ops, (list, tuple)) and all(_is_gate_op(o) or _is_nongate_op(o) for o in ops)


# ----------------------------------------------------------------------------- monitors
def _get(call, i, name, default=None):
    if len(call.args) > i:
        return call.args[i]
    return call.kwargs.get(name, default)


def _raise_kind(ops):
    return "decompose-raises-on-non-gate-operation" if any(_is_nongate_op(o) for o in ops) else "decompose-raises"


def _post_circuit(mon, call):
    name = "circuit"
    circuit, rules = _get(call, 0, "circuit"), _get(call, 1, "decomposition_rules")
    if _cname(circuit) != "Circuit" or not _rules_known(rules) or not _ops_in_domain(circuit.operations):
        mon.out_of_domain(name)
        return
    ops = list(circuit.operations)
    what = f"decompose_orquestra_circuit(n_qubits={circuit.n_qubits} {_show_ops(ops)}, {_show_rules(rules)})"
    if call.exc is not None:
        if isinstance(call.exc, Exception):
            mon.violation(_raise_kind(ops), f"{what} raised {call.exc!r}")
        return
    res = call.result
    if _cname(res) != "Circuit":
        mon.violation("result-not-a-circuit", f"{what} returned {res!r}")
        return
    W = max(int(circuit.n_qubits), int(res.n_qubits), _span(ops), _span(res.operations), 1)
    ok, exact = _judge(mon, what, ops, res.operations, rules, W)
    if not ok:
        return
    if int(res.n_qubits) != int(circuit.n_qubits):
        mon.note("width-changed")
    if not rules:
        if int(res.n_qubits) != int(circuit.n_qubits):
            mon.violation("empty-rules-changes-width",
                          f"{what}: returned circuit has n_qubits={res.n_qubits}, the original {circuit.n_qubits}")
            return
        mon.ok("circuit.empty-rules")
    mon.ok(name)
    if exact:
        mon.ok("chain-exact")


class OneShot:
    """a one-shot iterable of operations (the signature says Iterable): can be walked exactly once; the monitor
    reads what it held from ``_rv_items``"""

    def __init__(self, items):
        self._rv_items = list(items)
        self._it = iter(self._rv_items)

    def __iter__(self):
        return self

    def __next__(self):
        return next(self._it)


def _post_operations(mon, call):
    name = "operations"
    ops, rules = _get(call, 0, "operations"), _get(call, 1, "decomposition_rules")
    if isinstance(ops, OneShot):
        ops = ops._rv_items
        mon.note("operations:one-shot-iterable")
    if not _ops_in_domain(ops) or not _rules_known(rules):
        mon.out_of_domain(name)
        return
    what = f"decompose_operations({_show_ops(ops)}, {_show_rules(rules)})"
    if call.exc is not None:
        if isinstance(call.exc, Exception):
            mon.violation(_raise_kind(ops), f"{what} raised {call.exc!r}")
        return
    if not isinstance(call.result, (list, tuple)):
        mon.violation("result-not-a-list", f"{what} returned {call.result!r}")
        return
    ok, exact = _judge(mon, what, ops, call.result, rules)
    if ok:
        mon.ok(name)
        if exact:
            # a chain of >= 2 modelled rules that fired, judged exactly - at whichever entry point the library
            # routes it through (how the entry points call each other is not part of the property)
            mon.ok("chain-exact")


def _post_operation(mon, call):
    name = "operation"
    op, rules = _get(call, 0, "operation"), _get(call, 1, "decomposition_rules")
    if not _ops_in_domain([op]) or not _rules_known(rules):
        mon.out_of_domain(name)
        return
    what = f"decompose_operation({_show_op(op)}, {_show_rules(rules)})"
    if call.exc is not None:
        if isinstance(call.exc, Exception):
            mon.violation(_raise_kind([op]), f"{what} raised {call.exc!r}")
        return
    if not isinstance(call.result, (list, tuple)):
        mon.violation("result-not-a-list", f"{what} returned {call.result!r}")
        return
    ok, exact = _judge(mon, what, [op], call.result, rules)
    if ok:
        mon.ok(name)
        if exact:
            mon.ok("chain-exact")


def _post_predicate(mon, call):
    name = "predicate"
    op = _get(call, 1, "operation")
    if _is_nongate_op(op):
        if call.exc is not None and isinstance(call.exc, Exception):
            mon.violation("predicate-raises-on-non-gate-operation",
                          f"U3GateToRotation.predicate({_show_op(op)}) raised {call.exc!r}")
        elif call.exc is None and call.result:
            mon.violation("predicate-matches-non-u3", f"U3GateToRotation.predicate({_show_op(op)}) is true")
        elif call.exc is None:
            mon.ok(name)
        return
    if not _is_gate_op(op):
        mon.out_of_domain(name)
        return
    st = _u3_status(op)
    if st == "exotic":
        mon.out_of_domain(name)
        return
    if call.exc is not None:
        if isinstance(call.exc, Exception):
            mon.violation("predicate-raises", f"U3GateToRotation.predicate({_show_op(op)}) raised {call.exc!r}")
        return
    want = st in ("plain", "controlled")
    if bool(call.result) != want:
        mon.violation("predicate-misses-u3" if want else "predicate-matches-non-u3",
                      f"U3GateToRotation.predicate({_show_op(op)}) = {call.result!r}")
        return
    mon.note(f"predicate:{st}")
    mon.ok(name)


def _post_production(mon, call):
    name = "production"
    op = _get(call, 1, "operation")
    if not _is_gate_op(op) or _u3_status(op) not in ("plain", "controlled"):
        mon.out_of_domain(name)
        return
    what = f"U3GateToRotation.production({_show_op(op)})"
    if call.exc is not None:
        if isinstance(call.exc, Exception):
            mon.violation("production-raises", f"{what} raised {call.exc!r}")
        return
    res = call.result
    if isinstance(res, (list, tuple)):
        seq = list(res)
    else:
        # the result may be a one-shot iterator that belongs to the caller: look at a copy
        try:
            seq = list(copy.copy(res))
        except Exception:
            mon.out_of_domain(name)
            return
    ok, _ = _judge(mon, what, [op], seq, [call.args[0]])
    if ok:
        foreign = [o for o in seq if not set(o.qubit_indices) <= set(op.qubit_indices)]
        if foreign:
            mon.violation("production-foreign-qubit", f"{what} -> {_show_ops(seq)}")
            return
        mon.ok(name)


def install(mon, reach):
    from orquestra.quantum.decompositions import _decomposition as D
    from orquestra.quantum.decompositions import _orquestra_decompositions as OD

    mon.max_depth = 4  # circuit -> operations -> operation -> predicate/production (and one recursion level)
    reach.watch(D.decompose_operation, "decompose_operation",
                markers={"no-rules": r"return \[operation\]", "recurse": r"for decomposed_op in decompose_operation"})
    reach.watch(D.decompose_operations, "decompose_operations")
    reach.watch(OD.decompose_orquestra_circuit, "decompose_orquestra_circuit")
    reach.watch(OD.U3GateToRotation.predicate, "U3GateToRotation.predicate")
    reach.watch(OD.U3GateToRotation.production, "U3GateToRotation.production")
    mon.hook_func(OD, "decompose_orquestra_circuit", post=_post_circuit, name="decompose_orquestra_circuit")
    mon.hook_func(D, "decompose_operations", post=_post_operations, name="decompose_operations")
    mon.hook_func(D, "decompose_operation", post=_post_operation, name="decompose_operation")
    mon.hook_method(OD.U3GateToRotation, "predicate", post=_post_predicate, name="U3GateToRotation.predicate")
    mon.hook_method(OD.U3GateToRotation, "production", post=_post_production, name="U3GateToRotation.production")


# ----------------------------------------------------------------------------- harness rules
class HarnessRule:
    """A decomposition rule of the harness with a known, semantics-preserving
    expansion.  ``style`` varies the kind of iterable ``production`` returns."""

    def __init__(self, label, matches, expand, makes_u3=False, style="list"):
        self.label = label
        self.rv_matches = matches
        self.rv_expand = expand
        self.makes_u3 = makes_u3
        self.style = style

    def predicate(self, operation):
        return self.rv_matches(operation)

    def production(self, operation):
        out = list(self.rv_expand(operation))
        if self.style == "tuple":
            return tuple(out)
        if self.style == "generator":
            return (o for o in out)
        if self.style == "reversed":
            return reversed(out[::-1])
        return out


def _plain(op, gname):
    return _is_gate_op(op) and _cname(op.gate) == "MatrixFactoryGate" and op.gate.name == gname


def harness_rules(rng):
    from orquestra.quantum.circuits import RY, U3, H, S, T, Z  # noqa: F401

    def st():
        return rng.choice(["list", "list", "tuple", "generator", "reversed"])

    return {
        "Z->S,S": HarnessRule("Z->S,S", lambda o: _plain(o, "Z"),
                              lambda o: [S(*o.qubit_indices), S(*o.qubit_indices)], style=st()),
        "S->T,T": HarnessRule("S->T,T", lambda o: _plain(o, "S"),
                              lambda o: [T(*o.qubit_indices), T(*o.qubit_indices)], style=st()),
        "X->H,Z,H": HarnessRule("X->H,Z,H", lambda o: _plain(o, "X"),
                                lambda o: [H(*o.qubit_indices), Z(*o.qubit_indices), H(*o.qubit_indices)], style=st()),
        "RY->U3": HarnessRule("RY->U3", lambda o: _plain(o, "RY"),
                              lambda o: [U3(o.gate.params[0], 0, 0)(*o.qubit_indices)], makes_u3=True, style=st()),
    }


# ----------------------------------------------------------------------------- generators
OTHER_NAMES = ["X", "Y", "Z", "H", "I", "S", "SX", "T", "RX", "RY", "RZ", "RH", "PHASE", "GPi", "GPi2",
               "CNOT", "CZ", "SWAP", "ISWAP", "CPHASE", "XX", "YY", "ZZ", "XY", "MS"]


def _near_special(rng):
    """a multiple of pi/2 (up to a few turns) missed by 1e-7 .. 1e-3: an angle that an "is this rotation trivial /
    a Clifford / a multiple of 2 pi" test made with a tolerance takes for the special one, while the gate differs
    from the special one by far more than the oracle's tolerance"""
    return rng.randint(-8, 8) * math.pi / 2 + rng.choice([1, -1]) * rng.choice([1e-3, 3e-5, 5e-5, 1e-6, 1e-7])


def rand_u3_angles(rng):
    if rng.random() < 0.15:
        return tuple(_near_special(rng) if rng.random() < 0.6 else rng.uniform(-6.3, 6.3) for _ in range(3))
    r = rng.random()
    theta = rng.choice([0.0, math.pi / 2, math.pi, -math.pi / 3, 2 * math.pi]) if rng.random() < 0.3 else rng.uniform(-6.3, 6.3)
    if r < 0.12:
        phi = rng.uniform(-3, 3)
        return theta, phi, -phi  # phi+lambda = 0
    if r < 0.2:
        phi = rng.uniform(-3, 3)
        return theta, phi, rng.choice([4, -4, 8]) * math.pi - phi  # multiple of 4 pi
    if r < 0.28:
        phi = rng.uniform(-3, 3)
        return theta, phi, rng.choice([2, -2, 6]) * math.pi - phi  # odd multiple of 2 pi
    if r < 0.4:
        return theta, rng.choice([0, 0.0, math.pi, math.pi / 2, -math.pi]), rng.choice([0, math.pi, math.pi / 2, 1])
    if r < 0.45:
        return rng.choice([1, 2, -1]), rng.choice([1, 3, 0]), rng.choice([2, -1, 0])  # ints
    return theta, rng.uniform(-6.3, 6.3), rng.uniform(-6.3, 6.3)


def rand_symbolic_angles(rng):
    a, b, c = (sympy.Symbol(n) for n in rng.sample(["theta", "phi", "lambda_", "alpha", "beta_1", "x"], 3))
    choice = rng.random()
    if choice < 0.5:
        return a, b, c
    if choice < 0.75:
        return a, 2 * b, b + c
    return a, b, sympy.Float(0.5)


def rand_u3_op(rng, n, symbolic=False, max_controls=3):
    from orquestra.quantum.circuits import U3

    angles = rand_symbolic_angles(rng) if symbolic else rand_u3_angles(rng)
    g = U3(*angles)
    k = 0
    if n >= 2 and rng.random() < 0.55:
        k = rng.randint(1, min(max_controls, n - 1))
        if rng.random() < 0.25 and k >= 2:
            g = g.controlled(1).controlled(k - 1)
        else:
            g = g.controlled(k)
    qs = GC.rand_qubits(rng, k + 1, n)
    return g(*qs)


def rand_other_op(rng, n, nprng=None):
    from orquestra.quantum.circuits import PHASE, RX, RY, RZ, U3, ControlledGate, H, S, T, X, Z

    r = rng.random()
    if r < 0.5 or n == 1 and r < 0.8:
        g, _ = GC.rand_builtin(rng, max_nq=min(2, n), names=OTHER_NAMES, allow_u3=False)
    elif r < 0.72:
        base = rng.choice([X, Z, H, S, RY(GC.rand_angle(rng)), RZ(GC.rand_angle(rng)), RX(GC.rand_angle(rng)),
                           PHASE(GC.rand_angle(rng))])
        g = base.controlled(rng.randint(1, min(2, n - 1)))
    elif r < 0.84:
        g = rng.choice([RX(GC.rand_angle(rng)).dagger, S.dagger, T.dagger, T.power(2), RY(GC.rand_angle(rng)).power(2),
                        S.dagger.controlled(1) if n >= 2 else S.dagger])
    else:
        u = U3(*rand_u3_angles(rng))
        opts = [u.dagger, u.power(2)]
        if n >= 2:
            opts += [u.dagger.controlled(1)]
        if n >= 3:
            opts += [ControlledGate(ControlledGate(u, 1), 1)]
        g = rng.choice(opts)
    return g(*GC.rand_qubits(rng, g.num_qubits, n))


def rand_nongate_op(rng, n):
    from orquestra.quantum.circuits import MultiPhaseOperation, ResetOperation

    if rng.random() < 0.6:
        return MultiPhaseOperation(tuple(round(rng.uniform(-3, 3), 3) for _ in range(2**n)))
    return ResetOperation(rng.randrange(n))


def rand_circuit(rng, tier_quick, p_u3=0.45, symbolic=False, nongate=False, min_ops=1):
    from orquestra.quantum.circuits import Circuit

    n = rng.randint(1, 5 if tier_quick else 6)
    if nongate:
        n = min(n, 3)
    length = rng.randint(min_ops, 8)
    ops = []
    for _ in range(length):
        if rng.random() < p_u3:
            ops.append(rand_u3_op(rng, n, symbolic=symbolic))
        else:
            ops.append(rand_other_op(rng, n))
    if symbolic and rng.random() < 0.6:
        # a TWIN of one symbolic U3 operation: same controls, same qubits, angles that PRINT the same and are other
        # symbols (declared real) - the two operations are different operations and get different values
        sym_ops = [o for o in ops if _u3_status(o) in ("plain", "controlled") and getattr(o.gate, "free_symbols", None)]
        if sym_ops:
            o = rng.choice(sym_ops)
            ren = {x: sympy.Symbol(x.name, real=True) for x in o.gate.free_symbols}
            newp = tuple(p.xreplace(ren) if isinstance(p, sympy.Basic) else p for p in o.gate.params)
            ops.insert(rng.randint(0, len(ops)), o.gate.replace_params(newp)(*o.qubit_indices))
    if nongate:
        ops.insert(rng.randint(0, len(ops)), rand_nongate_op(rng, n))
    idle = rng.random() < 0.3
    width = n + rng.randint(1, 2) if idle else None
    if rng.random() < 0.08:
        ops = []
        width = rng.choice([None, 1, 3])
    return Circuit(ops, n_qubits=width) if width else Circuit(ops), n


def _nontrivial_circuit(ops):
    u3 = [o for o in ops if _u3_status(o) in ("plain", "controlled")]
    if not u3:
        return False
    if any(_u3_status(o) == "controlled" for o in u3):
        return True
    for o in u3:
        for p in ops:
            if p is not o and _is_gate_op(p) and set(p.qubit_indices) & set(o.qubit_indices):
                return True
    return False


def _desc_circuit(c):
    return f"n_qubits={c.n_qubits} {_show_ops(c.operations)}"


# ----------------------------------------------------------------------------- cases
def run_case(ctx):
    from orquestra.quantum.circuits import RY, Circuit, H, S, T, X, Z
    from orquestra.quantum.decompositions import U3GateToRotation, decompose_orquestra_circuit
    from orquestra.quantum.decompositions._decomposition import decompose_operation, decompose_operations

    rng = ctx.rng
    cls = ctx.cls
    mon = ctx.mon
    quick = ctx.quick

    if cls in ("u3", "empty"):
        symbolic = cls == "u3" and rng.random() < 0.12
        nongate = rng.random() < 0.08
        circuit, n = rand_circuit(rng, quick, symbolic=symbolic, nongate=nongate,
                                  p_u3=0.45 if cls == "u3" else 0.3)
        rules = [U3GateToRotation()] if cls == "u3" else []
        ctx.describe(f"{cls} {_desc_circuit(circuit)}" + (" symbolic" if symbolic else ""),
                     _nontrivial_circuit(circuit.operations) if cls == "u3" else
                     (len(circuit.operations) >= 2 and circuit.n_qubits > _span(circuit.operations)
                      or _nontrivial_circuit(circuit.operations)))
        mon.note(f"{cls}:ops={min(len(circuit.operations), 8)}")
        if nongate:
            mon.note(f"{cls}:with-non-gate-operation")
        if symbolic:
            mon.note("u3:symbolic-angles")
        for o in circuit.operations:
            st = _u3_status(o)
            if st == "controlled":
                mon.note(f"u3-family:controlled[{o.gate.num_control_qubits}]")
            elif st != "no":
                mon.note(f"u3-family:{st}")
        before = [_op_sig(o) for o in circuit.operations]
        if ctx.index % 3 == 1 and not symbolic:
            # the circuit has been USED before it is decomposed (its gates' matrices were asked for - a simulation, a
            # to_unitary): whatever a gate object remembers of that must not travel into the gates the rule builds from it
            for o in circuit.operations:
                try:
                    getattr(o, "gate", None) is not None and o.gate.matrix
                except Exception:
                    pass
            mon.note(f"{cls}:gate-matrices-evaluated-before-decomposition")
        res = decompose_orquestra_circuit(circuit, rules)
        ctx.check("source-circuit-untouched", [_op_sig(o) for o in circuit.operations] == before,
                  lambda: f"the decomposed circuit's own operations changed: {_desc_circuit(circuit)}")
        return

    if cls == "history":
        # ONE rule instance over several requests in one process: the same operation several times in one circuit
        # (equal objects and the very same object), sibling operations that agree in name / parameters / qubits but
        # not in what they are, the same circuit decomposed twice, the result decomposed again, results emptied by
        # their owner in between.  Every call is judged by the hooks.
        lib = U3GateToRotation()
        n = rng.randint(1, 4)
        base_ops = [rand_u3_op(rng, n, max_controls=2) for _ in range(rng.randint(1, 3))]
        u = base_ops[0]
        sibs = []
        from orquestra.quantum.circuits import U3 as _U3

        ang = tuple(u.gate.params) if len(u.gate.params) == 3 else tuple(rand_u3_angles(rng))
        if n >= 2:  # same angles: plain, 1 control, controls on other qubits
            sibs.append(_U3(*ang)(rng.randrange(n)))
            sibs.append(_U3(*ang).controlled(1)(*GC.rand_qubits(rng, 2, n)))
        sibs.append(_U3(ang[0], ang[2], ang[1])(rng.randrange(n)))
        sibs.append(rand_other_op(rng, n))
        circuits = []
        for _ in range(rng.randint(2, 4)):
            ops = []
            for _k in range(rng.randint(2, 6)):
                r = rng.random()
                if r < 0.35:
                    ops.append(rng.choice(base_ops))  # the very same object again
                elif r < 0.55:
                    o = rng.choice(base_ops)
                    ops.append(o.gate(*o.qubit_indices))  # an equal operation, another object
                elif r < 0.85:
                    ops.append(rng.choice(sibs))
                else:
                    ops.append(rand_other_op(rng, n))
            circuits.append(Circuit(ops, n_qubits=n))
        circuits.append(circuits[0])
        ctx.describe("history " + " | ".join(_desc_circuit(c) for c in circuits)[:900], True)
        mon.note("history-cases")
        for c in circuits:
            res = decompose_orquestra_circuit(c, [lib])
            if rng.random() < 0.5:
                res.operations.clear()  # the caller owns the result
                res = decompose_orquestra_circuit(c, [lib])
            decompose_orquestra_circuit(res, [lib])  # nothing left to do the second time
            if rng.random() < 0.4:
                decompose_operations(OneShot(c.operations), [lib])
            if rng.random() < 0.3:
                decompose_orquestra_circuit(c, [])
        return

    hr = harness_rules(rng)

    if cls == "order":
        pool = [Z, S, X, T, H]
        n = rng.randint(1, 4)
        ops = []
        for _ in range(rng.randint(1, 7)):
            r = rng.random()
            if r < 0.7:
                ops.append(rng.choice(pool)(rng.randrange(n)))
            elif r < 0.85 and n >= 2:
                ops.append(rng.choice([Z, S, X]).controlled(1)(*GC.rand_qubits(rng, 2, n)))  # no rule applies
            else:
                ops.append(rand_other_op(rng, n))
        names = rng.choice([
            ["Z->S,S", "S->T,T"], ["S->T,T", "Z->S,S"], ["Z->S,S", "S->T,T"], ["S->T,T", "Z->S,S"],
            ["X->H,Z,H", "Z->S,S", "S->T,T"], ["S->T,T", "Z->S,S", "X->H,Z,H"], ["Z->S,S", "X->H,Z,H", "S->T,T"],
            ["Z->S,S"], ["S->T,T", "S->T,T"], ["Z->S,S", "Z->S,S", "S->T,T"], ["X->H,Z,H", "S->T,T", "Z->S,S"],
        ])
        rules = [hr[k] for k in names]
        circuit = Circuit(ops, n_qubits=n + 1) if rng.random() < 0.2 else Circuit(ops)
        fired2 = any(sum(1 for i in range(len(rules)) if _chain_fires(o, rules, i)) >= 2 for o in ops)
        ctx.describe(f"order rules={names} {_desc_circuit(circuit)}", fired2)
        mon.note("order:" + ">".join(names))
        decompose_orquestra_circuit(circuit, rules)
        return

    if cls == "mixed":
        lib = U3GateToRotation()
        names = rng.choice([
            ["Z->S,S", "LIB"], ["LIB", "S->T,T"], ["Z->S,S", "S->T,T", "LIB"], ["LIB", "Z->S,S", "S->T,T"],
            ["Z->S,S", "LIB", "S->T,T"], ["RY->U3", "LIB"], ["LIB", "RY->U3"], ["LIB", "LIB"],
            ["LIB", "RY->U3", "LIB"], ["X->H,Z,H", "LIB", "Z->S,S"], ["S->T,T", "LIB"],
        ])
        rules = [lib if k == "LIB" else hr[k] for k in names]
        n = rng.randint(1, 4)
        ops = []
        for _ in range(rng.randint(1, 6)):
            r = rng.random()
            if r < 0.4:
                ops.append(rand_u3_op(rng, n, max_controls=2))
            elif r < 0.75:
                ops.append(rng.choice([Z, S, X, RY(GC.rand_angle(rng)), T])(rng.randrange(n)))
            else:
                ops.append(rand_other_op(rng, n))
        circuit = Circuit(ops)
        ctx.describe(f"mixed rules={names} {_desc_circuit(circuit)}",
                     _nontrivial_circuit(ops) or any(_plain(o, "RY") for o in ops) and "RY->U3" in names)
        mon.note("mixed:" + ">".join(names))
        decompose_orquestra_circuit(circuit, rules)
        return

    if cls == "direct":
        lib = U3GateToRotation()
        n = rng.randint(1, 4)
        kind = rng.choice(["production", "predicate", "operation", "operations"])
        if kind == "production":
            op = rand_u3_op(rng, n)
            ctx.describe(f"direct production {_show_op(op)}", _u3_status(op) == "controlled" or op.qubit_indices != (0,))
            seq = list(lib.production(op))
            ok, _ = _judge(mon, f"list(U3GateToRotation.production({_show_op(op)}))", [op], seq, [lib])
            if ok:
                mon.ok("production.consumed")
            return
        if kind == "predicate":
            ops = [rand_u3_op(rng, n), rand_other_op(rng, n), rand_other_op(rng, n)]
            if n >= 2:
                ops.append(RY(GC.rand_angle(rng)).controlled(1)(*GC.rand_qubits(rng, 2, n)))
            if rng.random() < 0.3:
                ops.append(rand_nongate_op(rng, n))
            ctx.describe(f"direct predicate {_show_ops(ops)}", True)
            for o in ops:
                try:
                    lib.predicate(o)
                except AttributeError:
                    if _is_gate_op(o):
                        raise
            return
        rule_sets = [[lib], [], [hr["Z->S,S"], hr["S->T,T"]], [hr["S->T,T"], hr["Z->S,S"]], [hr["RY->U3"], lib],
                     [lib, hr["RY->U3"]], [hr["X->H,Z,H"], hr["Z->S,S"], hr["S->T,T"]]]
        rules = rng.choice(rule_sets)
        if kind == "operation":
            op = rng.choice([rand_u3_op(rng, n), rand_other_op(rng, n), Z(rng.randrange(n)), S(rng.randrange(n)),
                             X(rng.randrange(n)), RY(GC.rand_angle(rng))(rng.randrange(n))])
            fired2 = sum(1 for i in range(len(rules)) if _chain_fires(op, rules, i)) >= 2
            ctx.describe(f"direct operation {_show_op(op)} rules={_show_rules(rules)}",
                         fired2 or _u3_status(op) == "controlled")
            decompose_operation(op, rules if rng.random() < 0.5 else tuple(rules))
            return
        ops = []
        for _ in range(rng.randint(0, 5)):
            ops.append(rng.choice([rand_u3_op(rng, n), rand_other_op(rng, n), Z(rng.randrange(n)),
                                   S(rng.randrange(n)), X(rng.randrange(n))]))
        ctx.describe(f"direct operations {_show_ops(ops)} rules={_show_rules(rules)}", _nontrivial_circuit(ops))
        r = rng.random()
        decompose_operations(ops if r < 0.35 else (tuple(ops) if r < 0.6 else OneShot(ops)), rules)
        return
    raise ValueError(cls)
