"""C13 - splitting, batching and recombining shots never loses or invents a shot."""
import math
from collections import Counter
from fractions import Fraction

import numpy as np

from ..gen import sampling as G
from ..gen import sampling_crowded as GC
from ..gen import sampling_long as GL

ID = "C13"
LEVEL = "exploration"
RULE = (
    "seeded generator by input class: expand (0-8 circuits, maxima 1..1e6, requests at k*max, k*max+-1, 1, <max, max+-1, "
    "random) / expand_big (requests around 2^53, 2^63, 1e17 needing <=8 copies) / pipeline_bitstrings (expand -> one "
    "uniquely tagged shot list per copy -> combine_bitstrings, exactly-once accounting) / pipeline_counts (expand -> one "
    "histogram per copy over a shared outcome pool -> combine_measurement_counts; also huge requests) / combine (direct "
    "calls, multiplicities 1-6, empty results inside groups) / batches (0-12 circuits, batch sizes 1..k+5 and 1e6, equal / "
    "sorted / huge requests) / represent (1-12 outcomes, widths 1-5, seven weight styles x 1-5000 shots) / represent_forced "
    "(equal probabilities with every share rounding down resp. up, so shots must be added resp. eliminated; plus a "
    "variant with a zero-copy outcome of large elimination weight that forces the re-draw branch) / represent_crowded "
    "(2-80 outcomes incl. 8/9, 16/17, 32/33, 64/65, widths 1-7, small shares 0-3 + a fraction on one side of 1/2, 0-3 "
    "heavy outcomes, so that several shots are corrected at once: the same outcome drawn repeatedly, several outcomes "
    "over-drawn in one pass, outcomes without any copy drawn for elimination) / discretize "
    "(1-10 positive weights x totals 1..1e12, weights x total <= 1e15) / long (EVERY function on 100-5000 items, lengths "
    "around 128, 256, 512, 1000, 1024, 2048, 4096, 5000 +-1 and random: weight lists, circuit lists, one circuit in "
    "100-5000 copies, expand -> combine pipelines over 100-1025 circuits or copies, batch requests, distributions over "
    "100-4097 outcomes, 1e4-1e6 shots; content is structured - uniform, short cycles of small integers, two levels, "
    "ramps, one heavy entry, times a unit 1 / 0.5 / 0.25 / 4.0 / 0.1 / 1/3 / 0.7 - and placed so that the arithmetic "
    "leaves nothing over / one unit / all but one / two / half: total = c * sum of the integer multiples (+1, +sum-1, ...), "
    "every request an exact multiple of the maximum (or all +1, all -1, one odd one), batch size 1, 2, L, L+-1, L/2(+-1), a "
    "divisor of L (+-1), a power of two (+-1), 2L, 1e6; the shot number a multiple of the common denominator of the "
    "probabilities, one more, one less) / boundaries (the same generators on 1-99 items, mostly around 8, 16, 32, 64). "
    "Non-trivial: some request exceeds the maximum "
    "(expand, pipelines), some multiplicity >= 2 (combine), >= 2 batches with unequal requests inside one batch (batches), "
    "rounded shares do not sum to the shot number (represent; represent_crowded: by at least 2), >= 2 weights with a "
    "non-integer share (discretize); "
    "distinct = distinct canonical case strings"
)
ASSUMPTIONS = [
    "oracle = integer / rational arithmetic in plain Python; proportional shares are computed exactly with fractions, "
    "the 'within one' bound gets a float allowance of 8 ulp of the share (1e-9 at least)",
    "sample counts, maxima, batch sizes, shot numbers and totals are positive Python or numpy integers; multiplicity <= 5000 "
    "per circuit; distributions are normalised; weights x totals <= 1e15 (above 2^53 the function's own assert fires: loud); "
    "that exclusion concerns MAGNITUDE only: lists of up to 5000 weights are inside the workload, with totals <= ~1e9 so "
    "that the accumulated rounding of a 5000-term float sum stays far below one unit",
    "an exception (AssertionError included) that escapes one of the six functions on an input inside these bounds is a "
    "violation ('<function>-raises'): the property promises a result for all such inputs",
    "the names 'f[>=100 ...]' in DECIDING are the same verdicts counted once more for long inputs (decided from the "
    "arguments alone), so that a run in which no long input was judged is INCONCLUSIVE instead of silently short",
    "long distributions: at most 12 shots are corrected when there are more than 100 outcomes, at most 2 above 300 outcomes "
    "(the library's correction step costs time proportional to the number of outcomes per corrected shot)",
    "combined results are compared as per-circuit multisets (the property fixes totals, not an order inside a circuit)",
    "split_into_batches returns a lazy iterable: the monitor materialises it and hands the caller an equivalent iterator",
    "support of a distribution = outcomes with probability > 0",
    "the first correction draw and the arguments of _check_sample_elimination are only READ (tallies of what the correction "
    "step was confronted with: repeated draws, outcomes drawn more often than copies exist); the verdict is always the one "
    "on the public result (size and support)",
]
DECIDING = [
    "expand_sample_sizes", "combine_measurement_counts", "combine_bitstrings", "split_into_batches",
    "M.get_measurements_representing_distribution", "scale_and_discretize",
    "pipeline-exactly-once", "pipeline-totals",
    # the same verdicts on LONG inputs (an implementation may switch algorithm by size)
    "scale_and_discretize[>=100 weights]", "scale_and_discretize[>=100 weights, every share an integer]",
    "expand_sample_sizes[>=100 circuits]", "expand_sample_sizes[>=100 copies of one circuit]",
    "combine_measurement_counts[>=100 circuits]", "combine_measurement_counts[>=100 results of one circuit]",
    "combine_bitstrings[>=100 circuits]", "combine_bitstrings[>=100 results of one circuit]",
    "split_into_batches[>=100 circuits]", "split_into_batches[>=100 circuits, last batch full]",
    "split_into_batches[>=100 circuits, last batch partial]",
    "M.get_measurements_representing_distribution[>=100 outcomes]", "M.get_measurements_representing_distribution[>=10000 shots]",
    # situations inside the correction step that must have been met AND judged on the public result
    "represent:top-up-draws-an-outcome-repeatedly", "represent:elimination-one-outcome-overdrawn",
    "represent:elimination-several-outcomes-overdrawn-in-one-pass", "represent:elimination-overdrawn-outcome-has-copies",
]
BRANCHES = ["representing_distribution:add", "representing_distribution:eliminate", "_check_sample_elimination:resample"]
BUDGET = {"quick": (4, 45, 36000), "thorough": (16, 120, 400000)}


def applicable(deciding, branches, m):
    """the 'represent:*' tallies and the resample branch describe situations of the present correction algorithm
    (random top-up / elimination draws checked by the private helper _check_sample_elimination).  A tree that corrects
    the rounded shares another way never enters them; there they are not required (the size / support oracle on the
    public function, the long and many-shot variants and the add / eliminate situations stay deciding)"""
    calls = m["reach_calls"].get("_check_sample_elimination")
    if calls:
        return deciding, branches
    return ([d for d in deciding if not d.startswith("represent:")],
            [b for b in branches if not b.startswith("_check_sample_elimination:")])

BIG = 2 ** 53


def classes(tier):
    return ["expand", "expand_big", "pipeline_bitstrings", "pipeline_counts", "combine", "batches",
            "represent", "represent_forced", "represent_crowded", "discretize", "long", "boundaries"]


# ----------------------------------------------------------------------------- helpers
def _is_int(x):
    return isinstance(x, (int, np.integer)) and not isinstance(x, (bool, np.bool_))


def _arg(call, pos, name, default=None):
    if len(call.args) > pos:
        return call.args[pos]
    return call.kwargs.get(name, default)


def _seq(x):
    return isinstance(x, (list, tuple))


LONG = 100          # "long" input: at least this many weights / circuits / copies / outcomes
MANY_SHOTS = 10000


def _b(x):
    """sequences / dicts of any length, abbreviated for messages"""
    if isinstance(x, dict):
        return repr(x) if len(x) <= 40 else "{" + GL.brief(list(x.items()))[1:-1] + "}"
    if _seq(x):
        return GL.brief(x)
    return repr(x)


def _mag(*ns):
    """kind suffix: counts above 2^53 are a different regime (float division)"""
    return "(count>2^53)" if any(n > BIG for n in ns) else ""


# ----------------------------------------------------------------------------- monitors
def _post_expand(mon, call):
    name = "expand_sample_sizes"
    circuits = _arg(call, 0, "circuits")
    ns = _arg(call, 1, "n_samples_per_circuit")
    mx = _arg(call, 2, "max_sample_size")
    if not _seq(circuits) or not _seq(ns) or len(circuits) != len(ns) or not _is_int(mx) or mx < 1 \
            or not all(_is_int(n) and n >= 1 for n in ns):
        mon.out_of_domain(name)
        return
    numpy_ints = isinstance(mx, np.integer) or any(isinstance(n, np.integer) for n in ns)
    ns = [int(n) for n in ns]
    mx = int(mx)
    if any(-(-n // mx) > 10 ** 6 for n in ns) or (numpy_ints and max(ns + [mx]) >= 2 ** 63):
        # memory / numpy's own integer range (a numpy integer cannot meet a value beyond int64)
        mon.out_of_domain(name)
        return
    ctx = f"expand_sample_sizes({len(circuits)} circuits, {_b(ns)}, {mx})"
    if call.exc is not None:
        mon.violation("expand-raises", f"{ctx} raised {call.exc!r}")
        return
    try:
        new_c, new_n, mult = call.result
        new_c, new_n, mult = list(new_c), list(new_n), list(mult)
    except Exception as e:
        mon.violation("expand-shape", f"{ctx}: result not a triple of sequences ({e!r})")
        return
    if len(mult) != len(ns) or not all(_is_int(m) and m >= 0 for m in mult) or len(new_c) != len(new_n) \
            or sum(int(m) for m in mult) != len(new_c):
        mon.violation("expand-shape" + _mag(*ns), f"{ctx}: {len(new_c)} copies, {len(new_n)} sizes, multiplicities {_b(mult)}")
        return
    pos = 0
    for i, (c, n, m) in enumerate(zip(circuits, ns, mult)):
        m = int(m)
        if m == 1 and type(new_n[pos]) is int and new_n[pos] == n <= mx and new_c[pos] is c:
            pos += 1   # the common situation in long lists, decided without building slices
            continue
        chunk = new_n[pos:pos + m]
        if any(x is not c for x in new_c[pos:pos + m]):
            mon.violation("expand-order", f"{ctx}: copies {pos}..{pos + m - 1} are not circuit {i}")
            return
        if not all(_is_int(x) for x in chunk) or any(x < 1 or x > mx for x in chunk):
            mon.violation("expand-copy-out-of-range" + _mag(n), f"{ctx}: circuit {i} gets copies {_b(chunk)}, allowed 1..{mx}")
            return
        if sum(int(x) for x in chunk) != n:
            mon.violation("expand-sum" + _mag(n),
                          f"{ctx}: circuit {i} requested {n}, copies {_b(chunk)} sum to {sum(int(x) for x in chunk)} "
                          f"(difference {sum(int(x) for x in chunk) - n})")
            return
        pos += m
    if any(n > BIG for n in ns):
        mon.note("expand: request above 2^53 judged")
    mon.ok(name)
    if len(ns) >= LONG:
        mon.ok(name + "[>=100 circuits]")
        if all(n % mx == 0 for n in ns):
            mon.note("expand: >=100 circuits, every request an exact multiple of the maximum")
    if mult and max(int(m) for m in mult) >= LONG:
        mon.ok(name + "[>=100 copies of one circuit]")


def _groups_in_domain(items, mult, item_ok):
    if not _seq(items) or not _seq(mult) or not all(_is_int(m) and m >= 1 for m in mult):
        return False
    if len(items) != sum(int(m) for m in mult):
        return False
    return all(item_ok(x) for x in items)


def _long_groups(mon, name, mult):
    if len(mult) >= LONG:
        mon.ok(name + "[>=100 circuits]")
    if len(mult) and max(int(m) for m in mult) >= LONG:
        mon.ok(name + "[>=100 results of one circuit]")


def _counts_ok(d):
    return isinstance(d, dict) and all(isinstance(k, str) and _is_int(v) and v >= 0 for k, v in d.items())


def _post_combine_counts(mon, call):
    name = "combine_measurement_counts"
    items = _arg(call, 0, "all_measurements")
    mult = _arg(call, 1, "multiplicities")
    if not _groups_in_domain(items, mult, _counts_ok):
        mon.out_of_domain(name)
        return
    ctx = f"combine_measurement_counts({_b(list(items))}, {_b(list(mult))})"
    if call.exc is not None:
        mon.violation("combine-counts-raises", f"{ctx} raised {call.exc!r}")
        return
    res = call.result
    if not _seq(res) or len(res) != len(mult):
        mon.violation("combine-counts-wrong", f"{ctx}: {len(res) if _seq(res) else res!r} results for {len(mult)} circuits")
        return
    pos = 0
    big = _mag(*[v for d in items for v in d.values()])
    for i, m in enumerate(mult):
        if m == 1 and type(res[i]) is dict and res[i] == items[pos] and all(type(v) is int and v for v in res[i].values()):
            pos += 1   # a circuit with one result that came back unchanged (the common situation in long lists)
            continue
        exp = Counter()
        for d in items[pos:pos + int(m)]:
            for k, v in d.items():
                exp[k] += int(v)
        pos += int(m)
        got = res[i]
        ok = isinstance(got, dict) and all(_is_int(v) for v in got.values()) \
            and {k: int(v) for k, v in got.items() if v} == {k: v for k, v in exp.items() if v}
        if not ok:
            mon.violation("combine-counts-wrong" + big, f"{ctx}: circuit {i} -> {got!r}, per-key totals {dict(exp)!r}")
            return
    mon.ok(name)
    _long_groups(mon, name, mult)


def _post_combine_bits(mon, call):
    name = "combine_bitstrings"
    items = _arg(call, 0, "all_bitstrings")
    mult = _arg(call, 1, "multiplicities")
    if not _groups_in_domain(items, mult, lambda x: isinstance(x, list)):
        mon.out_of_domain(name)
        return
    ctx = f"combine_bitstrings({str(items)[:300]}, {_b(list(mult))})"
    if call.exc is not None:
        mon.violation("combine-bitstrings-raises", f"{ctx} raised {call.exc!r}")
        return
    res = call.result
    if not _seq(res) or len(res) != len(mult):
        mon.violation("combine-bitstrings-wrong", f"{ctx}: {len(res) if _seq(res) else res!r} results for {len(mult)} circuits")
        return
    pos = 0
    for i, m in enumerate(mult):
        if m == 1 and type(res[i]) is list and res[i] == items[pos]:
            pos += 1
            continue
        exp = [x for lst in items[pos:pos + int(m)] for x in lst]
        pos += int(m)
        got = res[i]
        try:
            ok = isinstance(got, list) and len(got) == len(exp) and Counter(got) == Counter(exp)
        except TypeError:
            ok = isinstance(got, list) and got == exp
        if not ok:
            mon.violation("combine-bitstrings-wrong",
                          f"{ctx}: circuit {i} -> {len(got) if isinstance(got, list) else got!r} shots "
                          f"{str(got)[:200]}, its copies delivered {len(exp)}: {str(exp)[:200]}")
            return
    mon.ok(name)
    _long_groups(mon, name, mult)


class _Replay:
    """iterator handed back to the caller after the monitor consumed the lazy result"""

    def __init__(self, items, exc):
        self._it = iter(items)
        self._exc = exc

    def __iter__(self):
        return self

    def __next__(self):
        try:
            return next(self._it)
        except StopIteration:
            if self._exc is not None:
                e, self._exc = self._exc, None
                raise e
            raise


def _post_batches(mon, call):
    name = "split_into_batches"
    circuits = _arg(call, 0, "circuits")
    ns = _arg(call, 1, "n_samples_per_circuit")
    mb = _arg(call, 2, "max_batch_size")
    if not _seq(circuits) or not _seq(ns) or len(circuits) != len(ns) or not _is_int(mb) \
            or mb < 1 or not all(_is_int(n) and n >= 1 for n in ns):
        mon.out_of_domain(name)
        return
    ctx = f"split_into_batches({len(circuits)} circuits, {_b(list(ns))}, {mb})"
    if call.exc is not None:
        mon.violation("batches-raises", f"{ctx} raised {call.exc!r}")
        return
    items, exc = [], None
    try:
        for b in call.result:
            items.append(b)
    except Exception as e:  # the lazy part failed on a valid request
        exc = e
    call.result = _Replay(items, exc)
    if exc is not None:
        mon.violation("batches-raises", f"{ctx}: iterating the batches raised {exc!r}")
        return
    pos = 0
    for bi, b in enumerate(items):
        try:
            chunk, n = b
            chunk = list(chunk)
        except Exception:
            mon.violation("batches-shape", f"{ctx}: batch {bi} is {b!r}")
            return
        if len(chunk) > mb:
            mon.violation("batches-oversize", f"{ctx}: batch {bi} holds {len(chunk)} circuits")
            return
        want = list(circuits[pos:pos + len(chunk)])
        if len(want) != len(chunk) or any(x is not y for x, y in zip(chunk, want)):
            mon.violation("batches-cover", f"{ctx}: batch {bi} = {_b(chunk)}, next uncovered circuits are {_b(want)}")
            return
        asked = [int(x) for x in ns[pos:pos + len(chunk)]]
        if chunk and (not _is_int(n) or n < max(asked)):
            mon.violation("batches-under-request", f"{ctx}: batch {bi} requests {n!r}, its circuits asked {_b(asked)}")
            return
        pos += len(chunk)
    if pos != len(circuits):
        mon.violation("batches-cover", f"{ctx}: batches cover {pos} of {len(circuits)} circuits")
        return
    mon.note(f"batches: {min(len(items), 3)}{'+' if len(items) >= 3 else ''} batches")
    mon.ok(name)
    k, mb = len(circuits), int(mb)
    if k >= LONG:
        mon.ok(name + "[>=100 circuits]")
        if 1 < mb < k:
            mon.ok(name + ("[>=100 circuits, last batch full]" if k % mb == 0 else "[>=100 circuits, last batch partial]"))
    if k:
        mon.note("batches: " + ("batch size 1" if mb == 1 and k > 1 else "one batch, exactly full" if mb == k
                                else "one batch, not full" if mb > k else "last batch full" if k % mb == 0
                                else "last batch holds one circuit" if k % mb == 1
                                else "last batch one short of full" if k % mb == mb - 1 else "last batch partial"))


def _bits(key):
    return tuple(int(x) for x in key)


def _post_first_draw(mon, call):
    """sample_from_probability_distribution called directly by the routine under test: its first correction draw"""
    st = getattr(mon, "c13_represent", None)
    if st is None or call.exc is not None or "draw" in st:
        return
    try:
        st["draw"] = {_bits(k): int(v) for k, v in call.result.items()}
    except Exception:
        st["draw"] = None


def _pre_elimination(mon, call):
    st = getattr(mon, "c13_represent", None)
    if st is None or "overdrawn" in st:
        return
    try:
        want = {_bits(k): int(v) for k, v in _arg(call, 0, "samples").items()}
        have = Counter(tuple(b) for b in _arg(call, 1, "bitstring_samples"))
        st["overdrawn"] = [(have[k], v) for k, v in want.items() if v > have[k]]
    except Exception:
        st["overdrawn"] = None


def _pre_represent(mon, call):
    mon.c13_represent = {}
    dist = _arg(call, 1, "measurement_outcome_distribution")
    try:
        return [(tuple(int(x) for x in k), float(v)) for k, v in dist.distribution_dict.items()]
    except Exception:
        return None


def _post_represent(mon, call):
    name = "M.get_measurements_representing_distribution"
    st, mon.c13_represent = getattr(mon, "c13_represent", None) or {}, None
    n = _arg(call, 2, "number_of_samples")
    items = call.pre
    if items is None or not items or not _is_int(n) or n < 1 or any(v < 0 or not math.isfinite(v) for _, v in items) \
            or not math.isclose(sum(v for _, v in items), 1, rel_tol=1e-9) or len({len(k) for k, _ in items}) != 1:
        mon.out_of_domain(name)
        return
    ctx = f"representing({_b(dict(items))}, {n})"
    if call.exc is not None:
        mon.violation("represent-raises", f"{ctx} raised {call.exc!r}")
        return
    shots = getattr(call.result, "bitstrings", None)
    if not isinstance(shots, list):
        mon.violation("represent-size", f"{ctx}: result has no shot list")
        return
    if len(shots) != n:
        mon.violation("represent-size", f"{ctx}: {len(shots)} shots returned")
        return
    support = {k for k, v in items if v > 0}
    off = [s for s in shots if tuple(s) not in support]
    if off:
        mon.violation("represent-off-support", f"{ctx}: shots {off[:5]!r} are not outcomes with positive probability")
        return
    rounded = sum(int(round(v * n)) for _, v in items)
    mon.note("represent: shots added" if rounded < n else "represent: shots eliminated" if rounded > n
             else "represent: rounded shares already exact")
    mon.ok(name)
    if len(items) >= LONG:
        mon.ok(name + "[>=100 outcomes]")
        mon.note("represent: >=100 outcomes, " + ("shots added" if rounded < n else "shots eliminated" if rounded > n
                                                   else "rounded shares already exact"))
    if n >= MANY_SHOTS:
        mon.ok(name + "[>=10000 shots]")
    # what the correction step was confronted with in this (correctly answered) call
    draw, over = st.get("draw"), st.get("overdrawn")
    if "overdrawn" not in st:  # no elimination: the draw (if any) was a top-up
        if draw and max(draw.values()) >= 2:
            mon.ok("represent:top-up-draws-an-outcome-repeatedly")
    elif over is not None:
        if len(over) == 1:
            mon.ok("represent:elimination-one-outcome-overdrawn")
        if len(over) >= 2:
            mon.ok("represent:elimination-several-outcomes-overdrawn-in-one-pass")
        if any(have >= 1 for have, _ in over):
            mon.ok("represent:elimination-overdrawn-outcome-has-copies")
        mon.note(f"represent: first elimination draw over-draws {min(len(over), 4)}{'+' if len(over) >= 4 else ''} outcomes")


def _pre_discretize(mon, call):
    values = _arg(call, 0, "values")
    return list(values) if _seq(values) else None


def _post_discretize(mon, call):
    name = "scale_and_discretize"
    values = call.pre
    total = _arg(call, 1, "total")
    if values is None or not values or not _is_int(total) or total < 1:
        mon.out_of_domain(name)
        return
    # exact arithmetic on integers: weight i = W[i] / D with one common denominator, share i = W[i] * total / S
    try:
        ratios = [(v.item() if isinstance(v, np.generic) else v).as_integer_ratio() for v in values]
        D = math.lcm(*{d for _, d in ratios})
        W = [n * (D // d) for n, d in ratios]
    except Exception:
        mon.out_of_domain(name)
        return
    if any(w <= 0 for w in W):
        mon.out_of_domain(name)
        return
    total = int(total)
    S = sum(W)
    if max(W) * total > 10 ** 15 * S or total > 10 ** 15:
        mon.out_of_domain(name)
        return
    ctx = f"scale_and_discretize({_b(values)}, {total})"
    if call.exc is not None:
        mon.violation("discretize-raises", f"{ctx} raised {call.exc!r}")
        return
    res = call.result
    if not isinstance(res, list) or len(res) != len(values) or not all(_is_int(x) for x in res):
        mon.violation("discretize-type", f"{ctx} -> {_b(res)}")
        return
    if sum(int(x) for x in res) != total:
        mon.violation("discretize-sum", f"{ctx} -> {_b(res)} sums to {sum(int(x) for x in res)}")
        return
    for i, (x, w) in enumerate(zip(res, W)):
        if abs(int(x) * S - w * total) <= S:   # within one of the exact share
            continue
        sh = Fraction(w * total, S)
        allow = 1 + max(Fraction(1, 10 ** 9), sh * 8 * Fraction(1, 2 ** 52))
        if abs(int(x) - sh) > allow:
            mon.violation("discretize-share", f"{ctx} -> {_b(res)}: entry {i} is {x}, proportional share {float(sh)!r}")
            return
    mon.ok(name)
    # which remainder situation this (correctly answered) request was: decided by the exact shares alone
    left = total - sum(w * total // S for w in W)   # units left after rounding every share down
    how = "every share an integer" if left == 0 else "one unit left over" if left == 1 \
        else "all but one entry rounded up" if left == len(W) - 1 else None
    if len(W) >= 2 and how:
        mon.note("discretize: " + how)
    if len(W) >= LONG:
        mon.ok(name + "[>=100 weights]")
        if left == 0:
            mon.ok(name + "[>=100 weights, every share an integer]")
        elif how:
            mon.note("discretize: >=100 weights, " + how)


def install(mon, reach):
    from orquestra.quantum import utils as U
    from orquestra.quantum.circuits import _itertools as IT
    from orquestra.quantum.measurements import measurements as MM

    M = MM.Measurements
    reach.watch(getattr(IT, "_expand_sample_size", None), "_expand_sample_size",
                markers={"exact-multiple": r"multiplicities \* \(max_sample_size,\)", "remainder": r"n_samples % max_sample_size,\)"})
    reach.watch(IT.expand_sample_sizes, "expand_sample_sizes")
    reach.watch(IT.combine_measurement_counts, "combine_measurement_counts")
    reach.watch(IT.combine_bitstrings, "combine_bitstrings")
    reach.watch(getattr(IT, "_combine_measurements", None), "_combine_measurements")
    reach.watch(IT.split_into_batches, "split_into_batches")
    reach.watch(getattr(IT, "_iterate_in_batches", None), "_iterate_in_batches")
    reach.watch(M.get_measurements_representing_distribution, "representing_distribution",
                markers={"add": r"^\s+for sample in samples:", "eliminate": r"samples = _check_sample_elimination\("})
    reach.watch(getattr(MM, "_check_sample_elimination", None), "_check_sample_elimination",
                markers={"resample": r"nresamples = correct_samples\[sample\]"})
    reach.watch(U.scale_and_discretize, "scale_and_discretize", markers={"top-up": r"\] \+= 1"})

    mon.hook_func(IT, "expand_sample_sizes", post=_post_expand, name="expand_sample_sizes")
    mon.hook_func(IT, "combine_measurement_counts", post=_post_combine_counts, name="combine_measurement_counts")
    mon.hook_func(IT, "combine_bitstrings", post=_post_combine_bits, name="combine_bitstrings")
    mon.hook_func(IT, "split_into_batches", post=_post_batches, name="split_into_batches")
    mon.hook_method(M, "get_measurements_representing_distribution", post=_post_represent, pre=_pre_represent,
                    name="M.get_measurements_representing_distribution")
    # read-only observers (depth 1 inside the routine under test): what its correction step had to cope with
    mon.hook_func(U, "sample_from_probability_distribution", post=_post_first_draw, name="first-correction-draw")
    mon.hook_func(MM, "_check_sample_elimination", pre=_pre_elimination, name="elimination-arguments")
    mon.hook_func(U, "scale_and_discretize", post=_post_discretize, pre=_pre_discretize, name="scale_and_discretize")


# ----------------------------------------------------------------------------- cases
def _as_given(rng, ns, mx):
    """requests as Python ints, now and then as numpy integers (where everything fits int64)"""
    if rng.random() < 0.1 and all(n < 2 ** 62 for n in ns) and mx < 2 ** 62:
        return [np.int64(n) for n in ns]
    return list(ns)


def _cheap_counts(pool, j, n):
    """histogram of n shots for copy j, structured (long pipelines): one or two outcomes of the pool"""
    a, b = pool[j % len(pool)], pool[(j + 1) % len(pool)]
    if n >= 2 and a != b and j % 3:
        return {a: n // 2, b: n - n // 2}
    return {a: n}


def _pipeline(ctx, circuits, ns, mx, mode, cheap=False):
    """expand -> run every copy -> combine, with exactly-once accounting"""
    from orquestra.quantum.circuits._itertools import combine_bitstrings, combine_measurement_counts, expand_sample_sizes

    rng = ctx.rng
    big = _mag(*ns)
    new_c, new_n, mult = expand_sample_sizes(circuits, ns, mx)
    new_c, new_n, mult = list(new_c), list(new_n), list(mult)
    if len(new_c) != len(new_n) or sum(mult) != len(new_c) or len(mult) != len(circuits):
        ctx.check("pipeline-totals" + big, False, f"expansion of {_b(ns)} by {mx} is inconsistent: {_b(new_n)} {_b(mult)}")
        return
    owner = [i for i, m in enumerate(mult) for _ in range(m)]  # copy -> original circuit (by position)
    if mode == "bitstrings":
        produced = [[f"{j}.{t}" for t in range(n)] for j, n in enumerate(new_n)]
        if rng.random() < 0.3:
            for lst in produced:
                rng.shuffle(lst)
        res = combine_bitstrings([list(p) for p in produced], mult)
        ok = len(res) == len(circuits)
        why = ""
        seen = Counter()
        if not ok:
            why = f"{len(res)} combined results for {len(circuits)} circuits"
        else:
            for i, got in enumerate(res):
                seen.update(got)
                if len(got) != ns[i]:
                    ok, why = False, f"circuit {i} asked {ns[i]} shots, got {len(got)}"
                    break
                wrong = [x for x in got if owner[int(x.split('.')[0])] != i]
                if wrong:
                    ok, why = False, f"circuit {i} received shots of another circuit's copies: {wrong[:5]!r}"
                    break
        if ok:
            every = Counter(x for p in produced for x in p)
            if seen != every:
                lost = list((every - seen).elements())[:5]
                dup = list((seen - every).elements())[:5]
                ok, why = False, f"not exactly-once: lost {lost!r}, duplicated or invented {dup!r}"
        ctx.check("pipeline-exactly-once", ok, lambda: f"requests {_b(ns)} max {mx}: {why}")
        ctx.check("pipeline-totals", [len(r) for r in res] == list(ns) if len(res) == len(ns) else False,
                  lambda: f"requests {_b(ns)} max {mx}: combined sizes {_b([len(r) for r in res])}")
        return
    pool = G.rand_pool(rng)
    if cheap:
        produced = [_cheap_counts(pool, j, int(n)) for j, n in enumerate(new_n)]
    else:
        produced = [G.rand_counts_total(rng, pool, int(n)) for n in new_n]
    res = combine_measurement_counts([dict(p) for p in produced], mult)
    totals = [sum(r.values()) for r in res]
    ctx.check("pipeline-totals" + big, totals == [int(n) for n in ns],
              lambda: f"requests {_b(list(ns))} max {mx}: copies {_b(new_n)} combined per-circuit totals {_b(totals)}")
    exp = [Counter() for _ in circuits]
    for j, p in enumerate(produced):
        exp[owner[j]].update(p)
    ok = len(res) == len(exp) and all({k: v for k, v in r.items() if v} == {k: v for k, v in e.items() if v}
                                      for r, e in zip(res, exp))
    ctx.check("pipeline-exactly-once" + big, ok,
              lambda: f"requests {_b(list(ns))} max {mx}: per-outcome totals {_b(res)} expected {_b([dict(e) for e in exp])}")


KINDS = ["discretize", "discretize", "expand", "expand_deep", "pipeline_bitstrings", "pipeline_counts", "batches",
         "represent", "represent_many_shots"]


def _structured_case(ctx, cls):
    """classes 'long' (100 ... 5000 items) and 'boundaries' (1 ... 99 items): every function of the property on
    structured inputs whose arithmetic leaves nothing / one unit / all but one unit over (rv/gen/sampling_long.py)"""
    from orquestra.quantum.circuits._itertools import expand_sample_sizes, split_into_batches
    from orquestra.quantum.distributions import MeasurementOutcomeDistribution
    from orquestra.quantum.measurements import Measurements
    from orquestra.quantum.utils import scale_and_discretize

    rng = ctx.rng
    long = cls == "long"
    kind = rng.choice(KINDS)

    def size(cap=5000):
        if long and cap == 5000 and ctx.tier == "thorough" and rng.random() < 0.06:
            return GL.very_long_length(rng)
        return GL.long_length(rng, cap) if long else GL.medium_length(rng)

    if kind == "discretize":
        L = size()
        tag, ws, total, exact = GL.weights_total(rng, L)
        form = rng.choice(["list", "list", "tuple", "np"])
        ctx.describe(f"{cls} discretize L={L} {tag} as {form}", L >= 2)
        arg = list(ws) if form == "list" else tuple(ws) if form == "tuple" else [np.float64(v) for v in ws]
        scale_and_discretize(arg, total)
        return

    if kind in ("expand", "expand_deep"):
        L = size()
        tag, mx, ns = GL.requests(rng, L, deep=kind == "expand_deep")
        circuits = GL.tokens(rng, len(ns))
        ctx.describe(f"{cls} {kind} {tag}", any(n > mx for n in ns))
        if rng.random() < 0.2:
            circuits = tuple(circuits)
        expand_sample_sizes(circuits, _as_given(rng, ns, mx), mx)
        return

    if kind in ("pipeline_bitstrings", "pipeline_counts"):
        L = size(rng.choice([513, 513, 1025]))
        deep = rng.random() < 0.4
        if long and kind == "pipeline_bitstrings" and rng.random() < 0.15:
            tag, mx, ns = GL.wide_requests(rng)   # few copies, each delivering a long list of shots
            ctx.mon.note("pipeline: copies delivering >=1000 shots each")
        else:
            tag, mx, ns = GL.requests(rng, L, deep=deep, maxima=[1, 1, 2, 3] if kind == "pipeline_bitstrings" else None)
        circuits = GL.tokens(rng, len(ns))
        ctx.describe(f"{cls} {kind} {tag}", any(n > mx for n in ns))
        _pipeline(ctx, circuits, ns, mx, "bitstrings" if kind == "pipeline_bitstrings" else "counts", cheap=True)
        return

    if kind == "batches":
        L = size()
        tag, ns, mb = GL.batch_request(rng, L)
        circuits = GL.tokens(rng, L)
        ctx.describe(f"{cls} batches {tag}", L > mb)
        if rng.random() < 0.3:
            circuits, ns = tuple(circuits), tuple(ns)
        out = split_into_batches(circuits, ns, mb)
        seen = [c for chunk, _ in out for c in chunk]
        ctx.check("batches-delivered", len(seen) == L and all(a is b for a, b in zip(seen, circuits)),
                  lambda: f"L={L} max_batch={mb}: caller iterated {_b(seen)}")
        return

    np.random.seed(rng.getrandbits(32))
    if kind == "represent":
        K = size(rng.choice([513] * 8 + [1025] * 3 + [4097]))
        tag, d, n = GL.wide_distribution(rng, K)
    else:
        # few outcomes, very many shots (long only; 'boundaries' asks the short distributions for 100 ... 9999 shots)
        style, d = G.rand_distribution(rng, rng.choice(["equal", "smallint", "int", "thirds", "float"]))
        n = GL.many_shots(rng) if long else rng.choice([100, 127, 128, 129, 1000, 1023, 1024, 1025, 4096, 8192, 9999])
        if rng.random() < 0.4:   # every share an integer: probabilities m_i / S, shot number a multiple of S
            k = len(d)
            ms = [rng.randint(1, 5) for _ in range(k)]
            d = {key: m / sum(ms) for key, m in zip(d, ms)}
            n = max(1, n // sum(ms)) * sum(ms)
            style = f"exact{ms}"
        tag = f"[{style}] n={n} dist={d!r}"
    ctx.describe(f"{cls} {kind} {tag}", True)
    keyform = rng.choice(["str", "tuple"])
    dist = MeasurementOutcomeDistribution(dict(d) if keyform == "str" else {tuple(int(c) for c in k): v for k, v in d.items()})
    Measurements.get_measurements_representing_distribution(dist, n)


def run_case(ctx):
    from orquestra.quantum.circuits._itertools import combine_bitstrings, combine_measurement_counts, \
        expand_sample_sizes, split_into_batches
    from orquestra.quantum.distributions import MeasurementOutcomeDistribution
    from orquestra.quantum.measurements import Measurements
    from orquestra.quantum.utils import scale_and_discretize

    rng = ctx.rng
    cls = ctx.cls
    mon = ctx.mon

    if cls in ("long", "boundaries"):
        _structured_case(ctx, cls)
        return

    if cls in ("expand", "expand_big"):
        mx, ns = G.rand_requests(rng) if cls == "expand" else G.rand_big_requests(rng)
        circuits = G.rand_circuits(rng, len(ns))
        ctx.describe(f"{cls} max={mx} requests={ns!r} circuits={circuits!r}", any(n > mx for n in ns))
        if rng.random() < 0.2:
            circuits = tuple(circuits)
        expand_sample_sizes(circuits, _as_given(rng, ns, mx), mx)
        return

    if cls == "pipeline_bitstrings":
        mx = rng.choice([1, 2, 3, 5, 7, 10, 16, 50])
        _, ns = G.rand_requests(rng, kmax=min(40, max(1, 300 // mx)), mx=mx)
        circuits = G.rand_circuits(rng, len(ns))
        ctx.describe(f"pipeline bitstrings max={mx} requests={ns!r} circuits={circuits!r}",
                     len(ns) >= 2 and any(n > mx for n in ns))
        _pipeline(ctx, circuits, ns, mx, "bitstrings")
        return

    if cls == "pipeline_counts":
        if rng.random() < 0.35:
            mx, ns = G.rand_big_requests(rng)
        else:
            mx, ns = G.rand_requests(rng)
        circuits = G.rand_circuits(rng, len(ns))
        ctx.describe(f"pipeline counts max={mx} requests={ns!r} circuits={circuits!r}",
                     len(ns) >= 2 and any(n > mx for n in ns))
        _pipeline(ctx, circuits, ns, mx, "counts")
        return

    if cls == "combine":
        mult = G.rand_multiplicities(rng)
        pool = G.rand_pool(rng)
        if rng.random() < 0.5:
            items = []
            for _ in range(sum(mult)):
                t = rng.choice([0, 0, 1, 5, rng.randint(0, 60), 2 ** 53 + 1])
                items.append(G.rand_counts_total(rng, pool, t) if t else {})
            if rng.random() < 0.2:
                items = [Counter(d) for d in items]
            ctx.describe(f"combine counts mult={mult!r} items={items!r}", any(m >= 2 for m in mult))
            if rng.random() < 0.2:
                combine_measurement_counts(tuple(items), tuple(mult))
            else:
                combine_measurement_counts(items, mult)
        else:
            items = [[rng.choice(pool) for _ in range(rng.choice([0, 0, 1, 2, rng.randint(0, 12)]))] for _ in range(sum(mult))]
            ctx.describe(f"combine bitstrings mult={mult!r} items={items!r}", any(m >= 2 for m in mult))
            combine_bitstrings(items, mult)
        return

    if cls == "batches":
        k, ns, mb = G.rand_batch_request(rng)
        circuits = G.rand_circuits(rng, k)
        nontrivial = k > mb and any(len(set(ns[i:i + mb])) > 1 for i in range(0, k, mb))
        ctx.describe(f"batches k={k} max_batch={mb} requests={ns!r} circuits={circuits!r}", nontrivial)
        if rng.random() < 0.3:
            circuits, ns = tuple(circuits), tuple(ns)
        out = split_into_batches(circuits, ns, mb)
        # the caller still sees every batch after the monitor looked at them
        seen = [c for chunk, _ in out for c in chunk]
        ctx.check("batches-delivered", len(seen) == k and all(a is b for a, b in zip(seen, circuits)),
                  lambda: f"k={k} max_batch={mb}: caller iterated {seen!r}")
        return

    if cls in ("represent", "represent_forced", "represent_crowded"):
        np.random.seed(rng.getrandbits(32))
        if cls == "represent":
            style, d = G.rand_distribution(rng)
            n = G.rand_shot_number(rng, len(d))
        elif cls == "represent_crowded":
            style, d, n = GC.crowded_distribution(rng)
        else:
            style = rng.choice(["add", "eliminate", "eliminate_phantom"])
            d, n = G.forced_distribution(rng, style)
        rounded = sum(int(round(p * n)) for p in d.values())
        ctx.describe(f"{cls}[{style}] n={n} dist={d!r}", abs(rounded - n) >= (2 if cls == "represent_crowded" else 1))
        keyform = rng.choice(["str", "tuple", "tuple", "levels"])
        if keyform == "levels":
            # the same distribution over outcomes of subsystems with more than two levels (an outcome is a tuple of
            # non-negative integers; values of two and three digits included): bit b at position i -> levels[i][b]
            w = len(next(iter(d)))
            levels = [rng.sample([0, 1, 2, 3, 7, 9, 10, 11, 12, 25, 100, 101], 2) for _ in range(w)]
            ctx.mon.note("represent:multi-level-outcomes")
            dist = MeasurementOutcomeDistribution({tuple(levels[i][int(c)] for i, c in enumerate(k)): v for k, v in d.items()})
        else:
            dist = MeasurementOutcomeDistribution(dict(d) if keyform == "str" else {tuple(int(c) for c in k): v for k, v in d.items()})
        if ctx.index % 4 == 3:
            # the routine is a classmethod that builds `cls(...)`: asked through a user's subclass whose constructor
            # keeps a list of its own (validates / converts what it is given), the object handed back must still hold
            # exactly the requested number of shots
            class OwnListMeasurements(Measurements):
                def __init__(self, bitstrings=None):
                    super().__init__(None if bitstrings is None else [tuple(int(x) for x in b) for b in bitstrings])

            ctx.mon.note("represent:through-a-subclass-with-its-own-list")
            got = OwnListMeasurements.get_measurements_representing_distribution(dist, n)
            ctx.check("represent-subclass", isinstance(got, OwnListMeasurements) and len(got.bitstrings) == n,
                      lambda: f"{type(got).__name__} with {len(got.bitstrings)} shots for a request of {n} through a subclass")
            return
        Measurements.get_measurements_representing_distribution(dist, n)
        return

    if cls == "discretize":
        style, vs, total = G.rand_weights_total(rng)
        s = sum(Fraction(v) for v in vs)
        ctx.describe(f"discretize[{style}] total={total} weights={vs!r}",
                     len(vs) >= 2 and any((Fraction(v) * total / s).denominator != 1 for v in vs))
        form = rng.choice(["list", "list", "tuple", "np", "ndarray", "ndarray", "readonly", "strided"])
        if form in ("ndarray", "readonly", "strided") and all(isinstance(v, (int, float)) and abs(v) < 2**53 for v in vs):
            # the weights as a numpy array of the caller's: a plain float64 array that the caller uses AGAIN (a second
            # total; the rows of a weight table), a read-only one, a strided view (float32 weights are left out: the
            # function's own arithmetic then runs at 24 bits and its closing assertion fires for large totals - loud)
            if form == "strided":
                table = np.zeros((len(vs), 2))
                table[:, 0] = vs
                table[:, 1] = -1.0
                arr = table[:, 0]
            else:
                arr = np.array(vs, dtype=float)
            if form == "readonly":
                arr.setflags(write=False)
            given = [float(x) for x in arr]
            ctx.mon.note("discretize:weights-as-" + form)
            s0 = sum(Fraction(v) for v in given)
            for tot in (total, max(1, total // 2 + 1), total):
                try:
                    res = scale_and_discretize(arr, tot)
                except Exception as e:
                    ctx.check("discretize-array-weights", False, f"scale_and_discretize(<{form} array> {given!r}, {tot}) raised {e!r}")
                    break
                # judged against the weights the caller GAVE (the array is the caller's; whatever it holds after a
                # call, the caller's next call means the same weights)
                ok = _seq(res) and len(res) == len(given) and all(_is_int(x) for x in res) and sum(int(x) for x in res) == tot \
                    and all(abs(Fraction(int(x)) - Fraction(v) * tot / s0) < 1 + Fraction(1, 10**9) for x, v in zip(res, given))
                ctx.check("discretize-array-weights", ok,
                          lambda: f"scale_and_discretize(<{form} array> given as {given!r}, {tot}) = {list(res)!r} "
                                  f"(array now holds {[float(x) for x in arr]!r})")
                if not ok:
                    break
            return
        arg = list(vs) if form == "list" else tuple(vs) if form == "tuple" else [np.float64(v) for v in vs]
        scale_and_discretize(arg, total)
        return

    raise ValueError(cls)
