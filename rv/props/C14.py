"""C14 - runners validate requests, deliver enough shots and count their work correctly.

Observation is at the boundary: every public call of a runner (single, batch,
distribution, wavefunction, exact expectation) is judged by a post-condition
hook that compares request validity, the delivered results, the executions
logged by the runner itself and the movement of the two public counters with an
executable model (rv.ref.counters).  The driver additionally replays the whole
client-side call log through the model (history-level check).  Results are
judged for their shot count, for the length of every bitstring and for every
bit that the circuit determines (rv.gen.wide.partial_outcome); the class
``wide`` takes registers across one byte, one 16-bit word, 32 and 64 bits and
sample counts across 2**n_qubits, 2**15 and 2**16.
"""
import json
import os
import shutil
import tempfile

from ..gen import families as F
from ..gen import runners as G
from ..gen import wide as W
from ..ref import counters as M
from ..ref import stats as S

ID = "C14"
LEVEL = "exploration"
TECHNIQUE = "post-condition hooks on every public runner call + executable counter model replayed over the call history"
RULE = (
    "seeded random call histories (20-60 calls quick, 20-200 thorough) interleaving single, batch (int and "
    "per-circuit list), distribution (n / None), wavefunction and exact-expectation calls with valid and "
    "invalid sample counts (0, negatives, wrong-length lists, a non-positive entry at a random position, "
    "empty batches) and occasional device failures, on: a minimal BaseCircuitRunner subclass (n or n+3 "
    "shots), SymbolicSimulator, a simulator with a partial native gate set (6 sets), a simulator with the "
    "default predicate, and a MeasurementTrackingBackend around each (calls alternate between the tracker "
    "and the shared wrapped runner); circuits on 0-5 qubits incl. operation-free and idle-qubit ones (class wide: 8-130 qubits, below); a "
    "history is non-trivial when a rejected call lies between two successful ones; distinct = distinct "
    "canonical history strings; classes fresh / tracker_fresh: the same histories on a random rig, but over a "
    "family of 4-8 near-identical circuits (each one mutation away from an earlier member: one parameter "
    "changed - far, by 0.001, by less than numpy.allclose's tolerance (1e-15 .. 5e-9 absolute, 2e-7 .. 1e-6 relative: the "
    "library's own circuit equality calls such circuits equal), negated, +2pi -, one gate moved to another qubit / replaced by a gate of the same "
    "arity, idle qubits added or removed, an operation appended / prepended / dropped / duplicated, two "
    "neighbours swapped, an equal copy) whose circuit objects and per-circuit count sequences are built for "
    "each call and dropped after it (about 20 % of the members stay alive instead; an index occurring twice "
    "in a batch is the same object or two equal ones), so that addresses of dead circuits are reused by "
    "different live ones (tallied) and every coarse view of a circuit has a collision inside one history; after one "
    "accepted call in four of these classes the same request is issued again with each circuit replaced by a relative "
    "(parent / child in the family) - as the same kind of call, as a distribution request, or as a batch [c, c', c]; "
    "class wide (rv.gen.wide): shorter histories of the same kinds of calls (10-30 planned, cut where their estimated cost "
    "reaches 0.9 s quick / 2.5 s thorough; optionally through a tracker) over circuits on WIDE registers - the case index "
    "walks through a table of 16 (runner, width) slots so that every quick run has each of them about four times: "
    "SymbolicSimulator on 8 / 9 / 10 qubits, the partial-native and default-predicate simulators on 9 / 10, a simulator "
    "whose native execution contracts gate tensors (LeanSim, every operation native; the base class validates, counts and "
    "samples) on 8 .. 13, 15, 16 and 17 qubits, the base-class runner on 9 .. 130 qubits (16, 17, 32, 33, 63, 64, 65, "
    "100, 128 among them); per case an operation-free wide circuit, a 'tall' one (X on the last qubit and on one of the "
    "first eight, further X / CNOT / SWAP / diagonal gates; register spelled out or left to be inferred from the highest "
    "qubit touched), an 'idle' one (operations on the first 1-4 qubits, width by n_qubits= alone, also one qubit to "
    "either side of the case's width and 8 / 9), one of these with 1-2 rotations (RX / RY / H) added, a narrow circuit "
    "(1-5 qubits) and a tall neighbour of width +-1; accepted sample counts are 1 .. 40, or moved to 2**n_qubits + "
    "{-1, 0, 1, 2, 17}, 2 * 2**n_qubits (+1) (registers up to 13 qubits quick / 16 thorough on LeanSim, 10 on the other "
    "simulators), to 41 .. 50000 (powers of two +-1 among them; up to 10 qubits) and to 65535 .. 131073 (up to 6 qubits); "
    "a wide case is non-trivial when an accepted sampling request reaches a register of >= 9 qubits; every returned "
    "bitstring / distribution key is judged for length AND for the bits that no rotation can reach (all of them for "
    "X / CNOT / SWAP / diagonal circuits), in every class"
)
ASSUMPTIONS = [
    "sample counts are Python ints or lists/tuples of Python ints (numpy integers are not ints for the library's own isinstance test and are outside the workload)",
    "the register-length rule is judged for circuits with >= 1 qubit; a 0-qubit circuit is sampled as one-bit strings '(0,)' by Wavefunction.get_outcome_probs (the library rejects 0-qubit states elsewhere: Wavefunction.zero_state(0)), recorded as an observation, not judged",
    "circuits containing MultiPhaseOperation are not sent through the tracker (to_dict cannot serialise them - a C05 matter)",
    "for the tracker only monotone counters, no movement on a rejected call and +1/+1 for a single run (inherited base-class path) are demanded; the growth on a successful batch is not specified by the property",
    "a valid request on which the harness runner itself fails (DeviceFailure) must count only the circuits that completed",
    "a record's serialised circuit is compared with the library's to_dict of the circuit that was passed and, independently of the serialiser, read field by field (n_qubits, gate names, qubit indices, parameters parsed as floats: exactly for Python numbers, to 1e-9 relative otherwise)",
    "wide registers: the library applies a gate by building its 2**n x 2**n matrix (GateOperation.apply -> lifted_matrix; a two-qubit gate also multiplies 2**span matrices), i.e. 16 MiB per gate at 10 qubits, 256 MiB at 12 and 64 GiB at 16 - SymbolicSimulator and the harness simulators that use operation.apply are therefore driven on at most 10 qubits (two-qubit gates at most 6 apart); 11 .. 17 qubits reach the base class's validation, counters and sampler through LeanSim, a BaseWavefunctionSimulator subclass whose only own method contracts each gate's own matrix with the state tensor (compared with operation.apply on a 4-qubit probe when the class is built; if they ever disagree it falls back to operation.apply, widths are capped at 10 and the evidence says so); registers of 2**18 and more amplitudes are in no tier (one sampling call on 17 qubits already costs 0.25 s); get_exact_expectation_values is not called beyond 10 qubits",
    "determined bits: a qubit that only X / Y / CNOT-with-determined-control / SWAP / diagonal operations (Z S T I CZ RZ PHASE MultiPhase) have touched is in a basis state and in a product with the rest, so its measured bit is fixed whatever rotations act elsewhere; RX / RY / H open their qubit, a CNOT with an open control opens its target (rv.gen.wide.partial_outcome; nothing is claimed about open bits)",
    "run_batch_and_measure([], n<=0) is treated as an invalid request (the sample count is non-positive); set EMPTY_BATCH_NONPOSITIVE_IS_INVALID = False to exclude that corner",
]
DECIDING = [
    "run_and_measure", "run_batch_and_measure", "distribution", "get_wavefunction", "exact_expectation",
    "tracker.single", "tracker.batch", "tracker.distribution", "history-counters", "history-counters-tracker",
    "history-outcome", "wide-register-result",
]
BRANCHES = [
    "base.run_and_measure:reject", "base.run_batch_and_measure:reject_length",
    "base.run_batch_and_measure:reject_entry", "sim.run_and_measure:reject",
    "sim.get_wavefunction:native", "sim.get_wavefunction:nonnative",
]
BUDGET = {"quick": (4, 26, 160), "thorough": (16, 200, 100000)}
CASE_TIMEOUT = {"quick": 30, "thorough": 60}

EMPTY_BATCH_NONPOSITIVE_IS_INVALID = True

_TMP = None


def classes(tier):
    return ["echo", "symbolic", "partial", "default_pred", "tracker_echo", "tracker_symbolic", "tracker_partial",
            "tracker_fresh", "fresh", "wide"]


# ----------------------------------------------------------------------------- helpers for the monitors
def _arg(call, pos, *names, default=None):
    if len(call.args) > pos:
        return call.args[pos]
    for n in names:
        if n in call.kwargs:
            return call.kwargs[n]
    return default


def _is_tracker(r):
    return type(r).__name__ == "MeasurementTrackingBackend"


def _kind(r):
    """'tracker' | 'sim' | 'echo' | 'other'"""
    if _is_tracker(r):
        return "tracker"
    if _native_of(r) is not None:
        return "sim"
    if type(r).__name__ == "EchoRunner":
        return "echo"
    return "other"


def _native_of(r):
    """the native-flag rule of a runner under test (rv.gen.runners.native_of), incl. the lean simulator of the
    wide-register class (every operation native)"""
    if type(r).__name__ == "LeanSim":
        return "all"
    return G.native_of(r)


def _counters(r):
    return (r.n_circuits_executed, r.n_jobs_executed)


def _is_circuit(c):
    return type(c).__name__ == "Circuit" and hasattr(c, "operations") and hasattr(c, "n_qubits")


def _spec_of(circuit):
    return {"n": circuit.n_qubits,
            "ops": [(G.op_name(o), tuple(getattr(o, "qubit_indices", ())), None) for o in circuit.operations]}


def _cdesc(circuit):
    try:
        return W.spec_str(_spec_of(circuit))
    except Exception:
        return repr(circuit)[:80]


def _snap(r):
    s = {"c": _counters(r), "L": len(G._log(r)), "nret": dict(getattr(r, "_rv_nret", {}))}
    if _is_tracker(r):
        s["inner"] = _snap(r.inner_backend)
    return s


def _pre(mon, call):
    r = call.args[0]
    try:
        return _snap(r)
    except Exception:
        return None


def _remember(r, op, result):
    """shadow state: what the last successful public call of this kind returned"""
    try:
        ret = getattr(r, "_rv_ret", None)
        if ret is None:
            ret = r._rv_ret = {}
            r._rv_nret = {}
        if op in ret and ret[op] is result and result is not None:
            # the very object noted a moment ago, coming up through a second hooked layer of ONE public call (an
            # override that delegates to the method it overrides, both hooked): one call, noted once (harmless C14-R9)
            return
        ret[op] = result
        r._rv_nret[op] = r._rv_nret.get(op, 0) + 1
    except Exception:
        pass


def _events(r, pre):
    return G._log(r)[pre["L"]:]


def _delta(r, pre):
    c1, j1 = _counters(r)
    return (c1 - pre["c"][0], j1 - pre["c"][1])


def _check_rejected(mon, name, r, pre, call, what, corner=False):
    """an invalid request: ValueError, nothing executed, no counter moved.
    Returns True when everything is as demanded."""
    kind = _kind(r)
    if not isinstance(call.exc, ValueError):
        mon.violation("empty-batch-nonpositive-count-accepted" if corner else "invalid-request-not-ValueError",
                      f"{name} on {kind}: {what} -> " + (f"raised {call.exc!r}" if call.exc is not None else f"returned {call.result!r}"[:300]))
        return False
    ev = _events(r, pre)
    if ev:
        mon.violation("rejected-but-executed", f"{name} on {kind}: {what} was rejected after {len(ev)} execution(s): "
                      f"{[(e['kind'], _cdesc(e['circuit'])) for e in ev][:4]}")
        return False
    d = _delta(r, pre)
    if d != (0, 0):
        mon.violation("tracker-counted-rejected-call" if kind == "tracker" else "rejected-moved-counters",
                      f"{name} on {kind}: {what} rejected but counters (circuits, jobs) moved by {d}")
        return False
    if kind == "tracker":
        inner = r.inner_backend
        ipre = pre["inner"]
        if G._log(inner)[ipre["L"]:] or _counters(inner) != ipre["c"]:
            mon.violation("rejected-but-executed",
                          f"{name} on tracker: {what} rejected but the wrapped runner worked: counters {ipre['c']} -> {_counters(inner)}")
            return False
    return True


def _shots_ok(mon, name, circuit, n, meas, label=""):
    try:
        bs = list(meas.bitstrings)
    except Exception:
        mon.violation("result-not-measurements", f"{name}{label}: result {meas!r} has no bitstrings")
        return False
    if len(bs) < n:
        mon.violation("too-few-shots", f"{name}{label}: {len(bs)} shots for a request of {n} on {_cdesc(circuit)}")
        return False
    nq = circuit.n_qubits
    if nq == 0:
        mon.note("zero-qubit-register:bit-length-" + ",".join(sorted({str(len(b)) for b in bs})))
    else:
        bad = [b for b in bs if len(b) != nq]
        if bad:
            mon.violation("bitstring-length", f"{name}{label}: bitstring {bad[0]!r} for the {nq}-qubit circuit {_cdesc(circuit)}")
            return False
        if nq >= 9:
            mon.note("register>=9-qubits:bitstring-length-judged")
    return True


def _distinct(bitstrings):
    try:
        return set(bitstrings)
    except TypeError:
        return {tuple(b) for b in bitstrings}


def _expected_bits(kind, spec):
    """what the circuit's measurement is known to give without simulating it: the echo runner's pattern, or the
    bits of a simulator's outcome that no rotation can reach (None where open; all of them for a classical circuit)"""
    if kind == "echo":
        return G.echo_pattern(spec)
    if kind == "sim":
        exp = W.partial_outcome(spec)
        return exp if any(e is not None for e in exp) else None
    return None


def _content_ok(mon, name, r, circuit, meas, label=""):
    """results must belong to THEIR circuit (makes a permuted batch visible):
    deterministic circuits have one possible outcome"""
    spec = _spec_of(circuit)
    if spec["n"] == 0:
        return True
    exp = _expected_bits(_kind(r), spec)
    if exp is None:
        return True
    full = None not in exp
    for b in _distinct(meas.bitstrings):
        pos = W.disagreement(b, exp)
        if pos is not None:
            mon.violation("result-of-another-circuit",
                          f"{name}{label}: outcome {tuple(b)} from {_cdesc(circuit)} "
                          + (f"whose only possible outcome is {exp}" if full else
                             f"whose bit #{pos} can only be {exp[pos]} (determined bits: {exp})"))
            return False
    mon.note("deterministic-outcome-checked" if full else "determined-bits-of-a-circuit-with-rotations-checked")
    if spec["n"] >= 9:
        mon.note("register>=9-qubits:outcome-bits-judged")
    return True


def _sim_work(mon, name, r, pre, circuits, what):
    """counter movement and native executions of a simulator for one wavefunction
    computation per listed circuit"""
    native = _native_of(r)
    exp_c = exp_j = 0
    exp_native = []
    for c in circuits:
        flags = G.flags_of_circuit(c, native)
        dc, dj = M.wavefunction_cost(flags)
        exp_c += dc
        exp_j += dj
        names = [G.op_name(o) for o in c.operations]
        for a, b in M.native_slices(flags):
            exp_native.append(names[a:b])
        if dj >= 3:
            mon.note("sim:circuit-with>=3-segments")
        if dj == 0:
            mon.note("sim:operation-free-circuit")
    d = _delta(r, pre)
    if d != (exp_c, exp_j):
        mon.violation("simulator-counters",
                      f"{name} on {type(r).__name__}: {what}: counters (circuits, jobs) moved by {d}, "
                      f"the segments of {[_cdesc(c) for c in circuits][:4]} under native={_native_str(native)} give {(exp_c, exp_j)}")
        return False
    got_native = [e["names"] for e in _events(r, pre) if e["kind"] == "native"]
    if got_native != exp_native:
        mon.violation("native-executions",
                      f"{name} on {type(r).__name__}: {what}: native sub-circuits executed {got_native[:6]} expected {exp_native[:6]}")
        return False
    return True


def _native_str(native):
    return native if isinstance(native, str) else sorted(native)


def _echo_work(mon, name, r, pre, circuits, ns, what, failed=False):
    """base-class runner: one execution per circuit, in order, each counted +1/+1
    after it ran"""
    ev = _events(r, pre)
    runs = [e for e in ev if e["kind"] == "run"]
    fails = [e for e in ev if e["kind"] == "failed"]
    d = _delta(r, pre)
    if d != (len(runs), len(runs)):
        mon.violation("base-counters",
                      f"{name}: {what}: counters (circuits, jobs) moved by {d} while {len(runs)} circuit(s) ran"
                      + (f" and {len(fails)} failed" if fails else ""))
        return False
    if failed:
        return True
    if len(runs) != len(circuits):
        mon.violation("executions", f"{name}: {what}: {len(runs)} executions for {len(circuits)} circuits")
        return False
    for i, (e, c, n) in enumerate(zip(runs, circuits, ns)):
        if e["circuit"] is not c or e["n"] != n:
            mon.violation("execution-order", f"{name}: {what}: execution #{i} ran {_cdesc(e['circuit'])} x{e['n']}, "
                          f"expected {_cdesc(c)} x{n}")
            return False
        if e["seen"] != (pre["c"][0] + i, pre["c"][1] + i):
            mon.violation("counted-before-run",
                          f"{name}: {what}: while circuit #{i} was running the runner read counters {e['seen']}, "
                          f"{i} circuit(s) had run since {pre['c']}")
            return False
    return True


def _read_records(t):
    """the records in the tracker's file; a file that is not one JSON document with a list under "raw-data" holds NO
    record that matches anything (an older, longer document showing through behind a new one, a half-written file):
    one pseudo-record that no expectation meets, so that the record checks report it (seeded C14-29 made the monitor
    itself fail on json.load, which counted as a harness error = INCONCLUSIVE)"""
    try:
        with open(t.raw_data_file_name) as f:
            data = json.load(f)
        recs = data["raw-data"]
        if not isinstance(recs, list):
            raise ValueError("raw-data is not a list")
        return recs
    except (ValueError, KeyError, TypeError) as e:  # json.JSONDecodeError is a ValueError
        return [{"data_type": f"<unreadable tracker file: {type(e).__name__}: {e}>"[:200]}]


def _record_reads_as(rc, circuit):
    """reads a record's serialised circuit field by field (without the library's serialiser) against the
    circuit that was passed: None when it names the same register, gates, qubits and parameters, else a text"""
    if not isinstance(rc, dict):
        return f"is {type(rc).__name__}"
    if rc.get("n_qubits") != circuit.n_qubits:
        return f"has n_qubits={rc.get('n_qubits')!r} for a register of {circuit.n_qubits}"
    rops = rc.get("operations", [])
    ops = list(circuit.operations)
    if not isinstance(rops, list) or len(rops) != len(ops):
        return f"lists {len(rops) if isinstance(rops, list) else rops!r} operations for {len(ops)}"
    for i, (ro, o) in enumerate(zip(rops, ops)):
        if G.op_name(o) == "MP" or not isinstance(ro, dict):
            continue
        g = ro.get("gate") or {}
        if g.get("name") != G.op_name(o) or list(ro.get("qubit_indices", ())) != list(o.qubit_indices):
            return f"operation #{i} is {g.get('name')}{ro.get('qubit_indices')} for {G.op_name(o)}{list(o.qubit_indices)}"
        params = list(getattr(o.gate, "params", ()))
        rp = list(g.get("params", ()))
        if len(rp) != len(params):
            return f"operation #{i} has {len(rp)} parameter(s) for {len(params)}"
        for a, b in zip(rp, params):
            try:
                fa, fb = float(a), float(b)
            except Exception:
                continue
            exact = type(b) in (int, float)  # repr() of a Python number reads back as the same number
            if (fa != fb) if exact else (abs(fa - fb) > 1e-9 * max(1.0, abs(fb))):
                return f"operation #{i} ({G.op_name(o)}) has parameter {a!r} for {b!r}"
    return None


def _record_ok(mon, name, t, rec, circuit, meas, label=""):
    from orquestra.quantum.circuits import to_dict

    bs = [tuple(int(x) for x in b) for b in meas.bitstrings]
    exp_counts = S.counts(bs)
    if rec.get("counts") != exp_counts:
        mon.violation("tracker-record-counts", f"{name}{label}: record counts {rec.get('counts')!r}, the returned measurements give {exp_counts!r}")
        return False
    if rec.get("number_of_shots") != len(bs):
        mon.violation("tracker-record-shots", f"{name}{label}: record number_of_shots {rec.get('number_of_shots')!r} for {len(bs)} returned shots")
        return False
    exp_circ = json.loads(json.dumps(to_dict(circuit)))
    if rec.get("circuit") != exp_circ:
        mon.violation("tracker-record-circuit", f"{name}{label}: record circuit {rec.get('circuit')!r} is not the serialised {_cdesc(circuit)}")
        return False
    bad = _record_reads_as(rec.get("circuit"), circuit)
    if bad:
        mon.violation("tracker-record-circuit", f"{name}{label}: record circuit {bad}: {rec.get('circuit')!r} recorded for {_cdesc(circuit)}"[:600])
        return False
    if t.record_bitstrings:
        if rec.get("bitstrings") != [list(b) for b in bs]:
            mon.violation("tracker-record-bitstrings", f"{name}{label}: recorded bitstrings differ from the returned ones")
            return False
    return True


# ----------------------------------------------------------------------------- monitors
def _post_single(mon, call):
    name = "run_and_measure"
    r = call.args[0]
    circuit = _arg(call, 1, "circuit")
    n = _arg(call, 2, "n_samples")
    pre = call.pre
    req = M.single_request(n)
    kind = _kind(r)
    if pre is None or req is None or not _is_circuit(circuit) or kind == "other":
        mon.out_of_domain(name)
        return
    what = f"({_cdesc(circuit)}, {n})"
    if req != "ok":
        if _check_rejected(mon, name, r, pre, call, what):
            mon.ok(name)
            if kind == "tracker":
                mon.ok("tracker.single")
        return
    if call.exc is not None:
        if isinstance(call.exc, G.DeviceFailure):
            target = r.inner_backend if kind == "tracker" else r
            tpre = pre["inner"] if kind == "tracker" else pre
            ok = True
            if _kind(target) == "echo":
                ok = _echo_work(mon, name, target, tpre, [circuit], [n], what, failed=True)
            if ok and kind == "tracker" and _delta(r, pre) != (0, 0):
                mon.violation("base-counters", f"{name} on tracker: {what} failed in the device but counters moved by {_delta(r, pre)}")
                ok = False
            if ok:
                mon.note("failed-valid-run-judged")
                mon.ok(name)
        else:
            mon.note(f"valid-request-raised:{type(call.exc).__name__}")
            mon.out_of_domain(name)
        return
    res = call.result
    if not _shots_ok(mon, name, circuit, n, res) or not _content_ok(mon, name, r if kind != "tracker" else r.inner_backend, circuit, res):
        return
    if kind == "echo":
        if not _echo_work(mon, name, r, pre, [circuit], [n], what):
            return
        ev = [e for e in _events(r, pre) if e["kind"] == "run"]
        if list(res.bitstrings) != list(ev[0]["result"].bitstrings):
            mon.violation("result-not-delivered", f"{name}: {what}: returned shots differ from the ones the runner produced")
            return
    elif kind == "sim":
        if not _sim_work(mon, name, r, pre, [circuit], what):
            return
    else:  # tracker: single runs go through the base class
        d = _delta(r, pre)
        if d != (1, 1):
            mon.violation("base-counters", f"{name} on tracker: {what}: counters moved by {d} for one executed circuit")
            return
        inner = r.inner_backend
        got = getattr(inner, "_rv_nret", {}).get("single", 0) - pre["inner"]["nret"].get("single", 0)
        if got != 1:
            mon.violation("tracker-forwarding", f"{name} on tracker: {what}: the wrapped runner completed {got} single runs")
            return
        if not _same_result(res, inner._rv_ret["single"]):
            mon.violation("tracker-result-not-inner", f"{name} on tracker: {what}: returned object is not the wrapped runner's result")
            return
        recs = _read_records(r)
        if len(recs) != 1 or recs[0].get("data_type") != "measurement":
            mon.violation("tracker-record-missing", f"{name} on tracker: {what}: file holds {len(recs)} record(s) {[x.get('data_type') for x in recs]}")
            return
        if not _record_ok(mon, name, r, recs[0], circuit, res):
            return
        mon.ok("tracker.single")
    _remember(r, "single", res)
    mon.ok(name)


def _post_batch(mon, call):
    name = "run_batch_and_measure"
    r = call.args[0]
    batch = _arg(call, 1, "circuits_batch", "circuits")
    n = _arg(call, 2, "n_samples")
    pre = call.pre
    kind = _kind(r)
    try:
        batch_l = list(batch)
    except Exception:
        batch_l = None
    if pre is None or batch_l is None or not all(_is_circuit(c) for c in batch_l) or kind in ("other", "tracker"):
        mon.out_of_domain(name)
        return
    k = len(batch_l)
    req = M.batch_request(k, n)
    if req is None:
        mon.out_of_domain(name)
        return
    what = f"(batch of {k}: {[_cdesc(c) for c in batch_l][:5]}, n_samples={n!r})"
    if req != "ok":
        if k == 0 and req == "nonpositive":
            mon.note("empty-batch-with-nonpositive-count")
            if not EMPTY_BATCH_NONPOSITIVE_IS_INVALID:
                mon.out_of_domain(name)
                return
        mon.note(f"rejected-batch:{req}")
        if _check_rejected(mon, name, r, pre, call, what + f" [{req}]", corner=(k == 0 and req == "nonpositive")):
            mon.ok(name)
        return
    ns = M.per_circuit(k, n)
    if call.exc is not None:
        if isinstance(call.exc, G.DeviceFailure) and kind == "echo":
            if _echo_work(mon, name, r, pre, batch_l, ns, what, failed=True):
                mon.note("failed-valid-run-judged")
                mon.ok(name)
        else:
            mon.note(f"valid-request-raised:{type(call.exc).__name__}")
            mon.out_of_domain(name)
        return
    res = call.result
    try:
        res_l = list(res)
    except Exception:
        mon.violation("batch-result-count", f"{name}: {what}: result {res!r} is not a list")
        return
    if len(res_l) != k:
        mon.violation("batch-result-count", f"{name}: {what}: {len(res_l)} results for {k} circuits")
        return
    for i, (c, ni, m) in enumerate(zip(batch_l, ns, res_l)):
        if not _shots_ok(mon, name, c, ni, m, f" result #{i}") or not _content_ok(mon, name, r, c, m, f" result #{i}"):
            return
    if kind == "echo":
        if not _echo_work(mon, name, r, pre, batch_l, ns, what):
            return
        ev = [e for e in _events(r, pre) if e["kind"] == "run"]
        for i, (e, m) in enumerate(zip(ev, res_l)):
            if list(m.bitstrings) != list(e["result"].bitstrings):
                mon.violation("result-order", f"{name}: {what}: result #{i} is not what execution #{i} produced")
                return
    else:
        if not _sim_work(mon, name, r, pre, batch_l, what):
            return
    if k >= 2:
        mon.note("batch>=2-judged")
    _remember(r, "batch", res)
    mon.ok(name)


def _dist_items(d):
    return {tuple(k): float(v) for k, v in d.distribution_dict.items()}


def _dist_shape_ok(mon, name, r, circuit, dist, what, exact):
    try:
        items = _dist_items(dist)
    except Exception:
        mon.violation("distribution-result", f"{name}: {what}: result {dist!r} is not an outcome distribution")
        return False
    nq = circuit.n_qubits
    if nq == 0:
        mon.note("zero-qubit-register:distribution-key-length-" + ",".join(sorted({str(len(k)) for k in items})))
    elif any(len(k) != nq for k in items):
        mon.violation("distribution-width", f"{name}: {what}: outcomes {sorted(items)[:3]} for a {nq}-qubit circuit")
        return False
    tot = sum(items.values())
    if abs(tot - 1) > 1e-9:
        mon.violation("distribution-total", f"{name}: {what}: probabilities sum to {tot!r}")
        return False
    if nq >= 1:
        exp = _expected_bits(_kind(r), _spec_of(circuit))
        if exp is not None:
            off = {k: v for k, v in items.items() if W.disagreement(k, exp) is not None and v != 0}
            if sum(off.values()) > 1e-9:
                mon.violation("result-of-another-circuit",
                              f"{name}: {what}: distribution gives {sorted(off.items())[:3]} but the outcome's determined bits are {exp}"[:700])
                return False
        if nq >= 9:
            mon.note("register>=9-qubits:" + ("exact" if exact else "sampled") + "-distribution-judged")
    return True


def _post_dist(mon, call):
    name = "distribution"
    r = call.args[0]
    circuit = _arg(call, 1, "circuit")
    n = _arg(call, 2, "n_samples")
    pre = call.pre
    kind = _kind(r)
    if pre is None or not _is_circuit(circuit) or kind in ("other", "tracker") or not (n is None or M.is_count(n)):
        mon.out_of_domain(name)
        return
    what = f"({_cdesc(circuit)}, n_samples={n!r})"
    if n is None:
        if call.exc is not None:
            # base runners cannot answer without a sample count: whatever they raise, nothing may have run
            ev = _events(r, pre)
            if ev or _delta(r, pre) != (0, 0):
                mon.violation("rejected-but-executed", f"{name} on {kind}: {what} raised {call.exc!r} after work: counters moved by {_delta(r, pre)}")
            else:
                mon.note("distribution-None-refused")
                mon.ok(name)
            return
        if kind != "sim":
            mon.out_of_domain(name)
            return
        if not _dist_shape_ok(mon, name, r, circuit, call.result, what, True) or not _sim_work(mon, name, r, pre, [circuit], what):
            return
        mon.note("distribution-exact")
        _remember(r, "dist", call.result)
        mon.ok(name)
        return
    if n <= 0:
        if _check_rejected(mon, name, r, pre, call, what):
            mon.ok(name)
        return
    if call.exc is not None:
        if isinstance(call.exc, G.DeviceFailure) and kind == "echo":
            if _echo_work(mon, name, r, pre, [circuit], [n], what, failed=True):
                mon.ok(name)
        else:
            mon.note(f"valid-request-raised:{type(call.exc).__name__}")
            mon.out_of_domain(name)
        return
    if not _dist_shape_ok(mon, name, r, circuit, call.result, what, False):
        return
    if kind == "echo":
        if not _echo_work(mon, name, r, pre, [circuit], [n], what):
            return
    elif not _sim_work(mon, name, r, pre, [circuit], what):
        return
    _remember(r, "dist", call.result)
    mon.ok(name)


def _post_wf(mon, call):
    name = "get_wavefunction"
    r = call.args[0]
    circuit = _arg(call, 1, "circuit")
    pre = call.pre
    if pre is None or not _is_circuit(circuit) or _kind(r) != "sim" or call.exc is not None:
        if call.exc is not None:
            mon.note(f"get_wavefunction-raised:{type(call.exc).__name__}")
        mon.out_of_domain(name)
        return
    what = f"({_cdesc(circuit)})"
    if len(call.result) != 2 ** circuit.n_qubits:
        mon.violation("wavefunction-length", f"{name}: {what}: {len(call.result)} amplitudes")
        return
    if _sim_work(mon, name, r, pre, [circuit], what):
        mon.ok(name)


def _post_exact(mon, call):
    name = "exact_expectation"
    r = call.args[0]
    circuit = _arg(call, 1, "circuit")
    pre = call.pre
    if pre is None or not _is_circuit(circuit) or _kind(r) != "sim" or call.exc is not None:
        mon.out_of_domain(name)
        return
    if _sim_work(mon, name, r, pre, [circuit], f"({_cdesc(circuit)}, operator)"):
        mon.ok(name)


def _pre_native(mon, call):
    # SymbolicSimulator has no log of its own: this hook is its execution log
    r, circuit = call.args[0], _arg(call, 1, "circuit")
    G._log(r).append({"kind": "native", "circuit": circuit, "names": [G.op_name(o) for o in circuit.operations]})


def _post_tbatch(mon, call):
    name = "tracker.batch"
    t = call.args[0]
    batch = _arg(call, 1, "circuits", "circuits_batch")
    n = _arg(call, 2, "n_samples")
    pre = call.pre
    try:
        batch_l = list(batch)
    except Exception:
        batch_l = None
    if pre is None or batch_l is None or not all(_is_circuit(c) for c in batch_l) or _kind(t.inner_backend) in ("other", "tracker"):
        mon.out_of_domain(name)
        return
    k = len(batch_l)
    req = M.batch_request(k, n)
    if req is None:
        mon.out_of_domain(name)
        return
    what = f"(batch of {k}: {[_cdesc(c) for c in batch_l][:5]}, n_samples={n!r})"
    if req != "ok":
        if k == 0 and req == "nonpositive" and not EMPTY_BATCH_NONPOSITIVE_IS_INVALID:
            mon.out_of_domain(name)
            return
        if _check_rejected(mon, name, t, pre, call, what + f" [{req}]", corner=(k == 0 and req == "nonpositive")):
            mon.ok(name)
        return
    d = _delta(t, pre)
    if d[0] < 0 or d[1] < 0:
        mon.violation("counters-decreased", f"{name}: {what}: tracker counters moved by {d}")
        return
    if call.exc is not None:
        mon.note(f"tracker-valid-request-raised:{type(call.exc).__name__}")
        mon.out_of_domain(name)
        return
    inner = t.inner_backend
    got = getattr(inner, "_rv_nret", {}).get("batch", 0) - pre["inner"]["nret"].get("batch", 0)
    if got != 1:
        mon.violation("tracker-forwarding", f"{name}: {what}: the wrapped runner completed {got} batch runs")
        return
    inner_res = inner._rv_ret["batch"]
    res = call.result
    same = res is inner_res or (isinstance(res, (list, tuple)) and isinstance(inner_res, (list, tuple)) and len(res) == len(inner_res)
                                and all(_same_result(a, b) for a, b in zip(res, inner_res)))
    if not same:
        mon.violation("tracker-result-not-inner", f"{name}: {what}: returned results are not the wrapped runner's result objects (in order)")
        return
    recs = _read_records(t)
    if len(recs) != k or any(x.get("data_type") != "measurement" for x in recs):
        mon.violation("tracker-record-missing", f"{name}: {what}: file holds {len(recs)} record(s) for {k} circuits")
        return
    for i, (rec, c, m) in enumerate(zip(recs, batch_l, res)):
        if not _record_ok(mon, name, t, rec, c, m, f" record #{i}"):
            return
    if k >= 2:
        mon.note("tracker-batch>=2-judged")
    _remember(t, "batch", res)
    mon.ok(name)


def _post_tdist(mon, call):
    from orquestra.quantum.circuits import to_dict

    name = "tracker.distribution"
    t = call.args[0]
    circuit = _arg(call, 1, "circuit")
    n = _arg(call, 2, "n_samples")
    pre = call.pre
    if pre is None or not _is_circuit(circuit) or not (n is None or M.is_count(n)) or _kind(t.inner_backend) in ("other", "tracker"):
        mon.out_of_domain(name)
        return
    what = f"({_cdesc(circuit)}, n_samples={n!r})"
    if n is not None and n <= 0:
        if _check_rejected(mon, name, t, pre, call, what):
            mon.ok(name)
        return
    d = _delta(t, pre)
    if d[0] < 0 or d[1] < 0:
        mon.violation("counters-decreased", f"{name}: {what}: tracker counters moved by {d}")
        return
    if call.exc is not None:
        if n is None and _kind(t.inner_backend) == "echo":
            mon.note("distribution-None-refused")
            mon.ok(name)
        else:
            mon.note(f"tracker-valid-request-raised:{type(call.exc).__name__}")
            mon.out_of_domain(name)
        return
    inner = t.inner_backend
    got = getattr(inner, "_rv_nret", {}).get("dist", 0) - pre["inner"]["nret"].get("dist", 0)
    if got != 1 or not _same_result(call.result, inner._rv_ret["dist"]):
        mon.violation("tracker-result-not-inner", f"{name}: {what}: returned distribution is not the wrapped runner's result ({got} inner calls)")
        return
    recs = _read_records(t)
    ok = (len(recs) == 1 and recs[0].get("data_type") == "measurement outcome distribution"
          and recs[0].get("circuit") == json.loads(json.dumps(to_dict(circuit))) and recs[0].get("number_of_shots") == n)
    if not ok:
        mon.violation("tracker-record-distribution", f"{name}: {what}: file records {recs!r}"[:600])
        return
    bad = _record_reads_as(recs[0].get("circuit"), circuit)
    if bad:
        mon.violation("tracker-record-distribution", f"{name}: {what}: record circuit {bad}: {recs[0].get('circuit')!r}"[:600])
        return
    mon.ok(name)


def _same_result(a, b):
    """"returns exactly what the wrapped runner returned": the very object, or an object of the same kind with the
    same content in the same order (an equal copy is still what the wrapped runner returned)"""
    if a is b:
        return True
    try:
        if type(a).__name__ != type(b).__name__:
            return False
        if hasattr(a, "bitstrings") and hasattr(b, "bitstrings"):
            return [tuple(x) for x in a.bitstrings] == [tuple(x) for x in b.bitstrings]
        if hasattr(a, "distribution_dict") and hasattr(b, "distribution_dict"):
            return dict(a.distribution_dict) == dict(b.distribution_dict)
    except Exception:
        return False
    return False


def install(mon, reach):
    from orquestra.quantum.api import circuit_runner as CR
    from orquestra.quantum.api import wavefunction_simulator as WS
    from orquestra.quantum.runners import symbolic_simulator as SS
    from orquestra.quantum.runners import trackers as TR

    mon.max_depth = 8  # tracker -> wrapped runner -> get_wavefunction -> native execution
    B, W, T = CR.BaseCircuitRunner, WS.BaseWavefunctionSimulator, TR.MeasurementTrackingBackend
    reach.watch(B.run_and_measure, "base.run_and_measure", markers={"reject": r"raise ValueError"})
    reach.watch(B.run_batch_and_measure, "base.run_batch_and_measure",
                markers={"reject_length": r"Number of samples has to be an integer or a sequence",
                         "reject_entry": r"All numbers of samples have to be positive"})
    reach.watch(getattr(B, "_run_batch_and_measure", None), "base._run_batch_and_measure")
    reach.watch(B.get_measurement_outcome_distribution, "base.get_measurement_outcome_distribution")
    reach.watch(W.run_and_measure, "sim.run_and_measure", markers={"reject": r"raise ValueError"})
    reach.watch(getattr(W, "_run_and_measure", None), "sim._run_and_measure")
    reach.watch(W.get_wavefunction, "sim.get_wavefunction",
                markers={"native": r"_get_wavefunction_from_native_circuit\(", "nonnative": r"operation\.apply\(state\)"})
    reach.watch(W.get_exact_expectation_values, "sim.get_exact_expectation_values")
    reach.watch(W.get_measurement_outcome_distribution, "sim.get_measurement_outcome_distribution")
    reach.watch(getattr(SS.SymbolicSimulator, "_get_wavefunction_from_native_circuit", None), "symbolic.native")
    reach.watch(getattr(T, "_run_and_measure", None), "tracker._run_and_measure")
    reach.watch(T.run_batch_and_measure, "tracker.run_batch_and_measure")
    reach.watch(T.record_raw_measurement_data, "tracker.record_raw_measurement_data")
    reach.watch(T.get_measurement_outcome_distribution, "tracker.get_measurement_outcome_distribution")
    reach.watch(T.save_raw_data, "tracker.save_raw_data")

    mon.hook_method(B, "run_and_measure", pre=_pre, post=_post_single, name="run_and_measure")
    mon.hook_method(W, "run_and_measure", pre=_pre, post=_post_single, name="run_and_measure", overrides=True)
    mon.hook_method(B, "run_batch_and_measure", pre=_pre, post=_post_batch, name="run_batch_and_measure")
    mon.hook_method(B, "get_measurement_outcome_distribution", pre=_pre, post=_post_dist, name="distribution")
    mon.hook_method(W, "get_measurement_outcome_distribution", pre=_pre, post=_post_dist, name="distribution", overrides=True)
    mon.hook_method(W, "get_wavefunction", pre=_pre, post=_post_wf, name="get_wavefunction", overrides=True)
    mon.hook_method(W, "get_exact_expectation_values", pre=_pre, post=_post_exact, name="exact_expectation", overrides=True)
    mon.hook_method(SS.SymbolicSimulator, "_get_wavefunction_from_native_circuit", pre=_pre_native, name="symbolic.native")
    mon.hook_method(T, "run_batch_and_measure", pre=_pre, post=_post_tbatch, name="tracker.batch")
    mon.hook_method(T, "get_measurement_outcome_distribution", pre=_pre, post=_post_tdist, name="tracker.distribution")


# ----------------------------------------------------------------------------- workload
def _bad_count(rng):
    return rng.choice([0, 0, -1, -1, -rng.randint(2, 50), -(10 ** rng.randint(3, 12))])


def _good_count(rng):
    return rng.choice([1, 1, 2, 3, 5, rng.randint(1, 40)])


def _plan_call(rng, target_kinds, pool, sim, can_fail):
    """one planned call: dict(op, tgt, cidx (list of pool indices), n, expect)"""
    tgt = rng.choice(target_kinds)
    ops = ["single"] * 6 + ["batch"] * 8 + ["dist"] * 3
    if sim and tgt == "R":
        ops += ["wf", "exact"]
    op = rng.choice(ops)
    invalid = rng.random() < 0.35
    call = {"op": op, "tgt": tgt, "expect": "ok", "fail": None}
    usable = [i for i, s in enumerate(pool) if tgt == "R" or not any(o[0] == "MP" for o in s["ops"])]
    if op in ("single", "dist", "wf", "exact"):
        call["cidx"] = [rng.choice(usable)]
        if op in ("wf", "exact"):
            call["n"] = None
        elif op == "dist" and rng.random() < 0.25:
            call["n"] = None
            call["expect"] = "ok" if sim else "refused"
        elif invalid:
            call["n"] = _bad_count(rng)
            call["expect"] = "nonpositive"
        else:
            call["n"] = _good_count(rng)
    else:
        k = rng.choice([0, 1, 1, 2, 2, 3, 3, 4, 5]) if rng.random() < 0.9 else rng.randint(6, 9)
        call["cidx"] = [rng.choice(usable) for _ in range(k)]
        as_tuple = rng.random() < 0.2
        if not invalid:
            if rng.random() < 0.4:
                call["n"] = _good_count(rng)
            else:
                ns = rng.sample(range(1, 41), k) if k else []  # distinct -> order visible
                call["n"] = tuple(ns) if as_tuple else ns
        else:
            kind = rng.choice(["nonpositive", "length", "length", "entry", "entry", "entry", "both"])
            if kind == "entry" and k == 0:
                kind = "length"
            if kind == "nonpositive":
                call["n"] = _bad_count(rng)
                call["expect"] = "nonpositive"
            elif kind == "length":
                m = rng.choice([x for x in (k - 1, k + 1, 2 * k, 0, k + 3) if x >= 0 and x != k])
                ns = [_good_count(rng) for _ in range(m)]
                call["n"] = tuple(ns) if as_tuple else ns
                call["expect"] = "length"
            elif kind == "entry":
                ns = [_good_count(rng) for _ in range(k)]
                pos = rng.randrange(k)
                ns[pos] = _bad_count(rng)
                if rng.random() < 0.2:  # more than one
                    ns[rng.randrange(k)] = _bad_count(rng)
                call["n"] = tuple(ns) if as_tuple else ns
                call["expect"] = "entry"
                call["pos"] = pos
            else:
                m = k + 1
                ns = [_good_count(rng) for _ in range(m)]
                ns[rng.randrange(m)] = _bad_count(rng)
                call["n"] = tuple(ns) if as_tuple else ns
                call["expect"] = "length"
    if can_fail and call["expect"] == "ok" and op in ("single", "batch", "dist") and call["cidx"] and rng.random() < 0.06:
        call["fail"] = rng.randint(1, len(call["cidx"]))
        call["expect"] = "device-failure"
    return call


def _with_neighbour_calls(rng, calls, how, sim):
    """fresh classes: after one accepted call in four the SAME request is issued again with every circuit replaced
    by a relative of it (its parent or a child in the family: one mutation away, e.g. a parameter that differs by
    1e-9), on the same or the other target, as a single run, a distribution request or inside a batch next to the
    original - so that near-identical requests also arrive back to back, whatever came before"""
    rel = {}
    for i, h in enumerate(how):
        if "(" in h:
            j = int(h[h.index("(") + 1:-1]) + 1  # how[0] is the empty circuit, parents are family indices
            rel.setdefault(i, []).append(j)
            rel.setdefault(j, []).append(i)
    out = []
    for c in calls:
        out.append(c)
        if c["expect"] != "ok" or not c["cidx"] or rng.random() > 0.25 or not any(i in rel for i in c["cidx"]):
            continue
        twin = dict(c)
        twin["cidx"] = [rng.choice(rel[i]) if i in rel and rng.random() < 0.8 else i for i in c["cidx"]]
        shape = rng.random()
        if c["op"] == "single" and shape < 0.25:
            twin["op"] = "dist"  # a run followed by a distribution request for the relative
        elif c["op"] == "single" and shape < 0.5:
            twin["op"], twin["cidx"] = "batch", [c["cidx"][0], twin["cidx"][0], c["cidx"][0]]
            twin["n"] = [c["n"], c["n"] + 1, c["n"] + 2] if isinstance(c["n"], int) else c["n"]
        elif c["op"] in ("wf", "exact") or (c["op"] == "dist" and c["n"] is None):
            pass
        out.append(twin)
    return out


def _widen_counts(rng, calls, pool, rig, tracked_bits, quick):
    """wide class: sample counts of accepted requests are moved to the size of the circuit's state space
    (2**n_qubits -1, +0, +1, ..: the sampler changes regime there), to 41 .. 50000 (registers up to 10 qubits) and, for
    circuits on up to 6 qubits, to 65535 .. 131073; the
    history ends where its estimated cost reaches the case's allowance (rejected requests cost nothing)"""
    allowance = 0.9 if quick else 2.5
    many_up_to = {"echo": 16, "lean": 13 if quick else 16}.get(rig, 10)
    spent = 0.0
    large_left = 1 if tracked_bits else 2
    out = []
    for c in calls:
        if c["expect"] in ("ok", "device-failure") and c["cidx"]:
            if c["op"] in ("single", "dist") and c["n"] is not None and c["expect"] == "ok":
                w = pool[c["cidx"][0]]["n"]
                roll = rng.random()
                if roll < 0.3 and w <= many_up_to:
                    c["n"] = rng.choice(W.boundary_counts(w))
                elif roll < 0.6 and w <= 6 and large_left:
                    c["n"] = rng.choice(W.LARGE_COUNTS)
                    large_left -= 1
                elif roll < 0.75 and w <= 10:
                    c["n"] = W.medium_count(rng)
            elif c["op"] == "batch" and c["expect"] == "ok" and rng.random() < 0.4:
                ns = [c["n"]] * len(c["cidx"]) if isinstance(c["n"], int) else list(c["n"])
                for k, i in enumerate(c["cidx"]):
                    w = pool[i]["n"]
                    if rng.random() < 0.5 and w <= many_up_to:
                        ns[k] = rng.choice(W.boundary_counts(w))
                    elif rng.random() < 0.2 and w <= 10:
                        ns[k] = W.medium_count(rng)
                c["n"] = tuple(ns) if isinstance(c["n"], tuple) else ns
            ns = c["n"] if isinstance(c["n"], (list, tuple)) else [c["n"]] * len(c["cidx"])
            if c["op"] == "exact" and pool[c["cidx"][0]]["n"] > 10:
                c["op"] = "wf"  # the expectation value of an operator is computed with the library's 4**n gate application
            cost = sum(W.cost(rig, pool[i], n, tracked_bits and c["tgt"] == "T") for i, n in zip(c["cidx"], ns))
            if out and spent + cost > allowance and any(x["expect"] == "ok" and x["op"] in ("single", "batch") and x["cidx"] for x in out):
                continue  # too dear by now: left out (cheaper requests still follow)
            spent += cost
        out.append(c)
    return out


def _client_view(rig, spec, n, meas):
    """wide class, judged from the caller's side with the circuit's spec (plain data): None when the returned
    measurements have >= n shots, each as long as the register and agreeing with every determined bit, else a text"""
    bs = list(meas.bitstrings)
    if len(bs) < n:
        return f"{len(bs)} shots for a request of {n}"
    if spec["n"] == 0:
        return None
    exp = _expected_bits("echo" if rig == "echo" else "sim", spec)
    for b in _distinct(bs):
        if len(b) != spec["n"]:
            return f"bitstring {tuple(b)} of length {len(b)} for a register of {spec['n']} qubits"
        pos = W.disagreement(b, exp) if exp is not None else None
        if pos is not None:
            return f"bitstring {tuple(b)}: bit #{pos} can only be {exp[pos]} (determined bits: {exp})"
    return None


def _call_str(call):
    n = call["n"]
    ns = ("(" + ",".join(map(str, n)) + ")" if isinstance(n, tuple) else
          "[" + ",".join(map(str, n)) + "]" if isinstance(n, list) else str(n))
    f = f"!fail{call['fail']}" if call["fail"] else ""
    return f"{call['tgt']}.{call['op']}(c{','.join(map(str, call['cidx']))};{ns}){f}"


def _nontrivial(calls):
    ok_seen = False
    rej_after_ok = False
    for c in calls:
        if c["expect"] == "ok":
            if rej_after_ok:
                return True
            ok_seen = True
        elif c["expect"] in ("nonpositive", "length", "entry") and ok_seen:
            rej_after_ok = True
    return False


def _materialise(ctx, rng, pool, circuits, cidx, dead):
    """fresh classes: the circuits of one call are built for this call (the ones of the previous calls are
    gone); an index that occurs twice in a batch is the same object or two equal ones"""
    out = []
    made = {}
    for i in cidx:
        if circuits[i] is not None:
            out.append(circuits[i])
            ctx.mon.note("fresh:long-lived-circuit-used")
            continue
        if i in made and rng.random() < 0.5:
            out.append(made[i])
            continue
        c = G.build_circuit(pool[i])
        was = dead.pop(id(c), None)
        if was is not None:
            ctx.mon.note("fresh:address-of-a-dropped-circuit-reused-by-" + ("an-equal-one" if pool[was] == pool[i] else "a-different-one"))
        made[i] = c
        out.append(c)
    return out


def _forget(r):
    """fresh classes: drop the references the harness' own logs hold to circuits and results of finished calls
    (the monitors only ever read the events of the call in progress)"""
    for e in G._log(r):
        if e.get("circuit") is not None:
            e["circuit"] = None
            e.pop("result", None)
    ret = getattr(r, "_rv_ret", None)
    if ret:
        ret.clear()


def run_case(ctx):
    from orquestra.quantum.operators import PauliSum, PauliTerm
    from orquestra.quantum.runners.symbolic_simulator import SymbolicSimulator
    from orquestra.quantum.runners.trackers import MeasurementTrackingBackend

    global _TMP
    Echo, Partial, DefaultSim = G.classes()
    rng = ctx.rng
    cls = ctx.cls
    tracked = cls.startswith("tracker_")
    base = cls[len("tracker_"):] if tracked else cls
    fresh = base == "fresh"  # short-lived, near-identical circuits (see _fresh_pool)
    if fresh:
        base = rng.choice(["echo", "symbolic", "symbolic", "partial", "default_pred"])
    wide = base == "wide"  # registers of 8 .. 17 (simulators) / 9 .. 130 (base runner) qubits, see rv.gen.wide
    if wide:
        base, width = W.slot(ctx.index, rng)
        tracked = rng.random() < 0.3
        if base == "lean" and not W.lean_class().contraction_agrees:
            width = min(width, 10)
            ctx.mon.note("wide:lean-simulator-fell-back-to-the-library's-gate-application")
    # ---- the rig
    native = None
    if base == "echo":
        extra = rng.choice([0, 0, 3])
        rigdesc = f"Echo(+{extra})"
    elif base == "symbolic":
        native = "all"
        rigdesc = "Symbolic"
    elif base == "lean":
        native = "all"
        rigdesc = "Lean"
    elif base == "partial":
        key = rng.choice(sorted(G.NATIVE_SETS))
        native = G.NATIVE_SETS[key]
        rigdesc = f"Partial[{key}]"
    else:
        native = "default"
        rigdesc = "DefaultPredicate"
    sim = base != "echo"
    seed = rng.randint(0, 10**6)
    record_bits = rng.random() < 0.5
    allow_mp = not tracked or rng.random() < 0.5  # MP circuits only ever go to the raw runner
    # ---- circuits
    pool = [{"n": rng.choice([0, 0, 1, 3]), "ops": []}] if not wide else W.pool(rng, base, width)  # [0]: operation-free circuit (possibly with idle qubits)
    how = None
    if fresh:
        fam, how = F.near_family(rng, rng.randint(4, 8), quantum=sim and rng.random() < 0.3)
        pool += fam
        how = ["empty"] + how
    for _ in range(0 if fresh or wide else rng.randint(3, 6)):
        if sim and rng.random() < 0.5:
            s = G.structured_spec(rng, native if native not in ("all", "default") else frozenset(n for n in G.ALL_NAMES if n != "MP"),
                                  allow_mp=allow_mp)
        else:
            s = G.rand_spec(rng, allow_mp=allow_mp and sim)
        if rng.random() < 0.3:
            s["n"] = min(5, s["n"] + rng.randint(1, 2))  # idle qubits at the end
            s["ops"] = [(nm, qs, p) if nm != "MP" else (nm, tuple(range(s["n"])), tuple(round(rng.uniform(-3, 3), 3) for _ in range(2 ** s["n"])))
                        for nm, qs, p in s["ops"]]
        pool.append(s)
    ncalls = rng.randint(20, 60) if ctx.quick else rng.randint(20, 200)
    if wide:
        ncalls = rng.randint(10, 30) if ctx.quick else rng.randint(10, 60)
    targets = ["T", "T", "R"] if tracked else ["R"]
    calls = [_plan_call(rng, targets, pool, sim, can_fail=(base == "echo")) for _ in range(ncalls)]
    if fresh:
        calls = _with_neighbour_calls(rng, calls, how, sim)
    if wide:
        calls = _widen_counts(rng, calls, pool, base, tracked and record_bits, ctx.quick)
    live_idx, drop_early = (), False
    if fresh:
        live_idx = tuple(i for i in range(len(pool)) if rng.random() < 0.2)  # these stay alive for the whole history
        drop_early = rng.random() < 0.5  # drop a call's circuits before / after the next call's circuits are built
    desc = (f"{'Tracker(bits=%s) of ' % record_bits if tracked else ''}{rigdesc} circuits="
            + " ".join(f"c{i}={W.spec_str(s)}" for i, s in enumerate(pool))
            + (f" fresh(derived={','.join(how)};live={list(live_idx)};drop={'early' if drop_early else 'late'})" if fresh else "")
            + " :: " + " ".join(_call_str(c) for c in calls))
    if wide:
        # non-trivial: an accepted sampling request reaches a register of 9 or more qubits
        ctx.describe(desc, any(c["expect"] == "ok" and c["n"] is not None and any(pool[i]["n"] >= 9 for i in c["cidx"]) for c in calls))
    else:
        ctx.describe(desc, _nontrivial(calls))

    # ---- build
    if base == "echo":
        runner = Echo(extra)
    elif base == "symbolic":
        runner = SymbolicSimulator(seed=seed)
    elif base == "lean":
        runner = W.lean_class()(seed=seed)
    elif base == "partial":
        runner = Partial(native, seed=seed)
    else:
        runner = DefaultSim(seed=seed)
    circuits = [W.build_circuit(s) if not fresh or i in live_idx else None for i, s in enumerate(pool)]
    dead = {}  # fresh: address -> pool index of the last dropped circuit that lived there
    tracker = None
    path = None
    if tracked:
        if _TMP is None:
            _TMP = tempfile.mkdtemp(prefix="rv-c14-")
        path = os.path.join(_TMP, f"track-{os.getpid()}-{ctx.index}.json")
        tracker = MeasurementTrackingBackend(runner, path, record_bitstrings=record_bits)
    model_r = M.CounterModel("sim" if sim else "base")
    model_t = M.CounterModel("tracker")
    op_for_exact = PauliSum([PauliTerm("Z0", 0.5), PauliTerm("I0", 0.25)])

    def observe(step, call):
        """history-level check: public counters vs the model's running totals"""
        for label, obj, model in (("runner", runner, model_r), ("tracker", tracker, model_t)):
            if obj is None:
                continue
            c, j = obj.n_circuits_executed, obj.n_jobs_executed
            chk = "history-counters" if label == "runner" else "history-counters-tracker"
            if model.exact:
                good = (c, j) == (model.circuits, model.jobs)
                ctx.check(chk, good,
                          lambda: f"after step {step} {_call_str(call)} the {label}'s counters are {(c, j)}, "
                                  f"the model of the history so far gives {(model.circuits, model.jobs)}")
                if not good:
                    model.resync(c, j)
            else:
                ctx.check(chk, model.resync(c, j),
                          lambda: f"after step {step} {_call_str(call)} the {label}'s counters decreased to {(c, j)}")

    try:
        for step, call in enumerate(calls):
            tgt = tracker if call["tgt"] == "T" else runner
            if fresh:
                cs = _materialise(ctx, rng, pool, circuits, call["cidx"], dead)
            else:
                cs = [circuits[i] for i in call["cidx"]]
            specs = [pool[i] for i in call["cidx"]]
            n_arg = call["n"]
            if fresh and isinstance(n_arg, (list, tuple)):  # the per-circuit counts are short-lived objects too
                n_arg = list(n_arg) if isinstance(n_arg, list) else tuple(list(n_arg))
            if call["fail"]:
                runner.fail_in = call["fail"]
            exc = None
            res = None
            try:
                if call["op"] == "single":
                    res = tgt.run_and_measure(cs[0], n_arg) if rng.random() < 0.7 else tgt.run_and_measure(circuit=cs[0], n_samples=n_arg)
                elif call["op"] == "batch":
                    arg = cs if rng.random() < 0.7 else tuple(cs)
                    res = tgt.run_batch_and_measure(arg, n_arg)
                elif call["op"] == "dist":
                    if n_arg is None and sim and call["tgt"] == "R" and rng.random() < 0.5:
                        res = tgt.get_measurement_outcome_distribution(cs[0])
                    else:
                        res = tgt.get_measurement_outcome_distribution(cs[0], n_arg)
                elif call["op"] == "wf":
                    res = tgt.get_wavefunction(cs[0])
                else:
                    res = tgt.get_exact_expectation_values(cs[0], op_for_exact) if cs[0].n_qubits >= 1 else tgt.get_wavefunction(cs[0])
            except (ValueError, G.DeviceFailure) as e:
                exc = e
            finally:
                runner_fail_left = getattr(runner, "fail_in", None)
                if base == "echo":
                    runner.fail_in = None
            expect = call["expect"]
            if expect in ("nonpositive", "length", "entry"):
                empty_corner = call["op"] == "batch" and not cs and expect == "nonpositive"
                if not (empty_corner and not EMPTY_BATCH_NONPOSITIVE_IS_INVALID):
                    ctx.check("history-outcome-empty-batch" if empty_corner else "history-outcome", isinstance(exc, ValueError),
                              lambda: f"step {step} {_call_str(call)} [{expect}] was not rejected with ValueError: "
                                      + (repr(exc) if exc is not None else f"returned {res!r}"[:200]))
            elif expect == "refused":
                ctx.check("history-outcome", exc is not None, lambda: f"step {step} {_call_str(call)} answered without a sample count")
            elif expect == "device-failure":
                ctx.check("history-outcome", isinstance(exc, G.DeviceFailure) and runner_fail_left is None,
                          lambda: f"step {step} {_call_str(call)}: planned device failure, got {exc!r}")
                done = call["fail"] - 1
                model_r.executed([[]] * len(cs), failed_after=done)
                if call["tgt"] == "T" and call["op"] == "batch":
                    model_t.tracker_batch(len(cs))
            else:
                ok = exc is None
                if ok and call["op"] == "batch":
                    ok = isinstance(res, list) and len(res) == len(cs)
                ctx.check("history-outcome", ok,
                          lambda: f"step {step} {_call_str(call)} valid request: " + (repr(exc) if exc is not None else f"returned {res!r}"[:200]))
                if exc is None and wide and call["op"] in ("single", "batch") and ok:
                    ns_ = M.per_circuit(len(cs), call["n"])
                    for k_, (s_, n_, m_) in enumerate(zip(specs, ns_, [res] if call["op"] == "single" else res)):
                        bad_ = _client_view(base, s_, n_, m_)
                        ctx.check("wide-register-result", bad_ is None,
                                  lambda: f"step {step} {_call_str(call)} on {rigdesc}: result #{k_} for c{call['cidx'][k_]}={W.spec_str(s_)}: {bad_}"[:900])
                        if s_["n"] >= 9:
                            ctx.mon.note(f"wide:sampled-register-of-{s_['n'] if s_['n'] <= 17 else '18+'}-qubits")
                        if n_ > 2 ** s_["n"] and s_["n"] >= 8:
                            ctx.mon.note("wide:more-shots-than-basis-states-on>=8-qubits")
                        if n_ >= 65535:
                            ctx.mon.note("wide:>=65535-shots")
                if exc is None:
                    flags = [G.native_flags(s, native) if sim else [] for s in specs]
                    model_r.executed(flags)
                    if call["tgt"] == "T":
                        if call["op"] == "single":
                            model_t.executed([[]])
                        elif call["op"] == "batch":
                            model_t.tracker_batch(len(cs))
                else:
                    model_r.exact = False
                    model_t.exact = False
            observe(step, call)
            if fresh:
                # nothing of the harness may keep a finished call's circuits or results alive
                for i, c in zip(call["cidx"], cs):
                    if circuits[i] is None:
                        dead[id(c)] = i
                _forget(runner)
                if tracker is not None:
                    _forget(tracker)
                if drop_early:
                    cs = arg = res = exc = c = n_arg = None
    finally:
        if path and os.path.exists(path):
            os.remove(path)


def finish(mon, res):
    global _TMP
    if _TMP and os.path.isdir(_TMP):
        shutil.rmtree(_TMP, ignore_errors=True)
        _TMP = None
